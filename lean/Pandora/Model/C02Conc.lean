/-
C02 — concurrent model of `compositeSchedule` (core/schedule/composite.go) over atomic leaf children.
Atomic steps are the critical sections: a caller runs from a call (or from the point between RUnlock and
Lock, where it holds no lock) up to its next such point or its return.  Any number of callers; the schedule
(`List Nat` of caller ids) is arbitrary.  RWMutex / atomic counters are assumed to make the sections atomic.
-/
import Pandora.Model.C02Sched

namespace Pandora.Model.C02.Conc
open Pandora.Model.C02

inductive Op where | next | left
deriving Repr, DecidableEq

inductive Pc where
  | idle
  /-- `Next`, parked before `rwMu.Lock()`: finish time got from the old head, `len(scheds)` seen -/
  | nextW (tx : Int) (seen : Nat)
  /-- `Left`, parked before `rwMu.Lock()` -/
  | leftW (seen : Nat)
deriving Repr, DecidableEq

/-- what a call returned -/
inductive Ret where
  | tok (tx : Int) (ok : Bool)
  | cnt (n : Int)
  | panic (msg : String)
  | parked                  -- log marker: the caller reached the point before `Lock` and waits there
deriving Repr, DecidableEq

structure Thread where
  pc : Pc := .idle
  todo : List Op            -- calls still to make (head = current one when pc ≠ idle)
  rets : List Ret := []     -- results so far, newest first
deriving Repr

structure St where
  cs : List Leaf
  la : List Int
  started : Bool
  thr : List Thread
  log : List (Nat × Ret)    -- global return order, newest first
deriving Repr

/-- outcome of running a caller until it parks or returns -/
inductive Out where
  | ret (r : Ret)
  | park (pc : Pc)

/-- leaves never fail on `next` / `left`; these wrappers expose that -/
def leafNext (l : Leaf) (now : Int) : Leaf × Int × Bool :=
  match l.next now with
  | .ok r => r
  | .error _ => (l, 0, false)

def leafLeft (l : Leaf) (now : Int) : Int :=
  match l.left now with
  | .ok (_, n) => n
  | .error _ => 0

structure Sh where   -- the shared part
  cs : List Leaf
  la : List Int
  started : Bool

/-- reader section of `Next` (from the top of `Next`). -/
def nextReader (s : Sh) (now : Int) : Sh × Out :=
  match s.cs with
  | [] => (s, .ret (.panic indexPanic))
  | c :: rest =>
    let (c', tx, ok) := leafNext c now
    let s' : Sh := ⟨c' :: rest, s.la, true⟩
    if ok then (s', .ret (.tok tx true))
    else if rest.isEmpty then (s', .ret (.tok tx false))
    else (s', .park (.nextW tx (rest.length + 1)))

/-- `startNext(tx)`: drop the head, start the new head. Leaves after the head are unstarted (invariant);
a started one makes `MarkStarted` panic. -/
def startNext (s : Sh) (tx : Int) : Except String Sh :=
  match s.cs with
  | _ :: h :: t => do
      let h' ← h.start tx
      pure ⟨h' :: t, s.la.tail, s.started⟩
  | _ => .error indexPanic

/-- writer section of `Next`; a retry (`return s.Next()`) continues with the reader section of the new call
in the same step, because no scheduling point lies between `Unlock` and the next `RLock`. -/
def nextWriter (s : Sh) (tx : Int) (seen : Nat) (now : Int) : Sh × Out :=
  let lenNow := s.cs.length
  if lenNow < seen then
    -- somebody started next before us: just take a token
    match s.cs with
    | [] => (s, .ret (.panic indexPanic))
    | c :: rest =>
      let (c', tx', ok) := leafNext c now
      let s' : Sh := ⟨c' :: rest, s.la, s.started⟩
      if ok || lenNow == 1 then (s', .ret (.tok tx' ok))
      else nextReader s' now           -- drained while we waited: retry `s.Next()`
  else
    match startNext s tx with
    | .error e => (s, .ret (.panic e))
    | .ok s1 =>
      match s1.cs with
      | [] => (s1, .ret (.panic indexPanic))
      | c :: rest =>
        let (c', tx', ok) := leafNext c now
        let s2 : Sh := ⟨c' :: rest, s1.la, s1.started⟩
        if ok then (s2, .ret (.tok tx' true))
        else nextReader s2 now         -- "Schedule without any tokens? Okay, just retry."

/-- reader section of `Left` -/
def leftReader (s : Sh) (now : Int) : Out :=
  match s.cs with
  | [] => .ret (.panic indexPanic)
  | c :: rest =>
    let left := leafLeft c now
    let la0 := s.la.headD 0
    if rest.isEmpty then .ret (.cnt left)
    else if left == 0 then
      if la0 ≥ 0 then .ret (.cnt la0)
      else if !s.started then .ret (.cnt (-1))
      else .park (.leftW (rest.length + 1))
    else if left < 0 then .ret (.cnt (-1))
    else .ret (.cnt (combineLeft left la0))

/-- writer section of `Left`, then `return s.Left()` -/
def leftWriter (s : Sh) (seen : Nat) (now : Int) : Sh × Out :=
  if s.cs.length == seen then
    match s.cs with
    | [] => (s, .ret (.panic indexPanic))
    | c :: rest =>
      let (c', tx, ok) := leafNext c now
      let s0 : Sh := ⟨c' :: rest, s.la, s.started⟩
      if ok then (s0, .ret (.panic "current schedule is not finished"))
      else match startNext s0 tx with
        | .error e => (s0, .ret (.panic e))
        | .ok s1 => (s1, leftReader s1 now)
  else (s, leftReader s now)

def setNth (l : List α) (i : Nat) (x : α) : List α := l.set i x

/-- the atomic section a caller in state `pc` (about to perform / performing `op`) executes next -/
def runSection (sh : Sh) (pc : Pc) (op : Op) (now : Int) : Sh × Out :=
  match pc, op with
  | .idle, .next => nextReader sh now
  | .idle, .left => (sh, leftReader sh now)
  | .nextW tx seen, _ => nextWriter sh tx seen now
  | .leftW seen, _ => leftWriter sh seen now

/-- fold a section's outcome back into the global state -/
def applyOut (st : St) (i : Nat) (th : Thread) (more : List Op) (sh' : Sh) (out : Out) : St :=
  match out with
  | .park pc => { st with cs := sh'.cs, la := sh'.la, started := sh'.started,
                          thr := setNth st.thr i { th with pc := pc }, log := (i, .parked) :: st.log }
  | .ret r => { st with cs := sh'.cs, la := sh'.la, started := sh'.started,
                        thr := setNth st.thr i { pc := .idle, todo := more, rets := r :: th.rets },
                        log := (i, r) :: st.log }

/-- one scheduling step: caller `i` runs until it parks or returns. A finished or unknown caller: no-op. -/
def step (now : Int) (st : St) (i : Nat) : St :=
  match st.thr[i]? with
  | none => st
  | some th =>
    match th.todo with
    | [] => st
    | op :: more =>
      let r := runSection ⟨st.cs, st.la, st.started⟩ th.pc op now
      applyOut st i th more r.1 r.2

def run (now : Int) (st : St) (sched : List Nat) : St := sched.foldl (step now) st

def finished (st : St) : Bool := st.thr.all (·.todo.isEmpty)

/-- after the given schedule let every caller finish, lowest id first (fuel-bounded round robin) -/
def drain (now : Int) : Nat → St → St
  | 0, st => st
  | fuel + 1, st =>
    match st.thr.findIdx? (fun t => !t.todo.isEmpty) with
    | none => st
    | some i => drain now fuel (step now st i)

end Pandora.Model.C02.Conc
