/-
C12 — model of instance startup (core/engine/engine.go `startInstances`, `buildNewInstanceSchedule`, the two cancel
sources of the start context in `awaitRun` / the shared-RPS callback, `runNewInstance`; core/engine/instance.go the exits
of `instance.Run`) as a transition system over EVENTS, and of the token times of `schedule.NewInstanceStep`.
Core Lean only, executable.

Three layers:
* `Pandora.Go.C12` — the vocabulary in which `/verif/gen -area startup` re-emits the current source
  (`Pandora/Gen/Startup.lean`): the start loop as a SEQUENTIAL function of the results of its successive `Wait` calls,
  the loop of `instance.Run` as a function of what every iteration sees, the cancel wiring as small tables.
* the hand-written sequential expectations `startSeq`, `instRun`, … (Bridge/C12Startup proves the regenerated
  definitions equal to them);
* the transition system: `startInstances` is one sequential loop around the startup `Waiter` (the C04 model is reused
  for it); everything else (the await loop cancelling the start context on the first out-of-ammo result, the shared
  RPS schedule reporting its end, the run being cancelled, instances finishing) happens concurrently and is an event
  that may be interleaved anywhere.  A `Wait` call that has to sleep is TWO steps: `wait` (entry `select`, `Next()`,
  clock, timer armed → `pending`) and then `timerFire` (the timer branch of the final `select`) or `wakeCancelled`
  (the `ctx.Done()` branch, possible only once the start context is cancelled); any other event may come in between.
  Proofs/C12 proves that the transition system, projected to the start loop, computes `startSeq`.
-/
import Pandora.Model.C04

namespace Pandora.Go.C12

/-- the two contexts `startInstances` is given (roles; resolved by gen from `runAsync`, not from names) -/
inductive Ctx | start | run
deriving Repr, DecidableEq

/-- what `startInstances` does besides waiting, in program order -/
inductive Act
  /-- synchronous `newInstance(ctx, …, id, deps)` -/
  | newInstance (ctx : Ctx) (id : Int)
  /-- `go func() { runRes <- instanceRunResult{id, func() error { defer first.Close(); return first.Run(ctx) }()} }()` -/
  | goRunFirst (ctx : Ctx) (id : Int)
  /-- `go func() { runRes <- instanceRunResult{id, runNewInstance(ctx, …, id, deps)} }()` -/
  | goRunNew (ctx : Ctx) (id : Int)
deriving Repr, DecidableEq

/-- the `err` result of `startInstances` -/
inductive StartErr
  | none
  /-- `ctx.Err()` (nil while that context is not done) -/
  | ofCtx (c : Ctx)
  /-- the error of the synchronous `newInstance` -/
  | create
deriving Repr, DecidableEq

structure StartRes where
  acts : List Act
  started : Int
  err : StartErr
  /-- `false`: the list of `Wait` results ran out while the loop was still going -/
  returned : Bool
deriving Repr, DecidableEq

/-- what the pool does on an awaited result / a schedule callback -/
inductive PoolAct
  | cancel (c : Ctx)
  | reportErr
deriving Repr, DecidableEq

/-- the error a pass of the body of `instance.Run`'s loop returns -/
inductive BodyErr | nil | outOfAmmo
deriving Repr, DecidableEq

/-- how `instance.Run` ends -/
inductive RunRet
  /-- the oracle list ran out: still looping -/
  | running
  /-- `return err` with the error of the loop body -/
  | body (e : BodyErr)
  /-- `return ctx.Err()` after the loop -/
  | ctxErr
deriving Repr, DecidableEq

/-- what one evaluation of the loop head and one pass of the body of `instance.Run` see -/
structure RunIter where
  /-- `ctx.Done()` ready in `IsFinished` -/
  ctxDone : Bool := false
  /-- `sched.Left()` -/
  left : Int := -1
  /-- `provider.Acquire()` ok -/
  ammoOk : Bool := true
  /-- `waiter.Wait(ctx)` -/
  waitOk : Bool := true
deriving Repr, DecidableEq

/-- the counters of the await loop (`runAwaitHandle`) that decide when the pool itself cancels the run context -/
structure Await where
  /-- `ah.isStartFinished()`, i.e. `ah.startRes == nil`: the result of `startInstances` has been received -/
  startFinished : Bool := false
  /-- `ah.startedInstances` (−1: undefined until start finish) -/
  started : Int := -1
  /-- `ah.awaitedInstances` -/
  awaited : Int := 0
deriving Repr, DecidableEq

/-- what an iteration of the await loop of `Engine.Run` receives: the result of a pool, or the engine context done -/
inductive EngEv
  | result (errNil : Bool)
  | ctxDone
deriving Repr, DecidableEq

/-- how `Engine.Run` returns -/
inductive EngRet | ok | failed | cancelled
deriving Repr, DecidableEq

structure EngRes where
  /-- pool results awaited without error so far -/
  awaited : Int
  /-- `none`: still waiting -/
  ret : Option EngRet
deriving Repr, DecidableEq

/-- which case the final `select` of `(*instancePool).Run` takes -/
inductive PoolRunEv
  /-- `<-ctx.Done()`: the pool context (child of the engine's) is done -/
  | ctxDone
  /-- `err, ok := <-awaitErr`: an error reported by the await loop (`ok`), or the channel closed: everything awaited -/
  | awaitErr (ok : Bool)
deriving Repr, DecidableEq

/-- what `(*instancePool).Run` returns -/
inductive PoolRunRet
  /-- `ctx.Err()` -/
  | ctxErr
  /-- the error the await loop reported -/
  | reported
  | nil
deriving Repr, DecidableEq

/-- the ways out of the `select` of `onErrAwaited` -/
inductive ErrCase | send | poolCtxDone
deriving Repr, DecidableEq

end Pandora.Go.C12

namespace Pandora.Model.C12
open Pandora.Model.C04 Pandora.Go.C12

/-! ### the sequential expectations (what the regenerated definitions must equal) -/

/-- the `for ; waiter.Wait(startCtx); started++ { id := started; go … runNewInstance(runCtx, …, id, deps) }` loop and the
`err = startCtx.Err(); return` after it -/
def startSeqLoop (acts : List Act) (started : Int) : List (Ctx → Bool) → StartRes
  | [] => { acts := acts, started := started, err := .none, returned := false }
  | w :: ws =>
    if w .start then startSeqLoop (acts ++ [.goRunNew .run started]) (started + 1) ws
    else { acts := acts, started := started, err := .ofCtx .start, returned := true }

/-- `startInstances` as a function of the result of the synchronous `newInstance` and of the results of the successive
`waiter.Wait(·)` calls (each as a function of the context the call is given) -/
def startSeq (firstOk : Bool) : List (Ctx → Bool) → StartRes
  | [] => { acts := [], started := 0, err := .none, returned := false }
  | w :: ws =>
    if !w .start then { acts := [], started := 0, err := .ofCtx .start, returned := true }
    else if !firstOk then { acts := [.newInstance .run 0], started := 0, err := .create, returned := true }
    else startSeqLoop [.newInstance .run 0, .goRunFirst .run 0] 1 ws

/-- `Waiter.IsFinished(ctx)` -/
def instFinished (ctxDone : Bool) (left : Int) : Bool := if ctxDone then true else left == 0

/-- one pass of the body of the loop of `instance.Run` -/
def instBody (ammoOk waitOk : Bool) : BodyErr :=
  if !ammoOk then .outOfAmmo else if !waitOk then .nil else .nil

/-- `instance.Run`: `for !waiter.IsFinished(ctx) { err := body(); if err != nil { return err } }; return ctx.Err()` -/
def instRun : List RunIter → RunRet
  | [] => .running
  | it :: rest =>
    if !instFinished it.ctxDone it.left then
      (if instBody it.ammoOk it.waitOk != .nil then .body (instBody it.ammoOk it.waitOk) else instRun rest)
    else .ctxErr

/-! ### the transition system -/

/-- the four ways instance start may be cut short -/
inductive Cause | outOfAmmo | rpsFinished | createFailed | runCancelled
deriving Repr, DecidableEq

/-- why an instance's `Run` returned: `return ctx.Err()` with the context not done (its schedule has no tokens left),
`return outOfAmmoErr`, the recovered panic of `gun.Shoot`, `return ctx.Err()` with the context done -/
inductive ExitReason | scheduleEnd | ammoEnd | error | cancelled
deriving Repr, DecidableEq

/-- an instance the start loop created (`newInstance(…, id, …)` was called with this id at instant `instant`) -/
structure Created where
  id : Nat
  instant : Int
  /-- `newInstance` succeeded (schedule, gun and Bind) -/
  ok : Bool
deriving Repr, DecidableEq

inductive Phase
  | starting   -- inside `startInstances`
  | done       -- `startInstances` returned
deriving Repr, DecidableEq

/-- pool configuration as far as instance start depends on it -/
structure Cfg where
  /-- which `Waiter.Wait` (C04): the repaired one is the current code -/
  v : Variant := .fresh
  /-- `rps-per-instance`: every instance gets its own RPS schedule and no finish callback is installed -/
  perInstance : Bool := false
deriving Repr, DecidableEq

/-- a `Wait` call of the start loop that is asleep on its timer, and what the loop will do if it returns true -/
structure Pending where
  env : Env
  createOk : Bool
  delay : Nat
deriving Repr, DecidableEq

structure St where
  phase : Phase := .starting
  /-- the startup Waiter -/
  waiter : Waiter := {}
  /-- tokens of the startup schedule not yet drawn (absolute instants, in order) -/
  toks : List Int := []
  /-- number of tokens drawn so far -/
  consumed : Nat := 0
  /-- the `started` counter of `startInstances` -/
  started : Nat := 0
  /-- instances created so far, oldest first -/
  created : List Created := []
  /-- ids of instances whose `Run` has not returned -/
  running : List Nat := []
  pending : Option Pending := none
  startCtxDone : Bool := false
  runCtxDone : Bool := false
  /-- the shared RPS schedule has reported its end (`onFinishOnce.Do(onFinish)` has returned) -/
  sharedRpsDone : Bool := false
  /-- `provider.Acquire` has answered "no more ammo" to an instance -/
  ammoOut : Bool := false
  sawOutOfAmmo : Bool := false
  sawRpsFinished : Bool := false
  sawCreateFailed : Bool := false
  sawRunCancelled : Bool := false
  /-- ghost: results of the completed `Wait` calls of the start loop, oldest first -/
  waitLog : List Bool := []
  /-- ghost: result of the synchronous `newInstance` (true until it fails) -/
  firstOk : Bool := true
  /-- ghost: what `startInstances` did besides waiting -/
  acts : List Act := []
  /-- ghost: the `err` result of `startInstances` once it has returned -/
  ret : StartErr := .none
deriving Repr, DecidableEq

def St.init (toks : List Int) : St := { toks := toks }

inductive Event
  /-- the start loop makes its next `waiter.Wait(startCtx)` call (`env`: what that call sees; `env.ret`: when it returns
  if the timer branch is taken) and, if it returns true, creates the next instance `delay` ns after the return;
  `createOk` = `newInstance` succeeds.  If the call has to sleep it stays `pending`. -/
  | wait (env : Env) (createOk : Bool) (delay : Nat)
  /-- the pending `Wait` call takes the timer branch of its final `select` -/
  | timerFire
  /-- the pending `Wait` call takes the `ctx.Done()` branch (only once the start context is cancelled) -/
  | wakeCancelled
  /-- the await loop receives an out-of-ammo instance result: `instanceStartCancel()` -/
  | outOfAmmoResult
  /-- the shared RPS schedule reports its end through the callback wrapper (first `Next()` without a token or first
  `Left() == 0` seen by an instance): `cancelStart()` unless the start context is already done -/
  | rpsFinished
  /-- the run context is cancelled (caller, or the pool failing) -/
  | runCancel
  /-- `Run` of instance `id` returns -/
  | instanceExit (id : Nat) (reason : ExitReason)
deriving Repr, DecidableEq

/-- a `wait` event is well formed in state `s` when its `Wait` call sees the start context and the startup schedule as
they are: ctx done iff the start context has been cancelled, the next undrawn token; `timerWins` is not an input of
this event (the final `select` is a later event) and is normalised to true -/
def envMatches (s : St) (env : Env) : Bool :=
  env.ctxDone == s.startCtxDone && env.tok == s.toks.head? && env.timerWins

/-- `Next()` was called and handed out a token on this path of `Wait` -/
def drew : Path → Bool
  | .ctxDone => false
  | .finished => false
  | _ => true

/-- what the start loop does with the result `r` of a completed `Wait` call -/
def complete (s : St) (r : Res) (p : Pending) : St :=
  let s := { s with waiter := r.w, pending := none, waitLog := s.waitLog ++ [r.ok] }
  let s := if drew r.path then { s with toks := s.toks.tail, consumed := s.consumed + 1 } else s
  if !r.ok then
    -- `ok := waiter.Wait(startCtx); if !ok { err = startCtx.Err(); return }` / the `for` condition fails
    { s with phase := .done, ret := .ofCtx .start }
  else if s.started == 0 then
    -- the first instance is created synchronously
    if p.createOk then
      { s with started := 1, created := s.created ++ [⟨0, p.env.ret + p.delay, true⟩], running := s.running ++ [0],
               acts := s.acts ++ [.newInstance .run 0, .goRunFirst .run 0] }
    else
      { s with sawCreateFailed := true, firstOk := false, phase := .done, ret := .create,
               acts := s.acts ++ [.newInstance .run 0] }
  else
    -- `id := started; go func() { runRes <- …runNewInstance(runCtx, …, id, deps) }()`; `started++`
    let id := s.started
    { s with started := s.started + 1, created := s.created ++ [⟨id, p.env.ret + p.delay, p.createOk⟩],
             running := if p.createOk then s.running ++ [id] else s.running,
             sawCreateFailed := s.sawCreateFailed || !p.createOk,
             acts := s.acts ++ [.goRunNew .run (id : Int)] }

/-- the start loop enters `waiter.Wait(startCtx)` -/
def stepWait (c : Cfg) (s : St) (env : Env) (createOk : Bool) (delay : Nat) : St :=
  if s.phase != .starting || s.pending.isSome || !envMatches s env then s else
  let r := waitV c.v s.waiter env
  if r.path == .timer then { s with pending := some ⟨env, createOk, delay⟩ }
  else complete s r ⟨env, createOk, delay⟩

def stepFire (c : Cfg) (s : St) : St :=
  match s.pending with
  | none => s
  | some p => complete s (waitV c.v s.waiter p.env) p

def stepWake (c : Cfg) (s : St) : St :=
  match s.pending with
  | none => s
  | some p =>
    if !s.startCtxDone then s
    else complete s (waitV c.v s.waiter { p.env with timerWins := false }) p

/-- may `Run` of an instance return for this reason in state `s`?  `ctx.Err()` is non-nil only when the RUN context is
done (instances are not given the start context); with a shared RPS schedule "no tokens left" is seen only after the
finish callback has run (`sync.Once`); an instance with its own schedule ends with that schedule. -/
def exitEnabled (c : Cfg) (s : St) : ExitReason → Bool
  | .cancelled => s.runCtxDone
  | .scheduleEnd => c.perInstance || s.sharedRpsDone
  | .ammoEnd => true
  | .error => true

/-- `Run` of instance `id` returns -/
def stepExit (c : Cfg) (s : St) (id : Nat) (reason : ExitReason) : St :=
  if !s.running.contains id || !exitEnabled c s reason then s else
  { s with running := s.running.erase id, ammoOut := s.ammoOut || reason == .ammoEnd }

/-- an instance has been created successfully (only instances draw from the RPS schedule and the provider) -/
def anyInstance (s : St) : Bool := s.created.any (·.ok)

def step (c : Cfg) (s : St) : Event → St
  | .wait env createOk delay => stepWait c s env createOk delay
  | .timerFire => stepFire c s
  | .wakeCancelled => stepWake c s
  | .outOfAmmoResult =>
      -- `res.Err == outOfAmmoErr` is the result of an instance to which the provider said "no more ammo"
      if !s.ammoOut then s else { s with sawOutOfAmmo := true, startCtxDone := true }
  | .rpsFinished =>
      -- no callback is installed for per-instance schedules; the shared schedule is drawn from by instances only
      if c.perInstance || !anyInstance s then s
      else { s with sharedRpsDone := true, sawRpsFinished := true, startCtxDone := true }
  | .runCancel => { s with sawRunCancelled := true, runCtxDone := true, startCtxDone := true }
  | .instanceExit id reason => stepExit c s id reason

def run (c : Cfg) (s : St) (evs : List Event) : St := evs.foldl (step c) s

/-! ### token times of the startup profiles (offsets from the schedule start, ns) -/

/-- `for i := from + step; i <= to; i += step` — number of iterations (step ≥ 1) -/
def stepCount (frm to step : Int) : Nat :=
  if frm + step ≤ to then ((to - (frm + step)) / step).toNat + 1 else 0

/-- tokens of `NewInstanceStep(from, to, step, d)`: `from` tokens at 0, then `step` tokens at `m·d` for m = 1, 2, … while
`from + m·step ≤ to` -/
def instanceStepToks (frm to step d : Int) : List Int :=
  List.replicate frm.toNat 0 ++
    (List.range (stepCount frm to step)).flatMap (fun (m : Nat) => List.replicate step.toNat (((m : Int) + 1) * d))

/-- duration of `NewInstanceStep` -/
def instanceStepDur (frm to step d : Int) : Int := (stepCount frm to step : Int) * d

end Pandora.Model.C12
