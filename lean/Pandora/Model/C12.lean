/-
C12 — model of instance startup (core/engine/engine.go `startInstances`, `buildNewInstanceSchedule`, the two cancel
sources of the start context in `awaitRun` / the shared-RPS callback) as a transition system over EVENTS, and of the token
times of `schedule.NewInstanceStep`.  Core Lean only, executable.

`startInstances` is one sequential loop around the startup `Waiter` (the C04 model is reused for it); everything else
(the await loop cancelling the start context on the first out-of-ammo result, the shared RPS schedule reporting its end, the
run being cancelled, instances finishing on their own) happens concurrently and is an event that may be interleaved
anywhere.  One `wait` event is one whole `waiter.Wait(startCtx)` call of the loop followed by what the loop does with its
result: a cancellation that arrives while the call sleeps on its timer is represented by the interleaving in which the
cancel event comes first (same outcome: `Wait` returns false, the loop exits); a cancellation that loses the final `select`
against the fired timer by the one in which it comes after.
-/
import Pandora.Model.C04

namespace Pandora.Model.C12
open Pandora.Model.C04

/-- the four ways instance start may be cut short -/
inductive Cause | outOfAmmo | rpsFinished | createFailed | runCancelled
deriving Repr, DecidableEq

/-- why an instance's `Run` returned -/
inductive ExitReason | scheduleEnd | ammoEnd | error | cancelled
deriving Repr, DecidableEq

/-- an instance the start loop created (`newInstance(…, id, …)` was called with this id at instant `instant`) -/
structure Created where
  id : Nat
  instant : Int
  /-- `newInstance` succeeded (schedule, gun and Bind) -/
  ok : Bool
deriving Repr, DecidableEq

inductive Phase
  | starting   -- inside `startInstances`
  | done       -- `startInstances` returned
deriving Repr, DecidableEq

structure St where
  phase : Phase := .starting
  /-- the startup Waiter -/
  waiter : Waiter := {}
  /-- tokens of the startup schedule not yet drawn (absolute instants, in order) -/
  toks : List Int := []
  /-- number of tokens drawn so far -/
  consumed : Nat := 0
  /-- the `started` counter of `startInstances` -/
  started : Nat := 0
  /-- instances created so far, oldest first -/
  created : List Created := []
  /-- ids of instances whose `Run` has not returned -/
  running : List Nat := []
  startCtxDone : Bool := false
  runCtxDone : Bool := false
  sawOutOfAmmo : Bool := false
  sawRpsFinished : Bool := false
  sawCreateFailed : Bool := false
  sawRunCancelled : Bool := false
deriving Repr, DecidableEq

def St.init (toks : List Int) : St := { toks := toks }

inductive Event
  /-- the start loop makes its next `waiter.Wait(startCtx)` call (`env`: what that call sees) and, if it returns true,
  creates the next instance `delay` ns after the return; `createOk` = `newInstance` succeeds -/
  | wait (env : Env) (createOk : Bool) (delay : Nat)
  /-- the await loop receives an out-of-ammo instance result: `instanceStartCancel()` -/
  | outOfAmmoResult
  /-- the shared RPS schedule reported its end through the callback wrapper: `cancelStart()` -/
  | rpsFinished
  /-- the run context is cancelled (caller, or the pool failing) -/
  | runCancel
  /-- `Run` of instance `id` returns -/
  | instanceExit (id : Nat) (reason : ExitReason)
deriving Repr, DecidableEq

/-- a `wait` event is well formed in state `s` when its `Wait` call sees the start context and the startup schedule as they
are: ctx done iff the start context has been cancelled, the next undrawn token, and (ctx not being done) the timer wins -/
def envMatches (s : St) (env : Env) : Bool :=
  env.ctxDone == s.startCtxDone && env.tok == s.toks.head? && env.timerWins

/-- one `waiter.Wait(startCtx)` call of the start loop and what the loop does with its result -/
def stepWait (v : Variant) (s : St) (env : Env) (createOk : Bool) (delay : Nat) : St :=
  if s.phase != .starting || !envMatches s env then s else
  let r := waitV v s.waiter env
  if !r.ok then
    -- `ok := waiter.Wait(startCtx); if !ok { err = startCtx.Err(); return }` / the `for` condition fails
    { s with waiter := r.w, phase := .done }
  else
    let s := { s with waiter := r.w, toks := s.toks.tail, consumed := s.consumed + 1 }
    if s.started == 0 then
      -- the first instance is created synchronously
      if createOk then
        { s with started := 1, created := s.created ++ [⟨0, env.ret + delay, true⟩], running := s.running ++ [0] }
      else
        { s with sawCreateFailed := true, phase := .done }
    else
      -- `id := started; go func() { runRes <- …runNewInstance(runCtx, …, id, deps) }()`; `started++`
      let id := s.started
      { s with started := s.started + 1, created := s.created ++ [⟨id, env.ret + delay, createOk⟩],
               running := if createOk then s.running ++ [id] else s.running,
               sawCreateFailed := s.sawCreateFailed || !createOk }

/-- `Run` of instance `id` returns: with a context error only if the RUN context is done (instances do not see the start
context) -/
def stepExit (s : St) (id : Nat) (reason : ExitReason) : St :=
  if reason == .cancelled && !s.runCtxDone then s else { s with running := s.running.erase id }

def step (v : Variant) (s : St) : Event → St
  | .wait env createOk delay => stepWait v s env createOk delay
  | .outOfAmmoResult => { s with sawOutOfAmmo := true, startCtxDone := true }
  | .rpsFinished => { s with sawRpsFinished := true, startCtxDone := true }
  | .runCancel => { s with sawRunCancelled := true, runCtxDone := true, startCtxDone := true }
  | .instanceExit id reason => stepExit s id reason

def run (v : Variant) (s : St) (evs : List Event) : St := evs.foldl (step v) s

/-! ### token times of the startup profiles (offsets from the schedule start, ns) -/

/-- `for i := from + step; i <= to; i += step` — number of iterations (step ≥ 1) -/
def stepCount (frm to step : Int) : Nat :=
  if frm + step ≤ to then ((to - (frm + step)) / step).toNat + 1 else 0

/-- tokens of `NewInstanceStep(from, to, step, d)`: `from` tokens at 0, then `step` tokens at `m·d` for m = 1, 2, … while
`from + m·step ≤ to` -/
def instanceStepToks (frm to step d : Int) : List Int :=
  List.replicate frm.toNat 0 ++
    (List.range (stepCount frm to step)).flatMap (fun (m : Nat) => List.replicate step.toNat (((m : Int) + 1) * d))

/-- duration of `NewInstanceStep` -/
def instanceStepDur (frm to step d : Int) : Int := (stepCount frm to step : Int) * d

end Pandora.Model.C12
