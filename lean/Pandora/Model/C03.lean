/-
C03 — model of the instance loop (core/engine/instance.go `instance.Run`) over a shared or per-instance
finite schedule and a bounded or unbounded ammo provider, as a labelled transition system:
every interleaving of any number of instances is a list of events; an event that is not enabled is rejected.
The events are exactly what the correspondence harness observes on the real engine.
-/
namespace Pandora.Model.C03

inductive Pc where
  | check     -- top of the loop: `waiter.IsFinished(ctx)` → `sched.Left() == 0`
  | acquire   -- `provider.Acquire()`
  | wait      -- holds an ammo; `waiter.Wait(ctx)` → `sched.Next()`
  | decide    -- holds an ammo and a token: shoot or (discard_overflow) report a discarded sample
  | release   -- `provider.Release(ammo)` (deferred)
  | done      -- left the loop (schedule finished) or out of ammo
deriving Repr, DecidableEq

inductive Ev where
  | chk (i : Nat) (left : Nat)   -- IsFinished observed `Left() = left`
  | acq (i : Nat)                -- Acquire returned an ammo
  | empty (i : Nat)              -- Acquire reported end of ammo
  | tokOk (i : Nat)              -- Next() gave a token
  | tokEnd (i : Nat)             -- Next() reported the schedule finished
  | shoot (i : Nat)
  | discard (i : Nat)
  | rel (i : Nat)
deriving Repr, DecidableEq

structure Cfg where
  perInstance : Bool      -- rps-per-instance
  tokens : Nat            -- tokens of one full profile
  ammo : Option Nat       -- ammo items available (none = unbounded)
  discardOn : Bool        -- discard_overflow
  instances : Nat         -- started instances
deriving Repr

structure St where
  pcs : List Pc
  shared : Nat            -- tokens left in the shared profile
  own : List Nat          -- tokens left in each instance's own profile (per-instance mode)
  ammoLeft : Option Nat
  acquired : Nat := 0
  released : Nat := 0
  fired : Nat := 0
  discarded : Nat := 0
  unfired : Nat := 0      -- ammo released without a shot or discard
  unf : List Bool         -- instance i released an unfired ammo
  lastDrawer : Option Nat := none
  request : Nat := 0
  response : Nat := 0
deriving Repr

def init (c : Cfg) : St :=
  { pcs := List.replicate c.instances .check, shared := c.tokens,
    own := List.replicate c.instances c.tokens, ammoLeft := c.ammo,
    unf := List.replicate c.instances false }

/-- tokens left in the schedule instance `i` draws from -/
def St.left (c : Cfg) (s : St) (i : Nat) : Nat := if c.perInstance then s.own[i]?.getD 0 else s.shared

def St.draw (c : Cfg) (s : St) (i : Nat) : St :=
  if c.perInstance then { s with own := s.own.set i (s.own[i]?.getD 0 - 1) } else { s with shared := s.shared - 1 }

def step (c : Cfg) (s : St) : Ev → Option St
  | .chk i left =>
      if s.pcs[i]? = some .check ∧ left = s.left c i then
        some { s with pcs := s.pcs.set i (if left = 0 then .done else .acquire) }
      else none
  | .acq i =>
      if s.pcs[i]? = some .acquire then
        match s.ammoLeft with
        | none => some { s with pcs := s.pcs.set i .wait, acquired := s.acquired + 1 }
        | some 0 => none
        | some (a + 1) => some { s with pcs := s.pcs.set i .wait, acquired := s.acquired + 1, ammoLeft := some a }
      else none
  | .empty i =>
      if s.pcs[i]? = some .acquire ∧ s.ammoLeft = some 0 then some { s with pcs := s.pcs.set i .done } else none
  | .tokOk i =>
      if s.pcs[i]? = some .wait ∧ 0 < s.left c i then
        some { (s.draw c i) with pcs := s.pcs.set i .decide, lastDrawer := some i }
      else none
  | .tokEnd i =>
      if s.pcs[i]? = some .wait ∧ s.left c i = 0 then
        some { s with pcs := s.pcs.set i .release, unfired := s.unfired + 1, unf := s.unf.set i true }
      else none
  | .shoot i =>
      if s.pcs[i]? = some .decide then
        some { s with pcs := s.pcs.set i .release, fired := s.fired + 1, request := s.request + 1, response := s.response + 1 }
      else none
  | .discard i =>
      if s.pcs[i]? = some .decide ∧ c.discardOn then
        some { s with pcs := s.pcs.set i .release, discarded := s.discarded + 1 }
      else none
  | .rel i =>
      if s.pcs[i]? = some .release then
        some { s with pcs := s.pcs.set i .check, released := s.released + 1 }
      else none

/-- run a trace; `none` = some event was not enabled (the trace is not a behaviour of the model) -/
def run (c : Cfg) : St → List Ev → Option St
  | s, [] => some s
  | s, e :: es => match step c s e with
    | some s' => run c s' es
    | none => none

def St.terminal (s : St) : Bool := s.pcs.all (· == .done)

/-- total tokens of the pool: the shared profile, or one full profile per started instance -/
def Cfg.totalTokens (c : Cfg) : Nat := if c.perInstance then c.instances * c.tokens else c.tokens

def minOpt (t : Nat) : Option Nat → Nat
  | none => t
  | some a => min t a

end Pandora.Model.C03
