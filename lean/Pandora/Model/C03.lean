/-
C03 — model of one instance pool of the engine (core/engine/engine.go `instancePool`, core/engine/instance.go
`instance.Run`) over a shared or per-instance finite schedule and a bounded or unbounded ammo provider, as a labelled
transition system.  Every interleaving of any number of instances, started at any moments of the run, is a list of
events; an event that is not enabled is rejected (`step … = none`).  The events are exactly what the correspondence
harness observes on the real engine (plus the two counter increments around `Shoot`, whose position is fixed by the
regenerated loop body, see `Pandora.Bridge.InstLoop`).

One iteration of `instance.Run`, in source order (regenerated: `Pandora.Gen.InstLoop.iterBody`):

    for !waiter.IsFinished(ctx) {            chk   : sched.Left() observed; 0 ⇒ leave the loop
      ammo, ok := provider.Acquire()         acq / empty
      if !ok { return outOfAmmoErr }
      defer provider.Release(ammo)           rel   (runs when the iteration function returns)
      if !waiter.Wait(ctx) { return nil }    tokOk / tokEnd : sched.Next()
      if !discardOverflow || !IsSlowDown {
        metrics.Request.Add(1)               reqAdd
        gun.Shoot(ammo)                      shoot
        metrics.Response.Add(1)              respAdd
      } else { aggregator.Report(DiscardedShootSample()) }   discard
    }

Ammo items are identified by their acquisition number (0, 1, 2 … in the order of the `acq` events); `cur[i]` is the
local variable `ammo` of instance `i`; `rels[k]` counts the releases of item `k`; `badUse` records a `Shoot` or a
`Release` of an item that is not held (the transition system does NOT forbid it — that it never happens is a theorem).
-/
namespace Pandora.Model.C03

inductive Pc where
  | idle      -- not started yet (the startup schedule has not produced this instance)
  | check     -- top of the loop: `waiter.IsFinished(ctx)` → `sched.Left() == 0`
  | acquire   -- `provider.Acquire()`
  | wait      -- holds an ammo; `waiter.Wait(ctx)` → `sched.Next()`
  | decide    -- holds an ammo and a token: fire or (discard_overflow) report a discarded sample
  | firing    -- `metrics.Request.Add(1)` done, `gun.Shoot` not yet called
  | shot      -- `gun.Shoot` called, `metrics.Response.Add(1)` not yet done
  | release   -- `provider.Release(ammo)` (deferred) is next
  | done      -- left the loop (schedule finished) or out of ammo
deriving Repr, DecidableEq

/-- the instance holds an ammo item (between `Acquire` and the deferred `Release`) -/
def Pc.holds : Pc → Bool
  | .wait | .decide | .firing | .shot | .release => true
  | _ => false

inductive Ev where
  | start (i : Nat)              -- instance `i` begins `Run` (`metrics.InstanceStart.Add(1)`); its schedule is created
  | chk (i : Nat) (left : Nat)   -- IsFinished observed `Left() = left`
  | acq (i : Nat)                -- Acquire returned an ammo
  | empty (i : Nat)              -- Acquire reported end of ammo
  | tokOk (i : Nat)              -- Next() gave a token
  | tokEnd (i : Nat)             -- Next() reported the schedule finished
  | reqAdd (i : Nat)             -- metrics.Request.Add(1)
  | shoot (i : Nat) (k : Nat)    -- gun.Shoot(ammo) with ammo = item k
  | respAdd (i : Nat)            -- metrics.Response.Add(1)
  | discard (i : Nat)            -- aggregator.Report(DiscardedShootSample())
  | rel (i : Nat) (k : Nat)      -- provider.Release(ammo) with ammo = item k
deriving Repr, DecidableEq

structure Cfg where
  perInstance : Bool      -- rps-per-instance
  tokens : Nat            -- tokens of one full profile
  ammo : Option Nat       -- ammo items available (none = unbounded)
  discardOn : Bool        -- discard_overflow
  instances : Nat         -- upper bound of the number of instances the startup schedule can start
deriving Repr

structure St where
  pcs : List Pc
  started : Nat := 0      -- instances started so far (= metrics.InstanceStart); instance ids are 0 … started-1
  shared : Nat            -- tokens left in the shared profile
  own : List Nat          -- tokens left in each instance's own profile (per-instance mode)
  ammoLeft : Option Nat
  acquired : Nat := 0
  released : Nat := 0
  fired : Nat := 0        -- calls of gun.Shoot
  discarded : Nat := 0    -- discarded samples reported
  unfired : Nat := 0      -- ammo released without a shot or discard
  unf : List Bool         -- instance i released an unfired ammo
  lastDrawer : Option Nat := none
  request : Nat := 0      -- metrics.Request
  response : Nat := 0     -- metrics.Response
  cur : List (Option Nat) -- the item held in the local variable `ammo` of each instance
  rels : List Nat := []   -- per item: number of Release calls
  badUse : Bool := false  -- a Shoot or Release of an item that was not held at that moment
deriving Repr

def init (c : Cfg) : St :=
  { pcs := List.replicate c.instances .idle, shared := c.tokens,
    own := List.replicate c.instances 0, ammoLeft := c.ammo,
    unf := List.replicate c.instances false, cur := List.replicate c.instances none }

/-- tokens left in the schedule instance `i` draws from -/
def St.left (c : Cfg) (s : St) (i : Nat) : Nat := if c.perInstance then s.own[i]?.getD 0 else s.shared

def St.draw (c : Cfg) (s : St) (i : Nat) : St :=
  if c.perInstance then { s with own := s.own.set i (s.own[i]?.getD 0 - 1) } else { s with shared := s.shared - 1 }

/-- item `k` is currently held: acquired and not released -/
def St.heldItem (s : St) (k : Nat) : Bool := s.rels[k]? == some 0

def step (c : Cfg) (s : St) : Ev → Option St
  | .start i =>
      -- instances are numbered in the order of their start; with rps-per-instance `newSchedule()` builds a fresh profile
      if i = s.started ∧ s.pcs[i]? = some .idle then
        some { s with pcs := s.pcs.set i .check, started := s.started + 1, own := s.own.set i c.tokens }
      else none
  | .chk i left =>
      if s.pcs[i]? = some .check ∧ left = s.left c i then
        some { s with pcs := s.pcs.set i (if left = 0 then .done else .acquire) }
      else none
  | .acq i =>
      if s.pcs[i]? = some .acquire then
        match s.ammoLeft with
        | none => some { s with pcs := s.pcs.set i .wait, acquired := s.acquired + 1,
                                cur := s.cur.set i (some s.acquired), rels := s.rels ++ [0] }
        | some 0 => none
        | some (a + 1) => some { s with pcs := s.pcs.set i .wait, acquired := s.acquired + 1, ammoLeft := some a,
                                        cur := s.cur.set i (some s.acquired), rels := s.rels ++ [0] }
      else none
  | .empty i =>
      if s.pcs[i]? = some .acquire ∧ s.ammoLeft = some 0 then some { s with pcs := s.pcs.set i .done } else none
  | .tokOk i =>
      if s.pcs[i]? = some .wait ∧ 0 < s.left c i then
        some { (s.draw c i) with pcs := s.pcs.set i .decide, lastDrawer := some i }
      else none
  | .tokEnd i =>
      if s.pcs[i]? = some .wait ∧ s.left c i = 0 then
        some { s with pcs := s.pcs.set i .release, unfired := s.unfired + 1, unf := s.unf.set i true }
      else none
  | .reqAdd i =>
      if s.pcs[i]? = some .decide then
        some { s with pcs := s.pcs.set i .firing, request := s.request + 1 }
      else none
  | .shoot i k =>
      if s.pcs[i]? = some .firing ∧ s.cur[i]? = some (some k) then
        some { s with pcs := s.pcs.set i .shot, fired := s.fired + 1, badUse := s.badUse || !s.heldItem k }
      else none
  | .respAdd i =>
      if s.pcs[i]? = some .shot then
        some { s with pcs := s.pcs.set i .release, response := s.response + 1 }
      else none
  | .discard i =>
      if s.pcs[i]? = some .decide ∧ c.discardOn then
        some { s with pcs := s.pcs.set i .release, discarded := s.discarded + 1 }
      else none
  | .rel i k =>
      if s.pcs[i]? = some .release ∧ s.cur[i]? = some (some k) then
        some { s with pcs := s.pcs.set i .check, released := s.released + 1, cur := s.cur.set i none,
                      rels := s.rels.set k (s.rels[k]?.getD 0 + 1), badUse := s.badUse || !s.heldItem k }
      else none

/-- run a trace; `none` = some event was not enabled (the trace is not a behaviour of the model) -/
def run (c : Cfg) : St → List Ev → Option St
  | s, [] => some s
  | s, e :: es => match step c s e with
    | some s' => run c s' es
    | none => none

/-- the pool has ended: every started instance has left its loop -/
def St.terminal (s : St) : Bool := s.pcs.all (fun p => p == .done || p == .idle)

/-- total tokens of the pool: the shared profile, or one full profile per STARTED instance -/
def St.totalTokens (c : Cfg) (s : St) : Nat := if c.perInstance then s.started * c.tokens else c.tokens

def minOpt (t : Nat) : Option Nat → Nat
  | none => t
  | some a => min t a

end Pandora.Model.C03
