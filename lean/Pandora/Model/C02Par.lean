/-
C02 — concurrent model of `compositeSchedule` (core/schedule/composite.go) over ABSTRACT children.

The children are arbitrary schedule objects `σ` with operations `ops : Ops σ` (leaves, or composites of any
depth taken as linearizable objects: each child operation is one atomic action).  Any number of callers, each
with a program of `Next` / `Left` calls.  A step of the system is one atomic action of one caller, at a clock
reading:

  * `Next`:  `started.Store(true)`                                        idle  → nextB
             reader section (RLock … RUnlock): child.Next, len(scheds)    nextB → return | nextW tx seen
             writer section (Lock … Unlock): re-check, startNext, Next    nextW → return | nextB (retry `s.Next()`)
  * `Left`:  reader section: len, leftAfter[0], child.Left                idle  → return | leftW seen
             writer section: re-check, child.Next, startNext              leftW → idle   (retry `s.Left()`)

Between two sections a caller holds no lock, so any other caller may run there; a retry is a new call and is
therefore a separate step as well.  The schedule of steps (`List (caller × clock)`) is arbitrary.
sync.RWMutex is assumed to make the sections atomic with respect to each other as far as they conflict
(readers only call child operations, which are atomic themselves, and read fields only writers change).
Partial operations are explicit: an error of a child operation, `scheds[0]` of an empty list and
`panic("current schedule is not finished")` are `Ret.panic` results.
-/
import Pandora.Model.C02Sched

namespace Pandora.Model.C02.Par
open Pandora.Model.C02

inductive Op where | next | left
deriving Repr, DecidableEq

inductive Pc where
  | idle
  /-- in `Next`, after `started.Store(true)`, before `RLock` -/
  | nextB
  /-- in `Next`, before `rwMu.Lock()`: finish time got from the old head, `len(scheds)` seen -/
  | nextW (tx : Int) (seen : Nat)
  /-- in `Left`, before `rwMu.Lock()` -/
  | leftW (seen : Nat)
deriving Repr, DecidableEq

/-- what a call returned -/
inductive Ret where
  | tok (tx : Int) (ok : Bool)
  | cnt (n : Int)
  | panic (msg : String)
deriving Repr, DecidableEq

/-- outcome of one atomic action: the call returns, or the caller moves on to another point of the call -/
inductive Out where
  | ret (r : Ret)
  | goto (pc : Pc)
deriving Repr, DecidableEq

structure Thread where
  pc : Pc := .idle
  todo : List Op            -- calls still to make (head = the call in progress when pc ≠ idle)
deriving Repr

/-- the shared part: `scheds`, `leftAfter`, `started` -/
structure Sh (σ : Type) where
  cs : List σ
  la : List Int
  started : Bool

structure St (σ : Type) where
  sh : Sh σ
  thr : List Thread
  log : List (Nat × Int × Out)    -- every action: caller, clock reading, outcome; newest first

section
variable {σ : Type} (ops : Ops σ)

/-- `s.started.Store(true)` at the top of `Next` -/
def nextBegin (s : Sh σ) : Sh σ × Out := ({ s with started := true }, .goto .nextB)

/-- reader section of `Next` -/
def nextReader (s : Sh σ) (now : Int) : Sh σ × Out :=
  match s.cs with
  | [] => (s, .ret (.panic indexPanic))
  | c :: rest =>
    match ops.next c now with
    | .error e => (s, .ret (.panic e))
    | .ok (c', tx, ok) =>
      let s' : Sh σ := { s with cs := c' :: rest }
      if ok then (s', .ret (.tok tx true))
      else if rest.isEmpty then (s', .ret (.tok tx false))
      else (s', .goto (.nextW tx (rest.length + 1)))

/-- `startNext(tx)`: drop the head, start the new head -/
def startNext (s : Sh σ) (tx : Int) : Except String (Sh σ) :=
  match s.cs with
  | _ :: h :: t =>
    match ops.start h tx with
    | .error e => .error e
    | .ok h' => .ok { s with cs := h' :: t, la := s.la.tail }
  | _ => .error indexPanic

/-- writer section of `Next` -/
def nextWriter (s : Sh σ) (tx : Int) (seen : Nat) (now : Int) : Sh σ × Out :=
  let lenNow := s.cs.length
  if lenNow < seen then
    -- somebody started next before us: just take a token
    match s.cs with
    | [] => (s, .ret (.panic indexPanic))
    | c :: rest =>
      match ops.next c now with
      | .error e => (s, .ret (.panic e))
      | .ok (c', tx', ok) =>
        let s' : Sh σ := { s with cs := c' :: rest }
        if ok || lenNow == 1 then (s', .ret (.tok tx' ok))
        else (s', .goto .nextB)          -- drained while we waited: `return s.Next()`
  else
    match startNext ops s tx with
    | .error e => (s, .ret (.panic e))
    | .ok s1 =>
      match s1.cs with
      | [] => (s1, .ret (.panic indexPanic))
      | c :: rest =>
        match ops.next c now with
        | .error e => (s1, .ret (.panic e))
        | .ok (c', tx', ok) =>
          let s2 : Sh σ := { s1 with cs := c' :: rest }
          if !ok && decide (lenNow > 1) then (s2, .goto .nextB)   -- "Schedule without any tokens? Okay, just retry."
          else (s2, .ret (.tok tx' ok))

/-- reader section of `Left` -/
def leftReader (s : Sh σ) (now : Int) : Sh σ × Out :=
  match s.cs with
  | [] => (s, .ret (.panic indexPanic))
  | c :: rest =>
    match ops.left c now with
    | .error e => (s, .ret (.panic e))
    | .ok (c', left) =>
      let s' : Sh σ := { s with cs := c' :: rest }
      let la0 := s.la.headD 0
      if rest.isEmpty then (s', .ret (.cnt left))
      else if left == 0 then
        if la0 ≥ 0 then (s', .ret (.cnt la0))
        else if !s.started then (s', .ret (.cnt (-1)))
        else (s', .goto (.leftW (rest.length + 1)))
      else if left < 0 || la0 < 0 then (s', .ret (.cnt (-1)))
      else (s', .ret (.cnt (left + la0)))

/-- writer section of `Left`; then `return s.Left()` -/
def leftWriter (s : Sh σ) (seen : Nat) (now : Int) : Sh σ × Out :=
  if s.cs.length == seen then
    match s.cs with
    | [] => (s, .ret (.panic indexPanic))
    | c :: rest =>
      match ops.next c now with
      | .error e => (s, .ret (.panic e))
      | .ok (c', tx, ok) =>
        let s0 : Sh σ := { s with cs := c' :: rest }
        if ok then (s0, .ret (.panic "current schedule is not finished"))
        else match startNext ops s0 tx with
          | .error e => (s0, .ret (.panic e))
          | .ok s1 => (s1, .goto .idle)
  else (s, .goto .idle)

/-- the atomic action a caller at `pc` (performing `op`) executes next -/
def runSection (sh : Sh σ) (pc : Pc) (op : Op) (now : Int) : Sh σ × Out :=
  match pc, op with
  | .idle, .next => nextBegin sh
  | .idle, .left => leftReader ops sh now
  | .nextB, _ => nextReader ops sh now
  | .nextW tx seen, _ => nextWriter ops sh tx seen now
  | .leftW seen, _ => leftWriter ops sh seen now

/-- fold an action's outcome back into the global state -/
def applyOut (st : St σ) (i : Nat) (now : Int) (th : Thread) (more : List Op) (sh' : Sh σ) (out : Out) : St σ :=
  match out with
  | .goto pc => { sh := sh', thr := st.thr.set i { th with pc := pc }, log := (i, now, out) :: st.log }
  | .ret _ => { sh := sh', thr := st.thr.set i { pc := .idle, todo := more }, log := (i, now, out) :: st.log }

/-- one step: caller `i` performs its next atomic action at clock `now`. A finished or unknown caller: no-op. -/
def step (st : St σ) (e : Nat × Int) : St σ :=
  match st.thr[e.1]? with
  | none => st
  | some th =>
    match th.todo with
    | [] => st
    | op :: more =>
      let r := runSection ops st.sh th.pc op e.2
      applyOut st e.1 e.2 th more r.1 r.2

def run (st : St σ) (sched : List (Nat × Int)) : St σ := sched.foldl (step ops) st

/-- run caller `i` up to its next scheduling point of the controlled harness (the points before `Lock`) or to
its return: the other actions (`started.Store`, a retry) are taken in the same breath -/
def stepFull (now : Int) : Nat → St σ → Nat → St σ
  | 0, st, _ => st
  | fuel + 1, st, i =>
    let st' := step ops st (i, now)
    match st'.log with
    | (j, _, .goto .nextB) :: _ => if j == i && st'.log.length != st.log.length then stepFull now fuel st' i else st'
    | (j, _, .goto .idle) :: _ => if j == i && st'.log.length != st.log.length then stepFull now fuel st' i else st'
    | _ => st'

end

end Pandora.Model.C02.Par
