/-
C06 (v) — from the pool's await loop to the return value of `Engine.Run`, and who runs under which context:
`core/engine/engine.go` `Engine.Run`, `instancePool.Run`, `runAsync`.

**Contexts.** `runAsync` builds `runCtx, runCancel := WithCancel(poolCtx)` and
`instanceStartCtx, instanceStartCancel := WithCancel(runCtx)`; provider and aggregator run under `runCtx`,
`startInstances` gets (`instanceStartCtx`, `runCtx`). Calling a cancel function cancels its context and every
context derived from it. `cancelledBy`/`doneWith` compute that on the regenerated derivation table
(`Gen.AggQ.engineCtxDerive`, contexts and cancel functions are the numbers of runAsync's locals).

**Engine.Run.** For every pool a goroutine runs `pool.Run(ctx)` and then offers the result on `runRes` (capacity 1)
or drops it when the engine's context is done. `pool.Run` ends in

    select { case <-ctx.Done(): return ctx.Err()
             case err, ok := <-awaitErr: if ok { return err }; return nil }

and `awaitErr` is closed by the deferred function of `awaitRunAsync`'s goroutine — the `waitDone` event of
`Model.C06Pool`. `Engine.Run`'s loop `for i := 0; i < len(Pools); i++ { select { res := <-runRes | <-ctx.Done() } }`
returns at the first error and `nil` when the loop is over. `awaitN` is the number of results the loop awaits
(the code: `len(Pools)`, tied by `Bridge.AggQ.engineRunLoopBound_eq`).

Over-approximations (more behaviour than the code, so what is proved for all traces holds for the code): a pool's
`Run` may return an error at any time (`poolRetErr`: context done, a task's error, warm-up failure); the engine's
context may be done at any time (`engCtxDone`, `poolSuppress`); a pool's own goroutines are the free-running
`Model.C06Pool` system, external cancels included. An event that is not enabled leaves the state unchanged.
-/
import Pandora.Model.C06Pool

namespace Pandora.Model.C06Engine
open Pandora.Model.C06Pool (PSt PEv)

/-! ### contexts -/

/-- `(child, cancel, parent)` for every `child, cancel := context.WithCancel(parent)` -/
abbrev Derive := List (Nat × Nat × Nat)

/-- contexts derived directly from one of `xs` -/
def children (d : Derive) (xs : List Nat) : List Nat := (d.filter fun e => xs.contains e.2.2).map (·.1)

def closure (d : Derive) : Nat → List Nat → List Nat
  | 0, xs => xs
  | k + 1, xs => closure d k (xs ++ children d xs)

/-- the contexts that are done once context `x` is done: `x` and everything derived from it -/
def doneWith (d : Derive) (x : Nat) : List Nat := closure d d.length [x]

/-- the contexts that are done once the cancel function `c` was called -/
def cancelledBy (d : Derive) (c : Nat) : List Nat :=
  closure d d.length ((d.filter fun e => e.2.1 == c).map (·.1))

/-! ### Engine.Run over any number of pools -/

structure PoolSt where
  /-- the pool's goroutines: instances, provider, aggregator, await loop -/
  p : PSt
  /-- what `pool.Run` returned: `none` = still in its select, `some true` = nil, `some false` = an error -/
  ret : Option Bool := none
  /-- the pool's goroutine in `Engine.Run` has offered its result (sent it or dropped it) -/
  sent : Bool := false

inductive EEv
  | pool (j : Nat) (e : PEv)   -- a step of pool j's own goroutines
  | poolRetClosed (j : Nat)    -- pool.Run: `case err, ok := <-awaitErr` with ok = false (channel closed) → return nil
  | poolRetErr (j : Nat)       -- pool.Run returns an error (context done, a task's error, nothing started)
  | poolSend (j : Nat)         -- `runRes <- poolRunResult{ID, err}`
  | poolSuppress (j : Nat)     -- `case <-ctx.Done()`: "Pool run result suppressed"
  | engRecv                    -- the loop takes `case res := <-runRes`
  | engCtxDone                 -- the loop takes `case <-ctx.Done()` → return ctx.Err()
  | engRetNil                  -- the loop condition is false → `return nil`
  deriving Repr

structure ESt where
  /-- `len(e.config.Pools)` -/
  n : Nat
  /-- number of results the loop awaits -/
  awaitN : Nat
  pools : Nat → PoolSt
  /-- `runRes` (capacity 1): (pool, result is nil) -/
  chan : List (Nat × Bool) := []
  /-- ghost: the loop has received pool j's nil result -/
  got : Nat → Bool := fun _ => false
  /-- the loop counter -/
  i : Nat := 0
  /-- what `Engine.Run` returned: `some true` = nil -/
  ret : Option Bool := none

def init (n awaitN toWait : Nat) : ESt :=
  { n := n, awaitN := awaitN, pools := fun _ => { p := Pandora.Model.C06Pool.init toWait } }

def setPool (f : Nat → PoolSt) (j : Nat) (x : PoolSt) : Nat → PoolSt := fun k => if k = j then x else f k
def setGot (f : Nat → Bool) (j : Nat) : Nat → Bool := fun k => if k = j then true else f k

def step (st : ESt) : EEv → ESt
  | .pool j e =>
      { st with pools := setPool st.pools j { st.pools j with p := Pandora.Model.C06Pool.step (st.pools j).p e } }
  | .poolRetClosed j =>
      if (st.pools j).ret = none ∧ (st.pools j).p.waitDone = true then
        { st with pools := setPool st.pools j { st.pools j with ret := some true } }
      else st
  | .poolRetErr j =>
      if (st.pools j).ret = none then { st with pools := setPool st.pools j { st.pools j with ret := some false } }
      else st
  | .poolSend j =>
      match (st.pools j).ret with
      | some ok =>
        if j < st.n ∧ (st.pools j).sent = false ∧ st.chan = [] then
          { st with chan := [(j, ok)], pools := setPool st.pools j { st.pools j with sent := true } }
        else st
      | none => st
  | .poolSuppress j =>
      match (st.pools j).ret with
      | some _ =>
        if (st.pools j).sent = false then { st with pools := setPool st.pools j { st.pools j with sent := true } }
        else st
      | none => st
  | .engRecv =>
      if st.ret = none ∧ st.i < st.awaitN then
        match st.chan with
        | (j, true) :: rest => { st with chan := rest, got := setGot st.got j, i := st.i + 1 }
        | (_, false) :: rest => { st with chan := rest, ret := some false }
        | [] => st
      else st
  | .engCtxDone => if st.ret = none ∧ st.i < st.awaitN then { st with ret := some false } else st
  | .engRetNil => if st.ret = none ∧ ¬ st.i < st.awaitN then { st with ret := some true } else st

def run (st : ESt) : List EEv → ESt
  | [] => st
  | e :: es => run (step st e) es

/-- how many of the pools `0 … n-1` have `got` -/
def countGot : Nat → (Nat → Bool) → Nat
  | 0, _ => 0
  | n + 1, got => countGot n got + (if got n then 1 else 0)

end Pandora.Model.C06Engine
