/-
C06 (viii) — samples that are LENT to the aggregator (`core.BorrowedSample`): the reporter owns a pool of sample
objects, writes the values of a report into a free one, calls `Report`, and gets the object back through `Return()` —
from `dataSinkAggregator.handleSample` (`enc.Encode(sample)`, THEN `coreutil.ReturnSampleIfBorrowed(sample)`) or, when
the queue is full, from `Reporter.dropSample`. The owner may overwrite a returned object at once (that is the point
of the pool). The output must hold, for every accepted report, the values it was made with.

State: what every object holds, which objects are with their owner (`free`), the queue of (object, ghost: the value it
was reported with), the output as (value written, value reported). `early = true` is the variant that hands the
object back BEFORE it encodes it (`earlyReturn`, later `lateEncode`). An event that is not enabled leaves the state
unchanged.
-/
namespace Pandora.Model.C06Borrow

abbrev Obj := Nat
abbrev Val := Nat

inductive Ev
  /-- the owner takes the free object `o`, writes `v` into it and calls `Report`; `accepted = false`: the queue is
  full, `dropSample` returns the object at once -/
  | report (o : Obj) (v : Val) (accepted : Bool)
  /-- `handleSample` on the head of the queue: Encode (reads the object), then Return -/
  | handle
  /-- (variant) Return first … -/
  | earlyReturn
  /-- … Encode later -/
  | lateEncode
  deriving Repr

structure St where
  content : Obj → Val := fun _ => 0
  free : Obj → Bool := fun _ => true
  queue : List (Obj × Val) := []
  pending : Option (Obj × Val) := none
  out : List (Val × Val) := []

def setV (f : Obj → Val) (o : Obj) (v : Val) : Obj → Val := fun x => if x = o then v else f x
def setB (f : Obj → Bool) (o : Obj) (b : Bool) : Obj → Bool := fun x => if x = o then b else f x

def step (early : Bool) (st : St) : Ev → St
  | .report o v acc =>
      if st.free o then
        if acc then
          { st with content := setV st.content o v, free := setB st.free o false, queue := st.queue ++ [(o, v)] }
        else { st with content := setV st.content o v }
      else st
  | .handle =>
      if early then st else
      match st.queue with
      | [] => st
      | (o, v) :: rest =>
        { st with queue := rest, out := st.out ++ [(st.content o, v)], free := setB st.free o true }
  | .earlyReturn =>
      if !early || st.pending.isSome then st else
      match st.queue with
      | [] => st
      | (o, v) :: rest => { st with queue := rest, pending := some (o, v), free := setB st.free o true }
  | .lateEncode =>
      match st.pending with
      | some (o, v) => { st with pending := none, out := st.out ++ [(st.content o, v)] }
      | none => st

def run (early : Bool) (st : St) : List Ev → St
  | [] => st
  | e :: es => run early (step early st e) es

end Pandora.Model.C06Borrow
