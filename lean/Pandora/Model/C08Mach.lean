/-
C08 — the provider loops as small-step machines, and the provider together with its ammo channel, any number of
consumers and a context that may be cancelled at any moment as a transition system.

`Model.C08` describes each `Provider.Run` as a function (consumers always ready, cancellation as a function of the
number of acquisitions).  Here ONE ITERATION of each loop is a function `step`, and everything that depends on the
other goroutines is left to a scheduler:

  Act.ret r        the iteration ends `Run` with result `r` (`defer close(sink)` runs)
  Act.offer i s    the iteration reaches  `select { case sink <- file[i]: …continue in s ; case <-ctx.Done(): return doneRes }`
  Act.tau s        the iteration ends without a send (end-of-file wrap, LoadAmmo)

`step c s`: `c` is what `ctx.Err() != nil` reads in this iteration.  Loops that read it several times per iteration
(runFullScan at the loop top, uri/uripost/raw `Scan` inside) are covered by one read: context cancellation is
monotone, and "false at the top, true inside Scan" has the outcome of `c = true` (Canceled) unless the iteration
returns before calling `Scan`, which is the outcome of `c = false` followed by the cancellation.

Go sites (the same as Model.C08; loop bodies are also regenerated from the source into `Pandora.Gen.ProvLoops` and
compared with these definitions in `Pandora.Bridge.ProvLoops`):

  provider/provider.go runFullScan            `streamStep`
  provider/provider.go Run (preload) + loadAmmo + runPreloaded      `PSt.unloaded`, `replayStep`
  scenario/provider.go Run                    `replayStep` (the deferred sentinel mapping applied)
  grpcjson/provider.go start                  `grpcStep`
  core/provider/decoder.go Run + ioutil2.MultiPassReader            `genStep`
-/
import Pandora.Model.C08
import Pandora.Model.C08Chan

namespace Pandora.Model.C08

inductive Act (σ : Type) where
  | ret (r : RunRes)
  | offer (i : Nat) (s : σ)
  | tau (s : σ)
  deriving Repr

/-- loop state of every kind of provider -/
inductive PSt where
  | stream (d : Dec) (ammoNum : Nat)       -- runFullScan over uri / uripost / raw / json-lines decoder
  | arr (d : ArrDec) (ammoNum : Nat)       -- runFullScan over the json-array decoder
  | unloaded                               -- preload: before LoadAmmo
  | replay (ammos : List Nat) (k : Nat)    -- runPreloaded / scenario Run: ammoNum = k
  | grpc (s : GrpcSt)
  | gen (ammoNum : Nat) (r : Mpr) (passStart : Nat)   -- passStart: variable of the progress closure of DecodeProvider.Run
  deriving Repr, DecidableEq

/-- `runFullScan`, one iteration, over a decoder `scan` (constructed with Limit = 0) with pass counter `passNum`;
`k` = its `ammoNum` (delivered ammo). -/
def streamStep {σ : Type} (scan : σ → ScanRes × σ) (passNum : σ → Nat) (limit : Nat) (c : Bool) (d : σ) (k : Nat) :
    Act (σ × Nat) :=
  if c then .ret .canceled
  else if limit ≠ 0 ∧ limit ≤ k then .ret .nil
  else if k = 0 ∧ 0 < passNum d then .ret .errNoAmmo
  else match scan d with
    | (.ammo i, d') => .offer i (d', k + 1)
    | (.errPass, _) => .ret (if k = 0 then .errNoAmmo else .nil)
    | (.errLimit, _) => .ret .nil
    | (.errNoAmmo, _) => .ret .errNoAmmo
    | (.unexpected, _) => .ret .errOther

/-- `runPreloaded` / scenario `Run`, one iteration, with the mapping `Provider.Run` applies to the sentinels -/
def replayStep (b : Bounds) (c : Bool) (ammos : List Nat) (k : Nat) : Act (List Nat × Nat) :=
  if c then .ret .canceled
  else if b.passes ≠ 0 ∧ b.passes ≤ k / ammos.length then .ret (mapSentinel .errPasses)
  else if b.limit ≠ 0 ∧ b.limit ≤ k then .ret (mapSentinel .errLimit)
  else match ammos[k % ammos.length]? with
    | some a => .offer a (ammos, k + 1)
    | none => .ret .errOther

/-- `grpcjson.Provider.start`, one evaluation of the inner loop condition (no filter) -/
def grpcStep (b : Bounds) (n : Nat) (s : GrpcSt) : Act GrpcSt :=
  if s.pos < n ∧ (b.limit = 0 ∨ s.ammoNum < b.limit) then
    .offer s.pos { s with pos := s.pos + 1, ammoNum := s.ammoNum + 1 }
  else if b.limit ≠ 0 ∧ b.limit ≤ s.ammoNum then .ret .nil
  else if b.passes ≠ 0 ∧ b.passes ≤ s.passNum then .ret .nil
  else if s.ammoNum = 0 then .ret .errOther            -- 92ad194: a whole pass produced nothing
  else .tau { s with passNum := s.passNum + 1, pos := 0 }

/-- `decoder.Decode` on top of `MultiPassReader.Read` as it is since 9d5241f: at the end of the source the reader
counts a pass; a pass that gave nothing (no byte read: `n = 0`; or the progress function set by `DecodeProvider.Run`
— "has an ammo been decoded since the end of the previous pass", `ammoNum > passStart`, which also sets
`passStart := ammoNum` — says no) hands the EOF on; otherwise the reader seeks to the start (jsoniter reads again) while
passes are left.  `passes = 1` ⇒ `NewMultiPassReader` returns the source itself. -/
def decodeNextNow (passes n ammoNum : Nat) : Nat → Mpr → Nat → DecodeRes × Mpr × Nat
  | 0, r, ps => (.spin, r, ps)
  | fuel + 1, r, ps =>
    if r.pos < n then (.entry r.pos, { r with pos := r.pos + 1 }, ps)
    else if passes = 1 then (.eof, r, ps)
    else
      let c := r.passesCount + 1
      if n = 0 ∨ ¬ (ammoNum > ps) then (.eof, { r with passesCount := c }, ammoNum)
      else if passes = 0 ∨ c < passes then decodeNextNow passes n ammoNum fuel { pos := 0, passesCount := c } ammoNum
      else (.eof, { r with passesCount := c }, ammoNum)

/-- `DecodeProvider.Run`, one iteration -/
def genStep (b : Bounds) (n : Nat) (ammoNum : Nat) (r : Mpr) (ps : Nat) : Act (Nat × Mpr × Nat) :=
  if ¬ (b.limit = 0 ∨ ammoNum < b.limit) then .ret .nil
  else match decodeNextNow b.passes n ammoNum 2 r ps with
    | (.eof, _, _) => .ret .nil
    | (.spin, _, _) => .tau (ammoNum, r, ps)
    | (.entry i, r', ps') => .offer i (ammoNum + 1, r', ps')

def Dec.passNumOf (d : Dec) : Nat := d.passNum
def ArrDec.passNumOf (d : ArrDec) : Nat := d.passNum

def liftAct {σ τ : Type} (f : σ → τ) : Act σ → Act τ
  | .ret r => .ret r
  | .offer i s => .offer i (f s)
  | .tau s => .tau (f s)

def initSt (inp : Input) (n : Nat) : PSt :=
  match inp.kind with
  | .uri | .uripost | .raw | .jsonLines => if inp.preload then .unloaded else .stream Dec.init 0
  | .jsonArray => if inp.preload then .unloaded else .arr ArrDec.init 0
  | .grpcJson => .grpc GrpcSt.init
  | .httpScenario | .grpcScenario => .replay (List.range n) 0
  | .genericJson => .gen 0 Mpr.init 0

def styleOf : Kind → Style
  | .jsonLines => .topCheck
  | _ => .eofCheck

/-- `protoDecoder.LoadAmmo` of the kind's decoder over the file 0..n-1 -/
def loadOf (k : Kind) (n : Nat) : Option (Except RunRes (List Nat)) :=
  match k with
  | .jsonArray => loadAmmo (fun b => scanArr b n) (List.range n) (n + 2) ArrDec.init []
  | _ => loadAmmo (fun b => scanStream (styleOf k) b n) (List.range n) (n + 2) Dec.init []

/-- one iteration of `Provider.Run` of `inp.kind` over the file 0..n-1 -/
def stepOf (inp : Input) (n : Nat) (c : Bool) : PSt → Act PSt
  | .stream d k =>
    liftAct (fun p => .stream p.1 p.2) (streamStep (scanStream (styleOf inp.kind) ⟨0, inp.b.passes⟩ n) Dec.passNumOf inp.b.limit c d k)
  | .arr d k =>
    liftAct (fun p => .arr p.1 p.2) (streamStep (scanArr ⟨0, inp.b.passes⟩ n) ArrDec.passNumOf inp.b.limit c d k)
  | .unloaded =>
    -- uri / uripost / raw `Scan` reads ctx.Err(): LoadAmmo fails with it ("cant LoadAmmo, err: context canceled")
    if c ∧ (inp.kind = .uri ∨ inp.kind = .uripost ∨ inp.kind = .raw) then .ret .canceled
    else match loadOf inp.kind n with
      | some (.ok ammos) => if ammos.length = 0 then .ret .errNoAmmo else .tau (.replay ammos 0)
      | some (.error e) => .ret e
      | none => .ret .errOther
  | .replay ammos k => liftAct (fun p => .replay p.1 p.2) (replayStep inp.b c ammos k)
  | .grpc s => liftAct .grpc (grpcStep inp.b n s)
  | .gen a r ps => liftAct (fun p => .gen p.1 p.2.1 p.2.2) (genStep inp.b n a r ps)

/-- what the `case <-ctx.Done()` branch of the send `select` returns -/
def doneResOf (k : Kind) : RunRes := if k.answersCanceled then .canceled else .nil

/-! ## provider + channel + consumers + context -/

structure Sys where
  ps : PSt                               -- loop state of `Run`
  offering : Option (Nat × PSt) := none  -- `Run` is in the send `select` with this ammo / this next state
  result : Option RunRes := none         -- `Run` has returned
  buf : List Nat := []                   -- channel buffer
  closed : Bool := false                 -- close(sink)
  cancelled : Bool := false              -- ctx
  log : List (Nat × Nat) := []           -- (consumer, ammo) in the order of the receives
  ended : List Nat := []                 -- consumers whose Acquire returned ok=false
  deriving Repr

inductive Label where
  | prod              -- `Run` executes one loop iteration
  | push              -- the select sends into the channel buffer
  | hand (c : Nat)    -- the select sends directly to consumer `c`, waiting in Acquire (buffer empty)
  | done              -- the select takes `<-ctx.Done()`
  | recv (c : Nat)    -- consumer `c` receives from the buffer
  | eoa (c : Nat)     -- consumer `c` receives from the closed, drained channel: ok=false
  | cancel            -- somebody cancels the context
  deriving Repr, DecidableEq

/-- the transition of label `l`, `none` if it is not enabled.  `cap` = channel capacity, `cons` = number of consumers. -/
def Sys.next (inp : Input) (n cap cons : Nat) (s : Sys) : Label → Option Sys
  | .prod =>
    if s.result.isSome ∨ s.offering.isSome then none else
    match stepOf inp n s.cancelled s.ps with
    | .ret r => some { s with result := some r, closed := true }
    | .offer i ps' => some { s with offering := some (i, ps') }
    | .tau ps' => some { s with ps := ps' }
  | .push =>
    match s.offering with
    | some (i, ps') => if s.result.isNone ∧ s.buf.length < cap then some { s with ps := ps', offering := none, buf := s.buf ++ [i] } else none
    | none => none
  | .hand c =>
    match s.offering with
    | some (i, ps') =>
      if s.result.isNone ∧ s.buf = [] ∧ c < cons ∧ c ∉ s.ended then some { s with ps := ps', offering := none, log := s.log ++ [(c, i)] } else none
    | none => none
  | .done =>
    if s.result.isNone ∧ s.offering.isSome ∧ s.cancelled then
      some { s with offering := none, result := some (doneResOf inp.kind), closed := true }
    else none
  | .recv c =>
    match s.buf with
    | i :: rest => if c < cons ∧ c ∉ s.ended then some { s with buf := rest, log := s.log ++ [(c, i)] } else none
    | [] => none
  | .eoa c =>
    if s.closed ∧ s.buf = [] ∧ c < cons ∧ c ∉ s.ended then some { s with ended := c :: s.ended } else none
  | .cancel => some { s with cancelled := true }

def Sys.init (inp : Input) (n : Nat) : Sys := { ps := initSt inp n }

/-- a schedule is any list of labels; a label that is not enabled is skipped -/
def Sys.run (inp : Input) (n cap cons : Nat) (s : Sys) (ls : List Label) : Sys :=
  ls.foldl (fun s l => (s.next inp n cap cons l).getD s) s

def reach (inp : Input) (n cons : Nat) (ls : List Label) : Sys :=
  (Sys.init inp n).run inp n inp.kind.chanCap cons ls

/-- the schedule of the harness' mode drain, as a function: ONE consumer that is always ready (every offer is handed
over at once), the context cancelled as soon as `inp.cancelAt` ammo have been acquired, the select taking the Done
branch when the context is cancelled.  `Drv.C08` runs it next to `Model.C08.run` on every drain cell: the two models
must predict the same observation (and that prediction must be what the real provider did). -/
def driveSeq (inp : Input) (n : Nat) : Nat → Sys → Sys
  | 0, s => s
  | fuel + 1, s =>
    if s.result.isSome then s else
    let s := if cancelled inp.cancelAt s.log.length then { s with cancelled := true } else s
    match s.offering with
    | some _ =>
      if s.cancelled then driveSeq inp n fuel ((s.next inp n inp.kind.chanCap 1 .done).getD s)
      else driveSeq inp n fuel ((s.next inp n inp.kind.chanCap 1 (.hand 0)).getD s)
    | none => driveSeq inp n fuel ((s.next inp n inp.kind.chanCap 1 .prod).getD s)

/-- the machine's outcome of a drain cell in the vocabulary of `Model.C08.run` (`none`: not finished within the fuel) -/
def runMach (inp : Input) (n : Nat) : Option (Outcome Nat) :=
  match target inp.b.limit inp.b.passes n inp.cancelAt with
  | none => none
  | some t =>
    let s := driveSeq inp n (3 * t + 8) (Sys.init inp n)
    match s.result with
    | some r => some ⟨s.log.map (·.2), r, s.closed⟩
    | none => none

/-- ammo sent so far -/
def Sys.sent (s : Sys) : Nat := s.log.length + s.buf.length

/-- what consumers acquired, in order -/
def Sys.acquired (s : Sys) : List Nat := s.log.map (·.2)

end Pandora.Model.C08
