/-
C02 — schedules with HUGE token counts (2^31, 2^32, 2^40, … tokens in one part).

The model of `Model/C02Sched.lean` carries the offsets of a finite leaf as a list; a leaf of 2^32 tokens cannot be
written down that way.  Here the offsets are RUN-LENGTH ENCODED: a `Run` is an arithmetic progression
`first, first+step, …` of `count` offsets (what once — step 0 — and const with a whole number of nanoseconds per
operation hand out).  `HLeaf` is the leaf over runs (`runsAt` instead of `offs[i]?`, `runsLen` instead of
`offs.length`); the composite is the SAME generic `compOps` / `newComposite` of `Model/C02Sched.lean` (it never looks
inside its children), iterated over `HLvl d`.  `Proofs/C02Huge.lean` shows that all of this is the list model on the
expanded offsets (`runsExpand`), so every theorem about trees holds for trees of any token count.

`wrapInt`, the two's-complement reading of an integer in a machine word, lives in `Model/C02Ns.lean` (the regenerated
definitions use it).
-/
import Pandora.Model.C02Sched

namespace Pandora.Model.C02

/-- `count` offsets `first, first + step, first + 2·step, …` -/
structure Run where
  first : Int
  step : Int
  count : Nat
deriving Repr, DecidableEq

def Run.nth (r : Run) (k : Nat) : Int := r.first + r.step * (k : Int)

def runsLen : List Run → Nat
  | [] => 0
  | r :: rs => r.count + runsLen rs

/-- the k-th offset of the encoded list -/
def runsAt : List Run → Nat → Option Int
  | [], _ => none
  | r :: rs, k => if k < r.count then some (r.nth k) else runsAt rs (k - r.count)

/-- the list the runs stand for (never evaluated on huge runs: it is what the theorems talk about) -/
def runsExpand : List Run → List Int
  | [] => []
  | r :: rs => (List.range r.count).map r.nth ++ runsExpand rs

inductive HLeaf where
  | fin (runs : List Run) (dur : Int) (i : Nat) (start : Option Int)
  | unl (dur : Int) (finish : Option Int)
deriving Repr, DecidableEq

def HLeaf.start : HLeaf → Int → Except String HLeaf
  | .fin runs dur i none, t => .ok (.fin runs dur i (some t))
  | .fin _ _ _ (some _), _ => .error alreadyStarted
  | .unl dur none, t => .ok (.unl dur (some (t + dur)))
  | .unl _ (some _), _ => .error alreadyStarted

def HLeaf.next : HLeaf → Int → NextR HLeaf
  | .fin runs dur i st, now =>
      let s := st.getD now
      let st' := HLeaf.fin runs dur (i + 1) (some s)
      match runsAt runs i with
      | some o => .ok (st', s + o, true)
      | none => .ok (st', s + dur, false)
  | .unl dur fi, now =>
      let f := fi.getD (now + dur)
      if now < f then .ok (.unl dur (some f), max now (f - dur), true) else .ok (.unl dur (some f), f, false)

def HLeaf.left : HLeaf → Int → LeftR HLeaf
  | .fin runs dur i st, _ => .ok (.fin runs dur i st, ((runsLen runs - i : Nat) : Int))
  | .unl dur none, _ => .ok (.unl dur none, -1)
  | .unl dur (some f), now => .ok (.unl dur (some f), if now < f then -1 else 0)

def hleafOps : Ops HLeaf := ⟨HLeaf.start, HLeaf.next, HLeaf.left, .fin [] 0 0 none⟩

/-- the list leaf a run leaf stands for -/
def HLeaf.expand : HLeaf → Leaf
  | .fin runs dur i st => .fin (runsExpand runs) dur i st
  | .unl dur fi => .unl dur fi

def HLvl : Nat → Type
  | 0 => HLeaf
  | d + 1 => HLvl d ⊕ Comp (HLvl d)

def hlvlOps : (d : Nat) → Ops (HLvl d)
  | 0 => hleafOps
  | d + 1 => sumOps (hlvlOps d) (compOps (hlvlOps d))

inductive HTree where
  | fin (runs : List Run) (dur : Int)
  | unl (dur : Int)
  | comp (cs : List HTree)

mutual
def HTree.depth : HTree → Nat
  | .fin _ _ => 0
  | .unl _ => 0
  | .comp cs => hdepthList cs + 1
def hdepthList : List HTree → Nat
  | [] => 0
  | t :: ts => max t.depth (hdepthList ts)
end

mutual
/-- the list tree a run tree stands for -/
def HTree.expand : HTree → Tree
  | .fin runs dur => .fin (runsExpand runs) dur
  | .unl dur => .unl dur
  | .comp cs => .comp (hexpandList cs)
def hexpandList : List HTree → List Tree
  | [] => []
  | t :: ts => t.expand :: hexpandList ts
end

mutual
def hbuild (now : Int) : (d : Nat) → HTree → Except String (HLvl d)
  | 0, .fin runs dur => pure (HLeaf.fin runs dur 0 none)
  | 0, .unl dur => pure (HLeaf.unl dur none)
  | 0, .comp _ => throw "depth"
  | d + 1, .comp cs => do
      let kids ← hbuildList now d cs
      newComposite (hlvlOps d) now kids
  | d + 1, t => do
      let x ← hbuild now d t
      pure (.inl x)
def hbuildList (now : Int) : (d : Nat) → List HTree → Except String (List (HLvl d))
  | _, [] => pure []
  | d, t :: ts => do
      let x ← hbuild now d t
      let xs ← hbuildList now d ts
      pure (x :: xs)
end

/-- `instanceStepLoop` / `instanceStepTree` with `once(n)` written as one run of n offsets 0 -/
def hinstanceStepLoop (to step : Nat) (dur : Int) : Nat → Nat → List HTree
  | 0, _ => []
  | fuel + 1, i =>
    if i ≤ to then HTree.fin [] dur :: HTree.fin [⟨0, 0, step⟩] 0 :: hinstanceStepLoop to step dur fuel (i + step)
    else []

def hinstanceStepTree (frm to step : Nat) (dur : Int) : HTree :=
  HTree.comp (HTree.fin [⟨0, 0, frm⟩] 0 :: hinstanceStepLoop to step dur (to + 1) (frm + step))

end Pandora.Model.C02
