/-
C07 — `BuildRequest` at reference level: what a built `*http.Request` shares with the decoded entry it was built from.

The value model (`buildReq`, C07Base) says WHAT request an entry denotes.  The same decoded entry is built from more than
once (preload, the http/json array: every pass hands out the same `*ammo.Ammo`; concurrent consumers), and the consumer of a
request owns it: `components/guns/http` `BaseGun.Shoot` writes `req.URL.Scheme`, `req.URL.Host` (the resolved target) and
`req.Host` when it is empty, the client consumes the body, middlewares set / add / delete headers.  Whether the NEXT request
built from the entry is still the one written in the file depends on which objects the request shares with the entry:

* `req.URL`: `http.NewRequest(method, urlString, body)` parses the string into a NEW `url.URL` at every build
  (`UrlOrigin.fresh`); an entry that caches the parsed `*url.URL` and puts it into the request (`UrlOrigin.alias`, seeded
  change C07-r6-1) hands the gun its own URL;
* `req.Header`: a new map per request (`http.NewRequest`), filled by `util.EnrichRequestWithHeaders` with
  `req.Header[key] = values` — the VALUE SLICES are shared with the entry's header map; map-level operations on the request
  (`Set` / `Del` replace or remove the map entry, `Add` appends to a slice whose capacity equals its length, i.e. into a new
  array) never write them, only an in-place element write `req.Header[k][i] = v` does (no gun, middleware or net/http
  function does that; kept as `BMut.elemWrite`, outside `gunClass`);
* the body: a new `bytes.Reader` over the entry's bytes per build (readers copy out; the bytes are never written).

Heap: a list of cells, address = index.  The entry's cells lie below a watermark; `bBuild` allocates at the end.
-/
import Pandora.Model.C07Base

namespace Pandora.Model.C07

/-- where `BuildRequest` takes the request's `*url.URL` from (the vocabulary of the regenerated fact
`Pandora.Gen.AmmoDec.ammoBuildUrlOrigin`) -/
inductive UrlOrigin where
  | fresh                 -- a URL object made during this build (`http.NewRequest` / `http.ReadRequest` parse, or a copy)
  | alias                 -- a `*url.URL` the entry (or anything else that outlives the build) keeps
  | other (what : String)
deriving DecidableEq, Repr

inductive BCell where
  | url (scheme host path : Bytes)        -- a `url.URL`
  | hmap (m : List (Bytes × Nat))         -- an `http.Header`: canonical key ↦ address of its value slice
  | slice (vs : List Bytes)               -- a `[]string`
deriving DecidableEq, Repr

abbrev BHeap := List BCell

/-- a decoded entry (`ammo.Ammo` after `Setup`) -/
structure BEntry where
  method : Bytes
  urlVal : Bytes × Bytes × Bytes     -- what `url.Parse` makes of the entry's URL string (scheme, host, path+query): a value
  urlRef : Nat                       -- the `*url.URL` a caching entry keeps (only read with `UrlOrigin.alias`)
  hdr : Nat                          -- address of the entry's header map
  body : Bytes
deriving Repr

/-- a built `*http.Request` -/
structure BReq where
  method : Bytes
  url : Nat            -- `req.URL`
  host : Bytes         -- `req.Host`
  hdr : Nat            -- `req.Header`
  body : Bytes         -- what the body reader will yield
deriving Repr

/-- what the gun sees of a request -/
structure BObs where
  method : Bytes
  scheme : Bytes
  urlHost : Bytes
  path : Bytes
  host : Bytes
  hdrs : List (Bytes × List Bytes)
  body : Bytes
deriving DecidableEq, Repr

/-- the value lists of a header map; `none` when an address does not hold a slice -/
def bSlices (h : BHeap) : List (Bytes × Nat) → Option (List (Bytes × List Bytes))
  | [] => some []
  | (k, a) :: r =>
    match h[a]? with
    | some (.slice vs) => (bSlices h r).map ((k, vs) :: ·)
    | _ => none

def bObs (r : BReq) (h : BHeap) : Option BObs :=
  match h[r.url]?, h[r.hdr]? with
  | some (.url s ho p), some (.hmap m) =>
    (bSlices h m).map fun hs => { method := r.method, scheme := s, urlHost := ho, path := p, host := r.host, hdrs := hs, body := r.body }
  | _, _ => none

/-- first value of the entry's `Host` header (`EnrichRequestWithHeaders`: `req.Host = values[0]` when `req.Host` is empty) -/
def bHostHdr (h : BHeap) (m : List (Bytes × Nat)) : Bytes :=
  match m.find? (fun kv => kv.1 == hostKey) with
  | some (_, a) =>
    match h[a]? with
    | some (.slice (v :: _)) => v
    | _ => []
  | none => []

/-- `Ammo.BuildRequest`: `http.NewRequest` (new URL — or the entry's —, new header map, `req.Host = u.Host`) +
`EnrichRequestWithHeaders` (every key but `Host`: `req.Header[key] = values`, the entry's slice) -/
def bBuild (o : UrlOrigin) (e : BEntry) (h : BHeap) : BReq × BHeap :=
  let m := match h[e.hdr]? with | some (.hmap m) => m | _ => []
  let (u, h1) := match o with
    | .alias => (e.urlRef, h)
    | _ => (h.length, h ++ [BCell.url e.urlVal.1 e.urlVal.2.1 e.urlVal.2.2])
  let uhost := match h1[u]? with | some (.url _ ho _) => ho | _ => []
  let host := if uhost.isEmpty then bHostHdr h m else uhost
  ({ method := e.method, url := u, host := host, hdr := h1.length, body := e.body },
   h1 ++ [BCell.hmap (m.filter fun kv => kv.1 != hostKey)])

/-- what the owner of a request may do to it -/
inductive BMut where
  | setScheme (v : Bytes)          -- req.URL.Scheme = v          (BaseGun.Shoot)
  | setUrlHost (v : Bytes)         -- req.URL.Host = v            (BaseGun.Shoot: the resolved target)
  | setPath (v : Bytes)            -- req.URL.Path / RawQuery = …  (a rewriting middleware)
  | setHost (v : Bytes)            -- req.Host = v                (BaseGun.Shoot when it is empty)
  | setMethod (v : Bytes)
  | setBody (v : Bytes)            -- req.Body = …                (consumed / replaced: answlog, the client)
  | hdrSet (k v : Bytes)           -- req.Header.Set(k, v)        (a new one-element slice)
  | hdrAdd (k v : Bytes)           -- req.Header.Add(k, v)        (append: capacity = length, so a new array)
  | hdrDel (k : Bytes)             -- req.Header.Del(k)
  | elemWrite (k : Bytes) (i : Nat) (v : Bytes)    -- req.Header[k][i] = v   in place: NOT something a gun does
deriving DecidableEq, Repr

/-- field- and map-level operations: everything but the in-place write of a slice element -/
def gunClass : BMut → Bool
  | .elemWrite _ _ _ => false
  | _ => true

def mapPut (m : List (Bytes × Nat)) (k : Bytes) (a : Nat) : List (Bytes × Nat) :=
  if m.any (fun kv => kv.1 == k) then m.map (fun kv => if kv.1 == k then (k, a) else kv) else m ++ [(k, a)]

def mapGet (m : List (Bytes × Nat)) (k : Bytes) : Option Nat := (m.find? (fun kv => kv.1 == k)).map (·.2)

def bMut (r : BReq) (h : BHeap) : BMut → BReq × BHeap
  | .setScheme v =>
    match h[r.url]? with
    | some (.url _ ho p) => (r, h.set r.url (BCell.url v ho p))
    | _ => (r, h)
  | .setUrlHost v =>
    match h[r.url]? with
    | some (.url s _ p) => (r, h.set r.url (BCell.url s v p))
    | _ => (r, h)
  | .setPath v =>
    match h[r.url]? with
    | some (.url s ho _) => (r, h.set r.url (BCell.url s ho v))
    | _ => (r, h)
  | .setHost v => ({ r with host := v }, h)
  | .setMethod v => ({ r with method := v }, h)
  | .setBody v => ({ r with body := v }, h)
  | .hdrSet k v =>
    match h[r.hdr]? with
    | some (.hmap m) => (r, (h ++ [BCell.slice [v]]).set r.hdr (BCell.hmap (mapPut m k h.length)))
    | _ => (r, h)
  | .hdrAdd k v =>
    match h[r.hdr]? with
    | some (.hmap m) =>
      let old := match (mapGet m k).bind (h[·]?) with | some (.slice vs) => vs | _ => []
      (r, (h ++ [BCell.slice (old ++ [v])]).set r.hdr (BCell.hmap (mapPut m k h.length)))
    | _ => (r, h)
  | .hdrDel k =>
    match h[r.hdr]? with
    | some (.hmap m) => (r, h.set r.hdr (BCell.hmap (m.filter fun kv => kv.1 != k)))
    | _ => (r, h)
  | .elemWrite k i v =>
    match h[r.hdr]? with
    | some (.hmap m) =>
      match mapGet m k with
      | some a =>
        match h[a]? with
        | some (.slice vs) => (r, h.set a (BCell.slice (vs.set i v)))
        | _ => (r, h)
      | none => (r, h)
    | _ => (r, h)

def bMuts (r : BReq) (h : BHeap) : List BMut → BReq × BHeap
  | [] => (r, h)
  | m :: ms => let p := bMut r h m; bMuts p.1 p.2 ms

/-- the history of one decoded entry: it is built from, the request is observed (sent), then its owner does `ms` to it;
then the same entry is built from again … (one round per delivery of the entry) -/
def bRounds (o : UrlOrigin) (e : BEntry) (h : BHeap) : List (List BMut) → List (Option BObs)
  | [] => []
  | ms :: rest =>
    let p := bBuild o e h
    bObs p.1 p.2 :: bRounds o e (bMuts p.1 p.2 ms).2 rest

/-- the entry is a well-formed object of the heap: its header map and every value slice exist (and, for a caching entry,
its URL object holds the parsed URL) -/
def entryOK (o : UrlOrigin) (e : BEntry) (h : BHeap) : Prop :=
  ∃ m, h[e.hdr]? = some (.hmap m) ∧ (bSlices h m).isSome ∧
    (o = .alias → h[e.urlRef]? = some (.url e.urlVal.1 e.urlVal.2.1 e.urlVal.2.2))

/-- what every request built from the entry must look like: a function of the entry's VALUE (the file), Spec level -/
def bExpect (e : BEntry) (h : BHeap) : Option BObs :=
  match h[e.hdr]? with
  | some (.hmap m) =>
    (bSlices h (m.filter fun kv => kv.1 != hostKey)).map fun hs =>
      { method := e.method, scheme := e.urlVal.1, urlHost := e.urlVal.2.1, path := e.urlVal.2.2
        host := if e.urlVal.2.1.isEmpty then bHostHdr h m else e.urlVal.2.1
        hdrs := hs, body := e.body }
  | _ => none

end Pandora.Model.C07
