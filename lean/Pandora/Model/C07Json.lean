import Pandora.Model.C07

/-!
Round 4 — a reader of the JSON TEXT of an http/json ammo file (core Lean only, executable).

Until now the http/json model started after `encoding/json` (the harness handed over the entities it had rendered).
`jsonDoc` reads the file bytes itself: JSON white space, objects, strings with all escapes of the grammar
(`\" \\ \/ \b \f \n \r \t \uXXXX` of the basic plane), `null`, unknown fields with arbitrary nested values, the `headers`
object, one object after the other (one per line / pretty-printed / packed) or ONE array of objects.

The class it reads (anything else is `none` = outside the model, differential-skipped):
* the file is valid UTF-8 (`encoding/json` replaces invalid bytes inside strings by U+FFFD);
* every top-level value (array element) is an object; the known fields `host method uri headers tag body` are spelled in
  lower case and occur at most once (`encoding/json` matches field names case-insensitively and lets the last one win);
  a key that differs from a known name only by letter case is outside the class;
* values of the five string fields are strings or `null`; `headers` is an object of string values or `null`;
* `\u` escapes of surrogate halves are outside the class; the values of unknown fields are skipped by bracket matching
  (they are assumed to be well-formed JSON — `encoding/json` would refuse the file otherwise).
-/
namespace Pandora.Model.C07

def isJWs (b : UInt8) : Bool := b == 32 || b == 9 || b == 10 || b == 13

def skipWs : Bytes → Bytes
  | [] => []
  | b :: r => if isJWs b then skipWs r else b :: r

def hexVal (b : UInt8) : Option Nat :=
  if 48 ≤ b && b ≤ 57 then some (b.toNat - 48)
  else if 97 ≤ b && b ≤ 102 then some (b.toNat - 87)
  else if 65 ≤ b && b ≤ 70 then some (b.toNat - 55)
  else none

/-- UTF-8 of a code point of the basic plane -/
def utf8Enc (c : Nat) : Bytes :=
  if c < 128 then [UInt8.ofNat c]
  else if c < 2048 then [UInt8.ofNat (192 + c / 64), UInt8.ofNat (128 + c % 64)]
  else [UInt8.ofNat (224 + c / 4096), UInt8.ofNat (128 + (c / 64) % 64), UInt8.ofNat (128 + c % 64)]

def simpleEsc (e : UInt8) : Option UInt8 :=
  if e == 34 then some 34 else if e == 92 then some 92 else if e == 47 then some 47
  else if e == 98 then some 8 else if e == 102 then some 12 else if e == 110 then some 10
  else if e == 114 then some 13 else if e == 116 then some 9 else none

/-- the bytes of a JSON string, the input starting AFTER the opening quote; returns the rest after the closing quote -/
def readStr : Bytes → Option (Bytes × Bytes)
  | [] => none
  | b :: r =>
    if b == 34 then some ([], r)
    else if b == 92 then
      match r with
      | [] => none
      | e :: r2 =>
        if e == 117 then
          match r2 with
          | a :: b' :: c :: d :: r3 =>
            match hexVal a, hexVal b', hexVal c, hexVal d with
            | some x1, some x2, some x3, some x4 =>
              let cp := ((x1 * 16 + x2) * 16 + x3) * 16 + x4
              if 55296 ≤ cp && cp < 57344 then none
              else (readStr r3).map fun p => (utf8Enc cp ++ p.1, p.2)
            | _, _, _, _ => none
          | _ => none
        else
          match simpleEsc e with
          | some x => (readStr r2).map fun p => (x :: p.1, p.2)
          | none => none
    else if b < 32 then none
    else (readStr r).map fun p => (b :: p.1, p.2)

/-- skips the rest of a nested value: `depth` open brackets, inside a string or not -/
def skipNest : Nat → Bool → Bool → Bytes → Option Bytes
  | _, _, _, [] => none
  | depth, true, true, _ :: r => skipNest depth true false r
  | depth, true, false, b :: r =>
    if b == 92 then skipNest depth true true r
    else if b == 34 then skipNest depth false false r
    else skipNest depth true false r
  | depth, false, _, b :: r =>
    if b == 34 then skipNest depth true false r
    else if b == 123 || b == 91 then skipNest (depth + 1) false false r
    else if b == 125 || b == 93 then (if depth ≤ 1 then some r else skipNest (depth - 1) false false r)
    else skipNest depth false false r

def isScalarEnd (b : UInt8) : Bool := b == 44 || b == 125 || b == 93 || isJWs b

def skipScalar : Bytes → Bytes
  | [] => []
  | b :: r => if isScalarEnd b then b :: r else skipScalar r

/-- skips one JSON value (the input starts at its first byte) -/
def skipVal : Bytes → Option Bytes
  | [] => none
  | b :: r =>
    if b == 34 then (readStr r).map (·.2)
    else if b == 123 || b == 91 then skipNest 1 false false r
    else if isScalarEnd b then none
    else some (skipScalar r)

def nullBytes : Bytes := [110, 117, 108, 108]

/-- a string or `null` -/
def readStrVal : Bytes → Option (Option Bytes × Bytes)
  | 34 :: r => (readStr r).map fun p => (some p.1, p.2)
  | 110 :: 117 :: 108 :: 108 :: r => some (none, r)
  | _ => none

/-- the members of the `headers` object, the input starting after `{` -/
def readHdrMembers : Nat → Bytes → Option (List (Bytes × Bytes) × Bytes)
  | 0, _ => none
  | fuel + 1, bs =>
    match skipWs bs with
    | 34 :: r =>
      match readStr r with
      | none => none
      | some (key, r1) =>
        match skipWs r1 with
        | 58 :: r2 =>
          match skipWs r2 with
          | 34 :: r3 =>
            match readStr r3 with
            | none => none
            | some (val, r4) =>
              match skipWs r4 with
              | 44 :: r5 => (readHdrMembers fuel r5).map fun p => ((key, val) :: p.1, p.2)
              | 125 :: r5 => some ([(key, val)], r5)
              | _ => none
          | _ => none
        | _ => none
    | _ => none

/-- the `headers` value: an object of strings or `null` -/
def readHdrs (fuel : Nat) : Bytes → Option (List (Bytes × Bytes) × Bytes)
  | 110 :: 117 :: 108 :: 108 :: r => some ([], r)
  | 123 :: r =>
    match skipWs r with
    | 125 :: r1 => some ([], r1)
    | _ => readHdrMembers fuel r
  | _ => none

def kHost : Bytes := [104, 111, 115, 116]
def kMethod : Bytes := [109, 101, 116, 104, 111, 100]
def kUri : Bytes := [117, 114, 105]
def kHeaders : Bytes := [104, 101, 97, 100, 101, 114, 115]
def kTag : Bytes := [116, 97, 103]
def kBody : Bytes := [98, 111, 100, 121]
def knownKeys : List Bytes := [kHost, kMethod, kUri, kHeaders, kTag, kBody]

def jLower (b : UInt8) : UInt8 := if 65 ≤ b && b ≤ 90 then b + 32 else b

/-- one member of an entity object: `key` already read, the input at the first byte of the value.
`seen`: the known keys met so far (a second occurrence is outside the class) -/
def fieldStep (fuel : Nat) (key : Bytes) (e : Entity) (seen : List Bytes) (v : Bytes) : Option (Entity × List Bytes × Bytes) :=
  if knownKeys.contains key then
    if seen.contains key then none
    else if key == kHeaders then
      (readHdrs fuel v).map fun p => ({ e with headers := p.1 }, key :: seen, p.2)
    else
      match readStrVal v with
      | none => none
      | some (s, r) =>
        let s := s.getD []
        let e' := if key == kHost then { e with host := s } else if key == kMethod then { e with method := s }
          else if key == kUri then { e with uri := s } else if key == kTag then { e with tag := s } else { e with body := s }
        some (e', key :: seen, r)
  else if knownKeys.contains (key.map jLower) then none
  else (skipVal v).map fun r => (e, seen, r)

/-- the members of an entity object, the input starting after `{` (and not at `}`) -/
def readFields : Nat → Entity → List Bytes → Bytes → Option (Entity × Bytes)
  | 0, _, _, _ => none
  | fuel + 1, e, seen, bs =>
    match skipWs bs with
    | 34 :: r =>
      match readStr r with
      | none => none
      | some (key, r1) =>
        match skipWs r1 with
        | 58 :: r2 =>
          match fieldStep (fuel + 1) key e seen (skipWs r2) with
          | none => none
          | some (e', seen', r3) =>
            match skipWs r3 with
            | 44 :: r4 => readFields fuel e' seen' r4
            | 125 :: r4 => some (e', r4)
            | _ => none
        | _ => none
    | _ => none

def emptyEntity : Entity := { host := [], method := [], uri := [], tag := [], body := [], headers := [] }

/-- one entity object, the input starting after `{` -/
def readObj (fuel : Nat) (bs : Bytes) : Option (Entity × Bytes) :=
  match skipWs bs with
  | 125 :: r => some (emptyEntity, r)
  | _ => readFields fuel emptyEntity [] bs

/-- a stream of objects until the end of the file -/
def readStream : Nat → Nat → Bytes → Option (List Entity)
  | 0, _, _ => none
  | fuel + 1, fo, bs =>
    match skipWs bs with
    | [] => some []
    | 123 :: r =>
      match readObj fo r with
      | none => none
      | some (e, r') => (readStream fuel fo r').map (e :: ·)
    | _ => none

/-- the elements of an array, the input starting at the first element (after `[` and white space) -/
def readElems : Nat → Nat → Bytes → Option (List Entity × Bytes)
  | 0, _, _ => none
  | fuel + 1, fo, bs =>
    match skipWs bs with
    | 123 :: r =>
      match readObj fo r with
      | none => none
      | some (e, r') =>
        match skipWs r' with
        | 44 :: r2 => (readElems fuel fo r2).map fun p => (e :: p.1, p.2)
        | 93 :: r2 => some ([e], r2)
        | _ => none
    | _ => none

/-- valid UTF-8 (the standard table: no overlong forms, no surrogates, at most U+10FFFF) -/
def utf8Valid : Bytes → Bool
  | [] => true
  | b :: r =>
    if b < 128 then utf8Valid r
    else if b < 194 then false
    else if b < 224 then
      match r with
      | c :: r2 => (128 ≤ c && c < 192) && utf8Valid r2
      | _ => false
    else if b < 240 then
      match r with
      | c :: d :: r3 =>
        let lo : UInt8 := if b == 224 then 160 else 128
        let hi : UInt8 := if b == 237 then 160 else 192
        (lo ≤ c && c < hi) && (128 ≤ d && d < 192) && utf8Valid r3
      | _ => false
    else if b < 245 then
      match r with
      | c :: d :: e :: r4 =>
        let lo : UInt8 := if b == 240 then 144 else 128
        let hi : UInt8 := if b == 244 then 144 else 192
        (lo ≤ c && c < hi) && (128 ≤ d && d < 192) && (128 ≤ e && e < 192) && utf8Valid r4
      | _ => false
    else false

/-- the entities of an http/json ammo file and whether the file is ONE array (`jsonlineDecoder`: `isArray`);
`none`: outside the class described above (or not JSON at all) -/
def jsonDoc (file : Bytes) : Option (Bool × List Entity) :=
  if !utf8Valid file then none
  else
    let fuel := file.length + 1
    match skipWs file with
    | 91 :: r =>
      match skipWs r with
      | 93 :: r1 => if (skipWs r1).isEmpty then some (true, []) else none
      | _ =>
        match readElems fuel fuel r with
        | some (es, r1) => if (skipWs r1).isEmpty then some (true, es) else none
        | none => none
    | 123 :: _ => (readStream fuel fuel file).map fun es => (false, es)
    | _ => none

/-! ### how an author writes entities as JSON text (for the round-trip theorems) -/

def hexDigit (n : Nat) : UInt8 := if n < 10 then UInt8.ofNat (48 + n) else UInt8.ofNat (87 + n)

/-- a byte inside a JSON string: `"` and `\` escaped, control bytes as `\u00XX`, everything else as it is -/
def escByte (b : UInt8) : Bytes :=
  if b == 34 then [92, 34] else if b == 92 then [92, 92]
  else if b < 32 then [92, 117, 48, 48, hexDigit (b.toNat / 16), hexDigit (b.toNat % 16)] else [b]

def escStr : Bytes → Bytes
  | [] => []
  | b :: r => escByte b ++ escStr r

/-- a JSON string literal -/
def jStr (s : Bytes) : Bytes := 34 :: (escStr s ++ [34])

def allJWs (g : Bytes) : Bool := g.all isJWs

/-- `"key" g : g value` -/
def jMember (g key val : Bytes) : Bytes := jStr key ++ (g ++ 58 :: (g ++ val))

/-- the members of a non-empty `headers` object and its closing brace, with the gap `g` around every token -/
def renderHdrMembers (g : Bytes) : List (Bytes × Bytes) → Bytes
  | [] => [125]
  | [kv] => g ++ (jMember g kv.1 (jStr kv.2) ++ (g ++ [125]))
  | kv :: kv2 :: r => g ++ (jMember g kv.1 (jStr kv.2) ++ (g ++ 44 :: renderHdrMembers g (kv2 :: r)))

def renderHdrsJ (g : Bytes) (hs : List (Bytes × Bytes)) : Bytes :=
  if hs.isEmpty then 123 :: (g ++ [125]) else 123 :: renderHdrMembers g hs

/-- an entity as a JSON object, after the opening brace: all six fields, the gap `g` (JSON white space) around every token -/
def entBody (g : Bytes) (e : Entity) : Bytes :=
  g ++ (jMember g kHost (jStr e.host) ++ (g ++ 44 ::
  (g ++ (jMember g kMethod (jStr e.method) ++ (g ++ 44 ::
  (g ++ (jMember g kUri (jStr e.uri) ++ (g ++ 44 ::
  (g ++ (jMember g kHeaders (renderHdrsJ g e.headers) ++ (g ++ 44 ::
  (g ++ (jMember g kTag (jStr e.tag) ++ (g ++ 44 ::
  (g ++ (jMember g kBody (jStr e.body) ++ (g ++ [125])))))))))))))))))

def renderEntJ (g : Bytes) (e : Entity) : Bytes := 123 :: entBody g e

/-- one object after the other: `lead` before each, `sep` after each (both JSON white space, possibly empty) -/
def renderStreamJ (g lead sep : Bytes) : List Entity → Bytes
  | [] => lead
  | e :: r => lead ++ (renderEntJ g e ++ (sep ++ renderStreamJ g lead sep r))

/-- the elements of ONE array after `[`, then `]` and the trailing white space -/
def renderElemsJ (g lead sep trail : Bytes) : List Entity → Bytes
  | [] => 93 :: trail
  | [e] => lead ++ (renderEntJ g e ++ (sep ++ 93 :: trail))
  | e :: e2 :: r => lead ++ (renderEntJ g e ++ (sep ++ 44 :: renderElemsJ g lead sep trail (e2 :: r)))

end Pandora.Model.C07
