/-
C06 (iii) — how the pandora process ends: `cli/cli.go` `ReadConfigAndRunEngine` / `awaitPandoraTermination`.

Goroutines: main (the two nested `select`s), `runEngine` (sends `engine.Run`'s result on the unbuffered
`errs`), the pools' background tasks (provider, aggregator — whose deferred final Flush/Close is what
C06 cares about — and instances; when all of them are finished `pandora.Wait()` can return), the signal
handler, timers.

A trace is an arbitrary list of events; an event that is not enabled leaves the state unchanged; nothing
happens after `exit`. What the code is comes in as a `Cfg` (regenerated from cli/cli.go, see Bridge/C06Cli.lean):
* `waitOnErrs` selects what the signal branch does when `errs` becomes ready:
  `false` — the code as found: `log.Fatal("Engine interrupted")` at once (os.Exit without `pandora.Wait()`);
  `true`  — the repaired code (fixes/C06-cli-wait-before-exit.diff): wait for `pandora.Wait()`, bounded by the
  same interrupt timeout and still interruptible by a second signal, then `log.Fatal`;
* `notified s` — is signal `s` among the arguments of `signal.Notify`. A signal that is not keeps its default
  action: SIGINT and SIGTERM terminate the process at once (no deferred function, no flush);
* `cancels s` — does the `case` of the `switch sig` for `s` call `gracefulShutdown()` (cancel the run context);
* `waitOnFail` — when the engine fails by itself (one pool's provider, gun or aggregator failed; `errs` delivers the
  error before any signal): does the code call `pandora.Wait()` (bounded by a 3 s `time.AfterFunc`) before
  `log.Fatal`. `Engine.Run` returns at the first failed pool and only cancels the others: their aggregators still
  have to drain, flush and close.
`Engine.Run` returns nil only after every pool's tasks were awaited (core/engine/engine.go: `pool.Run`
returns nil only when `awaitErr` was closed, which happens after `awaitRun` saw all four results); this is
the enabling condition of `engineReturned true`.
-/
namespace Pandora.Model.CliShutdown

inductive Sig | int | term
  deriving DecidableEq, Repr

inductive Reason
  | finished        -- errs delivered nil: normal return from ReadConfigAndRunEngine
  | engineFailed    -- errs delivered an error first: graceful shutdown, Wait, Fatal
  | interrupted     -- after a signal: "Engine interrupted"
  | timeout         -- "Interrupt timeout exceeded" / "Engine tasks timeout exceeded."
  | secondSignal    -- "Another signal received. Quiting."
  | killed          -- default action of a signal that was not passed to signal.Notify
  deriving DecidableEq, Repr

/-- what the code is (regenerated) -/
structure Cfg where
  waitOnErrs : Bool
  notified : Sig → Bool
  cancels : Sig → Bool
  /-- (round 3) the engine failed by itself (`errs` delivered a non-nil error before any signal): does that branch
  call `pandora.Wait()` before `log.Fatal` — the tasks of the pools that did NOT fail are still running then -/
  waitOnFail : Bool := true

/-- the repaired code: waits, both signals notified, both cancel -/
def Cfg.repaired : Cfg :=
  { waitOnErrs := true, notified := fun _ => true, cancels := fun _ => true, waitOnFail := true }

inductive Ev
  -- environment
  | signal (s : Sig)              -- SIGINT / SIGTERM delivered (buffered in `sigs`, capacity 2)
  | engineReturned (ok : Bool)    -- `engine.Run` returned (nil iff ok); runEngine now offers it on `errs`
  | tasksDone                     -- every pool task finished: aggregators flushed and closed; `pandora.Wait()` can return
  | timerFires                    -- the armed timeout elapses
  -- choices of the main goroutine (enabled when the channel is ready)
  | takeSignal
  | takeErrs
  | takeTimeout
  | takeWaitDone
  deriving DecidableEq, Repr

inductive Pc
  | awaiting        -- outer select { sigs | errs }
  | sigWait         -- inner select after a signal { timeout | sigs | errs }
  | sigWaitTasks    -- (repaired code) select { Wait() done | timeout | sigs }
  | errWait         -- engine failed first: blocked in pandora.Wait(), AfterFunc timer armed
  | exited
  deriving DecidableEq, Repr

structure Exit where
  reason : Reason
  /-- were all aggregators flushed and closed at the moment of exit -/
  flushed : Bool
  deriving DecidableEq, Repr

structure St where
  pc : Pc := .awaiting
  sigs : List Sig := []           -- signals waiting in the channel `sigs` (capacity 2)
  delivered : Nat := 0            -- ghost: signals delivered so far
  engineDone : Bool := false
  errsReady : Option Bool := none -- value runEngine is blocked sending
  flushed : Bool := false         -- tasksDone happened
  cancelled : Bool := false       -- gracefulShutdown() called
  timerArmed : Bool := false
  timerFired : Bool := false
  exit : Option Exit := none
  deriving DecidableEq, Repr

def St.die (st : St) (r : Reason) : St := { st with pc := .exited, exit := some ⟨r, st.flushed⟩ }

def step (cfg : Cfg) (st : St) (e : Ev) : St :=
  if st.pc = .exited then st else
  match e with
  | .signal s =>
      if !cfg.notified s then { st with delivered := st.delivered + 1 }.die .killed   -- default action: terminate
      else if st.sigs.length < 2 then { st with sigs := st.sigs ++ [s], delivered := st.delivered + 1 }
      else { st with delivered := st.delivered + 1 }   -- signal.Notify drops when the channel is full
  | .engineReturned ok =>
      if st.engineDone then st
      else if ok && !st.flushed then st     -- Run returns nil only after all pool tasks were awaited
      else { st with engineDone := true, errsReady := some ok }
  | .tasksDone => { st with flushed := true }
  | .timerFires => if st.timerArmed then { st with timerFired := true } else st
  | .takeSignal =>
      match st.sigs with
      | [] => st
      | s :: rest =>
        match st.pc with
        | .awaiting => { st with sigs := rest, cancelled := cfg.cancels s, timerArmed := true, pc := .sigWait }
        | .sigWait => { st with sigs := rest }.die .secondSignal
        | .sigWaitTasks => { st with sigs := rest }.die .secondSignal
        | _ => st
  | .takeErrs =>
      match st.errsReady, st.pc with
      | some true, .awaiting => { st with errsReady := none }.die .finished
      | some false, .awaiting =>
          if cfg.waitOnFail then { st with errsReady := none, cancelled := true, timerArmed := true, pc := .errWait }
          else { st with errsReady := none, cancelled := true }.die .engineFailed
      | some _, .sigWait =>
          if cfg.waitOnErrs then { st with errsReady := none, pc := .sigWaitTasks }
          else { st with errsReady := none }.die .interrupted
      | _, _ => st
  | .takeTimeout =>
      if st.timerFired then
        match st.pc with
        | .sigWait => st.die .timeout
        | .sigWaitTasks => st.die .timeout
        | .errWait => st.die .timeout
        | _ => st
      else st
  | .takeWaitDone =>
      if st.flushed then
        match st.pc with
        | .sigWaitTasks => st.die .interrupted
        | .errWait => st.die .engineFailed
        | _ => st
      else st

def run (cfg : Cfg) (st : St) : List Ev → St
  | [] => st
  | e :: es => run cfg (step cfg st e) es

end Pandora.Model.CliShutdown
