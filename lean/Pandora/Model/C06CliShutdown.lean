/-
C06 (iii) — how the pandora process ends: `cli/cli.go` `ReadConfigAndRunEngine` / `awaitPandoraTermination`.

Goroutines: main (the two nested `select`s), `runEngine` (sends `engine.Run`'s result on the unbuffered
`errs`), the pools' background tasks (provider, aggregator — whose deferred final Flush/Close is what
C06 cares about — and instances; when all of them are finished `pandora.Wait()` can return), the signal
handler, timers.

A trace is an arbitrary list of events; an event that is not enabled leaves the state unchanged; nothing
happens after `exit`. `waitOnErrs` selects what the signal branch does when `errs` becomes ready:
* `false` — the code as found: `log.Fatal("Engine interrupted")` at once (os.Exit without `pandora.Wait()`);
* `true`  — the repaired code (fixes/C06-cli-wait-before-exit.diff): wait for `pandora.Wait()`, bounded by the
  same interrupt timeout and still interruptible by a second signal, then `log.Fatal`.
`Engine.Run` returns nil only after every pool's tasks were awaited (core/engine/engine.go: `pool.Run`
returns nil only when `awaitErr` was closed, which happens after `awaitRun` saw all four results); this is
the enabling condition of `engineReturned true`.
-/
namespace Pandora.Model.CliShutdown

inductive Sig | int | term
  deriving DecidableEq, Repr

inductive Reason
  | finished        -- errs delivered nil: normal return from ReadConfigAndRunEngine
  | engineFailed    -- errs delivered an error first: graceful shutdown, Wait, Fatal
  | interrupted     -- after a signal: "Engine interrupted"
  | timeout         -- "Interrupt timeout exceeded" / "Engine tasks timeout exceeded."
  | secondSignal    -- "Another signal received. Quiting."
  deriving DecidableEq, Repr

inductive Ev
  -- environment
  | signal (s : Sig)              -- SIGINT / SIGTERM delivered (buffered in `sigs`, capacity 2)
  | engineReturned (ok : Bool)    -- `engine.Run` returned (nil iff ok); runEngine now offers it on `errs`
  | tasksDone                     -- every pool task finished: aggregators flushed and closed; `pandora.Wait()` can return
  | timerFires                    -- the armed timeout elapses
  -- choices of the main goroutine (enabled when the channel is ready)
  | takeSignal
  | takeErrs
  | takeTimeout
  | takeWaitDone
  deriving DecidableEq, Repr

inductive Pc
  | awaiting        -- outer select { sigs | errs }
  | sigWait         -- inner select after a signal { timeout | sigs | errs }
  | sigWaitTasks    -- (repaired code) select { Wait() done | timeout | sigs }
  | errWait         -- engine failed first: blocked in pandora.Wait(), AfterFunc timer armed
  | exited
  deriving DecidableEq, Repr

structure Exit where
  reason : Reason
  /-- were all aggregators flushed and closed at the moment of exit -/
  flushed : Bool
  deriving DecidableEq, Repr

structure St where
  pc : Pc := .awaiting
  sigs : Nat := 0                 -- signals waiting in the channel
  delivered : Nat := 0            -- ghost: signals delivered so far
  engineDone : Bool := false
  errsReady : Option Bool := none -- value runEngine is blocked sending
  flushed : Bool := false         -- tasksDone happened
  cancelled : Bool := false       -- gracefulShutdown() called
  timerArmed : Bool := false
  timerFired : Bool := false
  exit : Option Exit := none
  deriving DecidableEq, Repr

def St.die (st : St) (r : Reason) : St := { st with pc := .exited, exit := some ⟨r, st.flushed⟩ }

def step (waitOnErrs : Bool) (st : St) (e : Ev) : St :=
  if st.pc = .exited then st else
  match e with
  | .signal _ => if st.sigs < 2 then { st with sigs := st.sigs + 1, delivered := st.delivered + 1 }
                 else { st with delivered := st.delivered + 1 }   -- signal.Notify drops when the channel is full
  | .engineReturned ok =>
      if st.engineDone then st
      else if ok && !st.flushed then st     -- Run returns nil only after all pool tasks were awaited
      else { st with engineDone := true, errsReady := some ok }
  | .tasksDone => { st with flushed := true }
  | .timerFires => if st.timerArmed then { st with timerFired := true } else st
  | .takeSignal =>
      if st.sigs = 0 then st else
      match st.pc with
      | .awaiting => { st with sigs := st.sigs - 1, cancelled := true, timerArmed := true, pc := .sigWait }
      | .sigWait => { st with sigs := st.sigs - 1 }.die .secondSignal
      | .sigWaitTasks => { st with sigs := st.sigs - 1 }.die .secondSignal
      | _ => st
  | .takeErrs =>
      match st.errsReady, st.pc with
      | some true, .awaiting => { st with errsReady := none }.die .finished
      | some false, .awaiting => { st with errsReady := none, cancelled := true, timerArmed := true, pc := .errWait }
      | some _, .sigWait =>
          if waitOnErrs then { st with errsReady := none, pc := .sigWaitTasks }
          else { st with errsReady := none }.die .interrupted
      | _, _ => st
  | .takeTimeout =>
      if st.timerFired then
        match st.pc with
        | .sigWait => st.die .timeout
        | .sigWaitTasks => st.die .timeout
        | .errWait => st.die .timeout
        | _ => st
      else st
  | .takeWaitDone =>
      if st.flushed then
        match st.pc with
        | .sigWaitTasks => st.die .interrupted
        | .errWait => st.die .engineFailed
        | _ => st
      else st

def run (waitOnErrs : Bool) (st : St) : List Ev → St
  | [] => st
  | e :: es => run waitOnErrs (step waitOnErrs st e) es

end Pandora.Model.CliShutdown
