/-
C02 — concurrent model of `callbackOnFinishSchedule` (core/coreutil/schedule.go).

    func (s *callbackOnFinishSchedule) Next() (ts time.Time, ok bool) {
        ts, ok = s.Schedule.Next()
        if !ok { s.onFinishOnce.Do(s.onFinish) }
        return
    }
    func (s *callbackOnFinishSchedule) Left() int {
        left := s.Schedule.Left()
        if left == 0 { s.onFinishOnce.Do(s.onFinish) }
        return left
    }

Any number of callers, each with a program of `Next` / `Left` calls on the WRAPPER.  The wrapped schedule is an
arbitrary object `Inner ι`: a call of it may take any number of atomic actions of its own (`none` = still inside)
before it returns a result — nothing is assumed about what it returns.  `sync.Once` is modelled as what it is, a
lock with a done flag (`OnceSt`): the first caller that reaches `Do` runs `onFinish` (the callback is code of the
user of the wrapper: it may take arbitrarily long, which is why entering and leaving it are separate actions),
every caller that reaches `Do` meanwhile is BLOCKED until the callback has returned, later callers pass.

Atomic actions of caller `i` (one per step of the schedule of actions, which is arbitrary):
  idle/inner → inner | got r     an action of the wrapped schedule's call
  got r      → return r          `r` is not a finishing result
             → inCb r            finishing, Once fresh:   `onFinish` entered           (event `cbBegin`)
             → wait r            finishing, Once running: blocked in `Do`              (event `blocked`)
             → return r          finishing, Once done
  inCb r     → return r          `onFinish` returns, Once done                         (events `cbEnd`, `ret r`)
  wait r     → return r | wait r the Once is done / is still running
-/
import Pandora.Model.C02Par

namespace Pandora.Model.C02.CbW
open Pandora.Model.C02 Pandora.Model.C02.Par

/-- the wrapped schedule: one atomic action of caller `i` inside its call `op` at clock reading `now` -/
structure Inner (ι : Type) where
  act : ι → Nat → Op → Int → ι × Option Ret

/-- `sync.Once` -/
inductive OnceSt where
  | fresh
  | running (owner : Nat)     -- `owner` is inside `f`, holding the Once's mutex
  | done
deriving Repr, DecidableEq

inductive WPc where
  | idle
  | inner                -- inside `s.Schedule.Next()` / `s.Schedule.Left()`
  | got (r : Ret)        -- the wrapped call returned `r`
  | inCb (r : Ret)       -- inside `onFinish`
  | wait (r : Ret)       -- blocked in `onFinishOnce.Do`
deriving Repr, DecidableEq

inductive WEv where
  | innerAct
  | got (r : Ret)
  | cbBegin
  | blocked
  | cbEnd
  | ret (r : Ret)
deriving Repr, DecidableEq

structure WThread where
  pc : WPc := .idle
  todo : List Op
deriving Repr

structure WSt (ι : Type) where
  inner : ι
  once : OnceSt := .fresh
  calls : Nat := 0                    -- how often `onFinish` has been entered
  thr : List WThread
  log : List (Nat × Int × WEv) := []    -- newest first

/-- the trigger of the two methods, read off the result: `!ok` for `Next`, `left == 0` for `Left`
(`Bridge/C02Cb.lean` ties it to the source) -/
def finishing : Ret → Bool
  | .tok _ ok => !ok
  | .cnt n => n == 0
  | .panic _ => false

section
variable {ι : Type} (I : Inner ι)

def setPc (st : WSt ι) (i : Nat) (th : WThread) (pc : WPc) (now : Int) (ev : WEv) : WSt ι :=
  { st with thr := st.thr.set i { th with pc := pc }, log := (i, now, ev) :: st.log }

/-- the call returns `r` (a panic of the wrapped schedule goes through the wrapper and ends the caller) -/
def doRet (st : WSt ι) (i : Nat) (more : List Op) (now : Int) (r : Ret) : WSt ι :=
  let more' := match r with | .panic _ => [] | _ => more
  { st with thr := st.thr.set i { pc := .idle, todo := more' }, log := (i, now, .ret r) :: st.log }

def wstep (st : WSt ι) (e : Nat × Int) : WSt ι :=
  match st.thr[e.1]? with
  | none => st
  | some th =>
    match th.todo with
    | [] => st
    | op :: more =>
      match th.pc with
      | .idle | .inner =>
        let x := I.act st.inner e.1 op e.2
        match x.2 with
        | none => setPc { st with inner := x.1 } e.1 th .inner e.2 .innerAct
        | some r => setPc { st with inner := x.1 } e.1 th (.got r) e.2 (.got r)
      | .got r =>
        if finishing r then
          match st.once with
          | .fresh => setPc { st with once := .running e.1, calls := st.calls + 1 } e.1 th (.inCb r) e.2 .cbBegin
          | .running _ => setPc st e.1 th (.wait r) e.2 .blocked
          | .done => doRet st e.1 more e.2 r
        else doRet st e.1 more e.2 r
      | .inCb r =>
        doRet { st with once := .done, log := (e.1, e.2, .cbEnd) :: st.log } e.1 more e.2 r
      | .wait r =>
        match st.once with
        | .done => doRet st e.1 more e.2 r
        | _ => { st with log := (e.1, e.2, .blocked) :: st.log }

def wrun (st : WSt ι) (sched : List (Nat × Int)) : WSt ι := sched.foldl (wstep I) st

/-- after the given order every caller is let run, lowest id first, one action each, round after round (what the
controlled harness does at the end of a case) -/
def unfinished (st : WSt ι) : List Nat :=
  (List.range st.thr.length).filter fun i => match st.thr[i]? with | some th => !th.todo.isEmpty | none => false

def wdrain (now : Int) : Nat → WSt ι → WSt ι
  | 0, st => st
  | fuel + 1, st =>
    match unfinished st with
    | [] => st
    | is => wdrain now fuel (is.foldl (fun s i =>
        match s.thr[i]? with
        | some th => if th.todo.isEmpty then s else wstep I s (i, now)
        | none => s) st)

end

def winit {ι : Type} (x : ι) (progs : List (List Op)) : WSt ι :=
  { inner := x, thr := progs.map fun p => { todo := p } }

end Pandora.Model.C02.CbW
