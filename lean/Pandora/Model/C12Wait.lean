/-
C12, round 4: WHEN the await loop of a pool ends (`(*runAwaitHandle).awaitRun`, core/engine/engine.go) — the termination
bookkeeping `ah.toWait` that the other layers leave out.  `pool.Run` returns WITHOUT error only when that loop has ended
(`awaitErr` closed), and `Engine.Run` returning cancels every pool: a loop that ended early would end a run whose
instances still fire.  Core-only, executable.

The loop waits for four things: the provider's result, the aggregator's result, the result of `startInstances`, and
"all instance runs awaited" (`checkAllInstancesAreFinished` going through, which closes `runRes`).  Each takes its channel
out of the select and counts `toWait` down; the loop goes on while `toWait > 0`.
-/
namespace Pandora.Model.C12Wait

inductive WEv
  /-- `err := <-ah.providerErr` -/
  | provider
  /-- `err := <-ah.aggregatorErr` -/
  | aggregator
  /-- `res := <-ah.startRes` -/
  | start
  /-- `checkAllInstancesAreFinished` goes through (inside the `startRes` or the `runRes` case) -/
  | allFinished
  deriving DecidableEq, Repr

structure WSt where
  toWait : Int
  /-- the channel was taken out of the select -/
  prov : Bool := false
  aggr : Bool := false
  start : Bool := false
  runs : Bool := false
  deriving DecidableEq, Repr

/-- what the source says about the four: (how often `toWait--`, channel set to nil) -/
structure Tab where
  init : Int
  prov : Nat × Bool
  aggr : Nat × Bool
  start : Nat × Bool
  allFin : Nat × Bool
  deriving DecidableEq, Repr

/-- the table of the code as it is -/
def stdTab : Tab := { init := 4, prov := (1, true), aggr := (1, true), start := (1, true), allFin := (1, true) }

def WSt.init (t : Tab) : WSt := { toWait := t.init }

/-- the loop is still running -/
def goesOn (s : WSt) : Bool := decide (s.toWait > 0)

/-- a receive from a nil channel never happens; nothing happens once the loop has ended; "all finished" needs the start
result (`isStartFinished()` in its guard) and happens once (it sets `runRes` to nil after closing it) -/
def wstep (t : Tab) (s : WSt) : WEv → WSt
  | .provider => if !goesOn s || s.prov then s else { s with toWait := s.toWait - t.prov.1, prov := t.prov.2 }
  | .aggregator => if !goesOn s || s.aggr then s else { s with toWait := s.toWait - t.aggr.1, aggr := t.aggr.2 }
  | .start => if !goesOn s || s.start then s else { s with toWait := s.toWait - t.start.1, start := t.start.2 }
  | .allFinished => if !goesOn s || s.runs || !s.start then s else { s with toWait := s.toWait - t.allFin.1, runs := t.allFin.2 }

def wrun (t : Tab) (s : WSt) (evs : List WEv) : WSt := evs.foldl (wstep t) s

def b2i (b : Bool) : Int := if b then 1 else 0

end Pandora.Model.C12Wait
