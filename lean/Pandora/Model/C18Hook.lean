/-
C18 — the glue between the config decoder and the registry: core/plugin/pluginconfig/hooks.go
(`Hook`, `FactoryHook`, `parseConf`, `toStringKeyMap`).

The decoder calls the hook for EVERY interface-typed (resp. factory-typed) field.  The hook
  * hands the data back untouched when no plugin at all is registered for the field's type (`Lookup` / `LookupFactory`),
  * otherwise takes the data apart: it must be a map with string keys; the key that names the plugin is `type` in ANY
    letter case; there must be exactly one such key, its value must be a string — and (REPAIRED behaviour, see
    fixes/C18-empty-plugin-name.diff) not the empty string, because `Registry.New` / `NewFactory` `expect` a non-empty
    name and would panic instead of returning an error;
  * everything but that key is the user's settings: the decoder fills them into the configuration (`fillConf`),
  * and creates the component / factory by that name.

`fixed := false` is the tree as found: an empty plugin name goes through to the registry.
-/
namespace Pandora.Model.C18Hook

/-- one entry of the config data: key, whether the value is a string, the value (a string, or the digits of a number) -/
structure KV where
  key : List Char
  isStr : Bool
  val : String
deriving DecidableEq, Repr

/-- what the decoder hands to the hook: `map[string]interface{}`, `map[interface{}]interface{}`, anything else -/
inductive DataKind | strMap | anyMap | other
deriving DecidableEq, Repr

/-- lower-casing, as far as it matters for a comparison with "type" -/
def lowerTYPE (c : Char) : Char :=
  if c = 'T' then 't' else if c = 'Y' then 'y' else if c = 'P' then 'p' else if c = 'E' then 'e' else c

/-- `PluginNameKey == strings.ToLower(key)` (the only letters that lower-case to t, y, p, e are these and their capitals;
keys are lists of characters so that the kernel can evaluate the examples) -/
def isTypeKey (k : List Char) : Bool := k.map lowerTYPE == ['t', 'y', 'p', 'e']

inductive Parse
  | err                                        -- the error result of `parseConf`
  | ok (name : String) (rest : List KV)        -- plugin name, the user's settings
deriving DecidableEq, Repr

/-- `parseConf` (after `toStringKeyMap`); `nonStrKey`: a `map[interface{}]interface{}` has a key that is no string -/
def parseConf (fixed : Bool) (dk : DataKind) (nonStrKey : Bool) (data : List KV) : Parse :=
  if dk = .other then .err
  else if dk = .anyMap && nonStrKey then .err
  else
    match data.filter (fun kv => isTypeKey kv.key) with
    | [t] =>
      if !t.isStr then .err
      else if fixed && t.val = "" then .err
      else .ok t.val (data.filter fun kv => !isTypeKey kv.key)
    | _ => .err       -- no `type` key, or too many (whichever of them the map iteration meets first, it ends in an error)

inductive Out
  | pass                                       -- the data, untouched
  | parseErr
  | create (name : String) (rest : List KV)    -- `plugin.New(t, name, fillConf)` / `plugin.NewFactory(t, name, fillConf)`
deriving DecidableEq, Repr

/-- `Hook` / `FactoryHook`; `typeKnown` = `plugin.Lookup(t)` resp. `plugin.LookupFactory(t)` -/
def hook (fixed : Bool) (typeKnown : Bool) (dk : DataKind) (nonStrKey : Bool) (data : List KV) : Out :=
  if !typeKnown then .pass
  else
    match parseConf fixed dk nonStrKey data with
    | .err => .parseErr
    | .ok name rest => .create name rest

end Pandora.Model.C18Hook
