/-
C13 — what happens when an ammo source is read more than once.

* `httpPassEnd` / `multiRun`: the end-of-pass decision shared by the uripost, raw, uri and jsonline decoders
  (components/providers/http/decoders/*.go `Scan`: `passNum++`, `ErrPassLimit`, `ErrNoAmmo`, seek, read again)
  and the limit test of `Provider.runFullScan`, on top of the one-pass `Run` of Model/C13Ammo.lean.
* `mprReadByte` / `loadByte`: `lib/ioutil2.MultiPassReader.Read` under jsoniter's `loadMore` loop
  (`for { n, err := reader.Read(buf); if n == 0 { if err != nil { return false } } else { return true } }`),
  byte by byte. `fixed = false` is the reader as found (an exhausted source is sought to its start whatever
  the pass gave), `fixed = true` the reader of /repo now (commit 9d5241f: a pass that read no byte, or - asked
  through `SetProgress` by `DecodeProvider.Run` - gave no ammo, is not repeated).
* `genjsonRun`: `core/provider.DecodeProvider.Run` with `JSONAmmoDecoder.Decode` (commit e485f6e: the end of the
  source inside an ammo is an error) over that reader, for sources made of `{"tag":"<word>"}` objects; on anything
  else the model abstains (`unknown`: jsoniter decides).

Core Lean only.
-/
import Pandora.Model.C13Ammo

namespace Pandora.Model.C13

/-! ### more than one pass over a file of the http provider -/

/-- `Scan` at the end of the file: `passNum` passes done, `ammoNum` entries read so far -/
def httpPassEnd (passes passNum ammoNum : Nat) : PassEnd :=
  if passes ≠ 0 ∧ passNum ≥ passes then .stop .ok                -- ErrPassLimit: the regular end
  else if ammoNum = 0 then .stop (.err "noammo")                  -- ErrNoAmmo: a file without entries is not read again
  else .again

/-- the provider over a file whose single pass is `one` (`limit = 0`: no limit, `passes = 0`: no pass limit).
`done` entries were delivered by the `passNum` passes before this one. -/
def multiRun (one : Run) (passes limit : Nat) : Nat → Nat → Nat → Run
  | 0, _, _ => ⟨[], .fuel, []⟩
  | fuel + 1, passNum, done =>
    if limit ≠ 0 ∧ done + one.entries.length ≥ limit then ⟨one.entries.take (limit - done), .ok, []⟩
    else if one.end_ ≠ .ok then ⟨one.entries, one.end_, one.rest⟩
    else match httpPassEnd passes (passNum + 1) (done + one.entries.length) with
      | .stop e => ⟨one.entries, e, []⟩
      | .again => (multiRun one passes limit fuel (passNum + 1) (done + one.entries.length)).prepend one.entries

/-- the whole run; with a limit, `limit + 1` passes are always enough (every repeated pass delivers an entry) -/
def multiRunAll (one : Run) (passes limit : Nat) : Run :=
  multiRun one passes limit ((if limit ≠ 0 then limit else passes) + 1) 0 0

/-! ### `MultiPassReader` -/

/-- state of `MultiPassReader` over a source of `data.length` bytes, and the two counters of `DecodeProvider.Run`
that its `SetProgress` callback reads -/
structure MPR where
  pos : Nat            -- read position in the source
  passesCount : Nat
  passBytes : Nat      -- bytes read in the current pass
  ammoNum : Nat        -- ammo decoded and queued by the provider
  passStart : Nat      -- `ammoNum` at the end of the previous pass
  resets : Bool := true -- the reader sets `passBytes` back to 0 at the end of a pass (it does; the theorems hold either way)
  deriving Repr, DecidableEq

def MPR.init : MPR := { pos := 0, passesCount := 0, passBytes := 0, ammoNum := 0, passStart := 0 }

inductive RdRes where
  | byte (b : UInt8)
  | eof                -- `(0, io.EOF)`
  | again              -- `(0, nil)`: the source was sought to its start, the caller has to read again
  deriving Repr, DecidableEq

/-- one `Read` (of one byte) through the reader; `passes = 0`: unlimited -/
def mprReadByte (fixed : Bool) (data : Bytes) (passes : Nat) (s : MPR) : RdRes × MPR :=
  match data[s.pos]? with
  | some b => (.byte b, { s with pos := s.pos + 1, passBytes := s.passBytes + 1 })
  | none =>
    let pc := s.passesCount + 1
    if fixed then
      -- `fruitless := r.passBytes == 0 || r.progress != nil && !r.progress()`; `progress` also notes where the next pass starts
      let asked := s.passBytes ≠ 0
      let fruitless := s.passBytes = 0 ∨ ¬ (s.ammoNum > s.passStart)
      let s' : MPR := { s with passesCount := pc, passBytes := if s.resets then 0 else s.passBytes,
                               passStart := if asked then s.ammoNum else s.passStart }
      if fruitless then (.eof, s')
      else if passes = 0 ∨ pc < passes then (.again, { s' with pos := 0 })
      else (.eof, s')
    else
      -- (the reader as found has no `passBytes`; the model keeps the field at the bytes read since the last seek)
      if passes = 0 ∨ pc < passes then (.again, { s with passesCount := pc, pos := 0, passBytes := 0 })
      else (.eof, { s with passesCount := pc })

/-- jsoniter's `loadMore`: read until something other than `(0, nil)` comes back. `fuel` bounds the number of
`Read` calls; running out of it (`.again`) is the busy loop that never ends. -/
def loadByte (fixed : Bool) (data : Bytes) (passes : Nat) : Nat → MPR → RdRes × MPR
  | 0, s => (.again, s)
  | fuel + 1, s =>
    match mprReadByte fixed data passes s with
    | (.again, s') => loadByte fixed data passes fuel s'
    | r => r

/-! ### the generic JSON provider -/

def isJsonWs (b : UInt8) : Bool := b == 32 || b == 10 || b == 9 || b == 13

def isTagByte (b : UInt8) : Bool :=
  (48 ≤ b && b ≤ 57) || (65 ≤ b && b ≤ 90) || (97 ≤ b && b ≤ 122) || b == 95 || b == 45 || b == 46

/-- `{"tag":"` -/
def tagOpen : Bytes := [123, 34, 116, 97, 103, 34, 58, 34]
/-- `"}` -/
def tagClose : Bytes := [34, 125]

/-- the tag of an object written exactly `{"tag":"<word>"}` -/
def safeObject (o : Bytes) : Option Bytes :=
  if tagOpen.isPrefixOf o && tagClose.isSuffixOf o && o.length ≥ tagOpen.length + tagClose.length then
    let w := (o.drop tagOpen.length).take (o.length - tagOpen.length - tagClose.length)
    if w.all isTagByte then some w else none
  else none

inductive DecRes where
  | ammo (tag : Bytes)
  | eof                 -- nothing but white space up to the end of the source: `io.EOF`, the regular end
  | err                 -- the source ends inside an ammo
  | unknown             -- not an object of the simple shape: jsoniter decides
  | hang                -- the reader never answers
  deriving Repr, DecidableEq

/-- the next byte that is not white space -/
def skipWs (fixed : Bool) (data : Bytes) (passes : Nat) : Nat → MPR → Option RdRes × MPR
  | 0, s => (none, s)
  | fuel + 1, s =>
    match loadByte fixed data passes 3 s with
    | (.byte b, s') => if isJsonWs b then skipWs fixed data passes fuel s' else (some (.byte b), s')
    | (.eof, s') => (some .eof, s')
    | (.again, s') => (none, s')

/-- the bytes of an object up to its closing brace (`acc` reversed) -/
def readObject (fixed : Bool) (data : Bytes) (passes : Nat) : Nat → Bytes → MPR → DecRes × MPR
  | 0, _, s => (.hang, s)
  | fuel + 1, acc, s =>
    match loadByte fixed data passes 3 s with
    | (.byte b, s') =>
      if b == 125 then
        match safeObject (b :: acc).reverse with
        | some t => (.ammo t, s')
        | none => (.unknown, s')
      else if b == 123 || isJsonWs b then (.unknown, s')
      else readObject fixed data passes fuel (b :: acc) s'
    | (.eof, s') => (.err, s')
    | (.again, s') => (.hang, s')

/-- `JSONAmmoDecoder.Decode` -/
def decodeOne (fixed : Bool) (data : Bytes) (passes : Nat) (s : MPR) : DecRes × MPR :=
  match skipWs fixed data passes (2 * data.length + 4) s with
  | (none, s') => (.hang, s')
  | (some .eof, s') => (.eof, s')
  | (some (.byte 123), s') => readObject fixed data passes (2 * data.length + 4) [123] s'
  | (some _, s') => (.unknown, s')

structure JRun where
  tags : List Bytes     -- reversed
  end_ : String         -- ok | err | hang | unknown
  deriving Repr, DecidableEq

/-- the loop of `DecodeProvider.Run`: `for ; limit <= 0 || ammoNum < limit; ammoNum++ { decode; queue }` -/
def genjsonLoop (fixed : Bool) (data : Bytes) (passes limit : Nat) : Nat → MPR → List Bytes → JRun
  | 0, _, acc => ⟨acc, "hang"⟩
  | fuel + 1, s, acc =>
    if limit ≠ 0 ∧ s.ammoNum ≥ limit then ⟨acc, "ok"⟩
    else match decodeOne fixed data passes s with
      | (.ammo t, s') => genjsonLoop fixed data passes limit fuel { s' with ammoNum := s'.ammoNum + 1 } (t :: acc)
      | (.eof, _) => ⟨acc, "ok"⟩
      | (.err, _) => ⟨acc, "err"⟩
      | (.unknown, _) => ⟨acc, "unknown"⟩
      | (.hang, _) => ⟨acc, "hang"⟩

/-- the whole run; the number of ammo is bounded by the limit, or by (objects per pass) × passes -/
def genjsonRun (fixed : Bool) (data : Bytes) (passes limit : Nat) : JRun :=
  let bound := if limit ≠ 0 then limit else data.length * passes
  genjsonLoop fixed data passes limit (bound + 2) MPR.init []

end Pandora.Model.C13
