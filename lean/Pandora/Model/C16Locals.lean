/-
Model C16, HCL-only conveniences (`components/providers/scenario/config/hcl.go`): `ParseHCLFile` evaluates the
`locals` blocks of the file in source order into an evaluation context (`decodeLocals`), then decodes the rest of the
body under the final context (`gohcl.DecodeBody`); attribute values may be literals, `local.<name>` references,
templates with interpolation, tuple / object constructors and calls of the registered collection functions
(`buildHclContext`).  What reaches `ConvertHCLToAmmo` is the EVALUATED description: a closed value tree `V`.

* `E`           syntax of an HCL body: literals, tuples, objects / block bodies, `local.x`, templates, function calls,
                index / attribute access (`local.m.k`, `local.l[1]`);
* `applyFn`     the registered go-cty stdlib collection functions on strings, lists of strings and string maps
                (outside that: `none` = no prediction);
* `evalE`       evaluation under an environment of locals; the function table (HCL name ↦ stdlib function) is a
                parameter: `/verif/gen -area hclyaml` regenerates it from `buildHclContext`;
* `evalLocals`  `decodeLocals`: every block is evaluated under the locals of the blocks BEFORE it (not its own), and
                merged over them with `mergeMaps(vars, newVars)` — a later definition of a name replaces an earlier one;
* `evalFile`    locals first, then the body under the final environment (the position of a locals block relative to
                the blocks that use it does not matter, only the order of the locals blocks among themselves).

`none` = the file is refused (unknown local / function, wrong argument) or the expression is outside the model.
Core Lean only.
-/
import Pandora.Model.C16

namespace Pandora.Model.C16
open Pandora.Go

/-- syntax of an HCL body / expression -/
inductive E where
  | null
  | str (s : String)
  | int (i : Int)
  | bool (b : Bool)
  /-- tuple constructor `[a, b]`, or the list of repeated blocks of one type -/
  | seq (xs : List E)
  /-- object constructor `{ k = v }`, or the body of a block (labels as literal entries) -/
  | map (kvs : List (String × E))
  /-- `local.<name>` -/
  | loc (name : String)
  /-- quoted template `"a${e}b"`: the parts in order -/
  | tmpl (parts : List E)
  /-- `fn(args…)` -/
  | call (fn : String) (args : List E)
  /-- `e[k]`, `e.k`: element of a tuple by number, member of an object by name -/
  | idx (e : E) (k : E)
  deriving Repr, Inhabited

abbrev Env := List (String × V)

mutual
/-- structural equality test on value trees -/
def beqV : V → V → Bool
  | .null, .null => true
  | .str a, .str b => a == b
  | .int a, .int b => a == b
  | .bool a, .bool b => a == b
  | .seq xs, .seq ys => beqVL xs ys
  | .map xs, .map ys => beqVM xs ys
  | _, _ => false
def beqVL : List V → List V → Bool
  | [], [] => true
  | x :: xs, y :: ys => beqV x y && beqVL xs ys
  | _, _ => false
def beqVM : List (String × V) → List (String × V) → Bool
  | [], [] => true
  | (k, x) :: xs, (k', y) :: ys => k == k' && beqV x y && beqVM xs ys
  | _, _ => false
end

def beqOV : Option V → Option V → Bool
  | none, none => true
  | some a, some b => beqV a b
  | _, _ => false

def envGet (env : Env) (k : String) : Option V := (env.find? (fun p => p.1 == k)).map (·.2)

/-- Go `m[k] = v` on an association list with distinct keys -/
def envSet : Env → String → V → Env
  | [], k, v => [(k, v)]
  | (k', v') :: rest, k, v => if k' == k then (k, v) :: rest else (k', v') :: envSet rest k v

/-- `mergeMaps(to, from)`: `for k, v := range from { to[k] = v }; return to` -/
def mergeMaps (dst src : Env) : Env := src.foldl (fun acc p => envSet acc p.1 p.2) dst

/-! ### the collection functions (go-cty `function/stdlib`) on strings, string lists and string maps -/

/-- a primitive value converted to string (cty `convert`: number → decimal, bool → `true` / `false`) -/
def primStr : V → Option String
  | .str s => some s
  | .int i => some (toString i)
  | .bool b => some (if b then "true" else "false")
  | _ => none

/-- a tuple passed for a `list(string)` parameter: every member is converted to string -/
def strsConv : List V → Option (List String)
  | [] => some []
  | x :: r => (primStr x).bind fun s => (strsConv r).map (s :: ·)

def isStrV : V → Bool
  | .str _ => true
  | _ => false

def isIntV : V → Bool
  | .int _ => true
  | _ => false

def isBoolV : V → Bool
  | .bool _ => true
  | _ => false

def isNullV : V → Bool
  | .null => true
  | _ => false

def strSeq : V → Bool
  | .seq xs => xs.all isStrV
  | _ => false

def strMapV : V → Bool
  | .map kvs => kvs.all fun p => isStrV p.2
  | _ => false

/-- the arguments of `coalesce` after type unification (`none`: no common type, or outside the model): strings,
numbers and bools unify to string when a string is among them; tuples of strings and objects of strings are kept -/
def coalesceUnify (xs : List V) : Option (List V) :=
  let nn := xs.filter (!isNullV ·)
  if nn.all isStrV || nn.all isIntV || nn.all isBoolV || nn.all strSeq || nn.all strMapV then some nn
  else if nn.any isStrV then (strsConv nn).map (·.map V.str)
  else none

/-- insertion sort (structural: the kernel can evaluate it), bytewise = code point order like Go's `sort.Strings` -/
def insStr (x : String) : List String → List String
  | [] => [x]
  | y :: ys => if x ≤ y then x :: y :: ys else y :: insStr x ys

def sortStrs (xs : List String) : List String := xs.foldr insStr []

def insKV (p : String × V) : List (String × V) → List (String × V)
  | [] => [p]
  | q :: r => if p.1 ≤ q.1 then p :: q :: r else q :: insKV p r

/-- entries in key order (cty iterates maps and objects in key order) -/
def sortKV (kvs : List (String × V)) : List (String × V) := kvs.foldr insKV []

def dedup : List String → List String → List String
  | [], _ => []
  | x :: xs, seen => if seen.contains x then dedup xs seen else x :: dedup xs (x :: seen)

mutual
def flattenV : V → List V
  | .seq xs => flattenL xs
  | .null => [.null]
  | .str s => [.str s]
  | .int i => [.int i]
  | .bool b => [.bool b]
  | .map kvs => [.map kvs]
def flattenL : List V → List V
  | [] => []
  | x :: xs => flattenV x ++ flattenL xs
end

/-- `strings.Split(s, sep)` for a non-empty separator -/
def splitAux (sep : List Char) : Nat → List Char → List Char → List (List Char)
  | 0, cur, _ => [cur.reverse]
  | _ + 1, cur, [] => [cur.reverse]
  | fuel + 1, cur, c :: rest =>
    if sep.isPrefixOf (c :: rest) then cur.reverse :: splitAux sep fuel [] ((c :: rest).drop sep.length)
    else splitAux sep fuel (c :: cur) rest

/-- `strings.Split(s, sep)`; an empty separator explodes the string into its characters -/
def goSplit (s sep : String) : List String :=
  if sep == "" then s.toList.map fun c => String.ofList [c]
  else (splitAux sep.toList (s.length + 1) [] s.toList).map String.ofList

def natOf : V → Option Nat
  | .int i => if i < 0 then none else some i.toNat
  | _ => none

def firstNonNull : List V → Option V
  | [] => none
  | .null :: r => firstNonNull r
  | x :: _ => some x

def firstNonEmptyList : List V → Option V
  | [] => none
  | .seq [] :: r => firstNonEmptyList r
  | .seq (x :: xs) :: _ => some (.seq (x :: xs))
  | _ => none

def concatLists : List V → Option (List V)
  | [] => some []
  | .seq xs :: r => (concatLists r).map (xs ++ ·)
  | _ => none

/-- `merge`: later arguments win; null arguments are skipped -/
def mergeObjs : List V → Env → Option Env
  | [], acc => some acc
  | .map kvs :: r, acc => mergeObjs r (mergeMaps acc kvs)
  | .null :: r, acc => mergeObjs r acc
  | _, _ => none

def zipKV : List String → List V → Env → Option Env
  | [], [], acc => some acc
  | k :: ks, v :: vs, acc => zipKV ks vs (envSet acc k v)
  | _, _, _ => none

/-- one registered function, selected by the name of the go-cty stdlib variable it is bound to -/
def applyFn (sym : String) (args : List V) : Option V :=
  match sym, args with
  | "CoalesceFunc", xs => (coalesceUnify xs).bind firstNonNull
  | "CoalesceListFunc", xs => firstNonEmptyList xs
  | "CompactFunc", [.seq xs] => (strsConv xs).map fun ss => .seq ((ss.filter (· != "")).map V.str)
  | "ConcatFunc", x :: xs => (concatLists (x :: xs)).map V.seq
  | "DistinctFunc", [.seq xs] =>
    if xs.isEmpty then some (.seq [])
    else if xs.any isStrV then (strsConv xs).map fun ss => .seq ((dedup ss []).map V.str) else none
  | "ElementFunc", [.seq xs, i] =>
    (natOf i).bind fun n => if xs.isEmpty then none else xs[n % xs.length]?
  | "FlattenFunc", [.seq xs] => some (.seq (flattenL xs))
  | "IndexFunc", [.seq xs, i] => (natOf i).bind fun n => xs[n]?
  | "KeysFunc", [.map kvs] => some (.seq ((sortKV kvs).map fun p => V.str p.1))
  | "LookupFunc", [.map kvs, .str k, dflt] => some ((envGet kvs k).getD dflt)
  | "MergeFunc", xs => (mergeObjs xs []).map V.map
  | "ReverseListFunc", [.seq xs] => some (.seq xs.reverse)
  | "SliceFunc", [.seq xs, a, b] =>
    (natOf a).bind fun s => (natOf b).bind fun e =>
      if s ≤ e ∧ e ≤ xs.length then some (.seq ((xs.drop s).take (e - s))) else none
  | "SortFunc", [.seq xs] => (strsConv xs).map fun ss => .seq ((sortStrs ss).map V.str)
  | "SplitFunc", [.str sep, .str s] => some (.seq ((goSplit s sep).map V.str))
  | "ValuesFunc", [.map kvs] => some (.seq ((sortKV kvs).map (·.2)))
  | "ZipmapFunc", [.seq ks, .seq vs] => (strsConv ks).bind fun ss => (zipKV ss vs []).map V.map
  | _, _ => none

/-! ### evaluation -/

/-- a template part as text -/
def tmplStr : V → Option String
  | .str s => some s
  | .int i => some (toString i)
  | .bool b => some (if b then "true" else "false")
  | _ => none

def concatParts : List V → Option String
  | [] => some ""
  | v :: r => (tmplStr v).bind fun s => (concatParts r).map (s ++ ·)

def isStrLit : E → Bool
  | .str _ => true
  | _ => false

mutual
/-- the value of an expression / body under the locals `env`; `fns`: HCL function name ↦ stdlib function -/
def evalE (fns : List (String × String)) (env : Env) : E → Option V
  | .null => some .null
  | .str s => some (.str s)
  | .int i => some (.int i)
  | .bool b => some (.bool b)
  | .seq xs => (evalL fns env xs).map V.seq
  | .map kvs => (evalM fns env kvs).map V.map
  | .loc n => envGet env n
  | .tmpl ps =>
    (evalL fns env ps).bind fun vs =>
      match ps, vs with
      -- a template that is exactly one interpolation yields the value itself
      | [p], [v] => if isStrLit p then (tmplStr v).map V.str else some v
      | _, _ => (concatParts vs).map V.str
  | .call f args =>
    match fns.find? (fun p => p.1 == f) with
    | none => none
    | some p => (evalL fns env args).bind (applyFn p.2)
  | .idx e k =>
    match evalE fns env e, evalE fns env k with
    | some (.seq xs), some (.int i) => if i < 0 then none else xs[i.toNat]?
    | some (.map kvs), some (.str s) => envGet kvs s
    | _, _ => none
def evalL (fns : List (String × String)) (env : Env) : List E → Option (List V)
  | [] => some []
  | x :: xs =>
    match evalE fns env x, evalL fns env xs with
    | some v, some vs => some (v :: vs)
    | _, _ => none
def evalM (fns : List (String × String)) (env : Env) : List (String × E) → Option (List (String × V))
  | [] => some []
  | (k, x) :: rest =>
    match evalE fns env x, evalM fns env rest with
    | some v, some vs => some ((k, v) :: vs)
    | _, _ => none
end

/-- one iteration of `decodeLocals`: the block's attributes are evaluated under the locals collected so far (its own
attributes are not visible), then written over them -/
def localsStep (fns : List (String × String)) (vars : Env) (block : List (String × E)) : Option Env :=
  (evalM fns vars block).map fun newVars => mergeMaps vars newVars

/-- `decodeLocals`: the locals blocks in source order -/
def evalLocals (fns : List (String × String)) : Env → List (List (String × E)) → Option Env
  | vars, [] => some vars
  | vars, b :: bs =>
    match localsStep fns vars b with
    | none => none
    | some vars' => evalLocals fns vars' bs

/-- an HCL scenario file: its `locals` blocks in source order, and the rest of the body -/
structure HclFile where
  locals : List (List (String × E))
  body : E
  deriving Repr, Inhabited

/-- `ParseHCLFile`: the evaluated description handed to `ConvertHCLToAmmo` -/
def evalFile (fns : List (String × String)) (f : HclFile) : Option V :=
  (evalLocals fns [] f.locals).bind fun env => evalE fns env f.body

/-! ### from the evaluated body to the HCL structs (`gohcl.DecodeBody`)

gohcl decodes the evaluated body against the `hcl` tags of the Go structs: an argument or block the struct does not
have refuses the file, so does a missing required argument; the value of an attribute is CONVERTED to the Go type of
the field (cty `convert`): a number or bool written where a string is expected becomes its decimal / `true` / `false`
text (`port = 8090` in a `map[string]string` denotes `"8090"`), the members of a tuple for a `[]string` and the
values of an object for a `map[string]string` likewise; anything else (a list for a string, a string for a number that
is not modelled …) is `none`. -/

def mapStrVals : List (String × V) → Option (List (String × V))
  | [] => some []
  | (k, x) :: rest => (primStr x).bind fun s => (mapStrVals rest).map ((k, V.str s) :: ·)

/-- conversion of an attribute value to a leaf type; `null` = the argument is absent -/
def coerceLeaf : C16Leaf → V → Option V
  | _, .null => some .null
  | .str, v => (primStr v).map V.str
  | .int, .int i => some (.int i)
  | .bool, .bool b => some (.bool b)
  | .strList, .seq xs => (strsConv xs).map fun ss => .seq (ss.map V.str)
  | .strMap, .map kvs => (mapStrVals kvs).map V.map
  | .anyMap, .map kvs => some (.map kvs)
  | _, _ => none

/-- every required argument / label of struct `s` is written (non-null) -/
def written (fs : List (String × V)) (k : String) : Bool := fs.any fun p => p.1 == k && !isNullV p.2

def requiredOK (T : Tables) (s : String) (fs : List (String × V)) : Bool :=
  (hFields T s).all fun f => f.optional || written fs f.hcl

mutual
def coerceV (T : Tables) : C16HTy → V → Option V
  | ty, .map fs =>
    match ty with
    | .struct s => if requiredOK T s fs then (coerceFs T s fs).map V.map else none
    | .leaf l => coerceLeaf l (.map fs)
    | .structList _ => none
  | ty, .seq xs =>
    match ty with
    | .structList s => (coerceXs T s xs).map V.seq
    | .leaf l => coerceLeaf l (.seq xs)
    | .struct _ => none
  | ty, .null =>
    match ty with
    | _ => some .null
  | ty, .str x =>
    match ty with
    | .leaf l => coerceLeaf l (.str x)
    | _ => none
  | ty, .int x =>
    match ty with
    | .leaf l => coerceLeaf l (.int x)
    | _ => none
  | ty, .bool x =>
    match ty with
    | .leaf l => coerceLeaf l (.bool x)
    | _ => none
def coerceFs (T : Tables) (s : String) : List (String × V) → Option (List (String × V))
  | [] => some []
  | (k, x) :: rest =>
    match findH T s k with
    | none => none
    | some f =>
      match coerceV T f.ty x, coerceFs T s rest with
      | some y, some ys => some ((k, y) :: ys)
      | _, _ => none
def coerceXs (T : Tables) (s : String) : List V → Option (List V)
  | [] => some []
  | x :: xs =>
    match coerceV T (.struct s) x, coerceXs T s xs with
    | some y, some ys => some (y :: ys)
    | _, _ => none
end

/-- `ParseHCLFile`: the description stored into `AmmoHCL` — the body evaluated under the locals, converted to the
types of the HCL structs (`none`: the file is refused) -/
def hclDescription (T : Tables) (fns : List (String × String)) (f : HclFile) : Option V :=
  (evalFile fns f).bind (coerceV T (.struct T.hclRoot))

/-! ### writing the locals out -/

mutual
/-- a value as a literal expression -/
def quote : V → E
  | .null => .null
  | .str s => .str s
  | .int i => .int i
  | .bool b => .bool b
  | .seq xs => .seq (quoteL xs)
  | .map kvs => .map (quoteM kvs)
def quoteL : List V → List E
  | [] => []
  | x :: xs => quote x :: quoteL xs
def quoteM : List (String × V) → List (String × E)
  | [] => []
  | (k, x) :: rest => (k, quote x) :: quoteM rest
end

mutual
/-- the expression with every reference to a defined local replaced by the local's value, written as a literal -/
def inlineE (env : Env) : E → E
  | .null => .null
  | .str s => .str s
  | .int i => .int i
  | .bool b => .bool b
  | .seq xs => .seq (inlineEL env xs)
  | .map kvs => .map (inlineEM env kvs)
  | .loc n =>
    match envGet env n with
    | some v => quote v
    | none => .loc n
  | .tmpl ps => .tmpl (inlineEL env ps)
  | .call f args => .call f (inlineEL env args)
  | .idx e k => .idx (inlineE env e) (inlineE env k)
def inlineEL (env : Env) : List E → List E
  | [] => []
  | x :: xs => inlineE env x :: inlineEL env xs
def inlineEM (env : Env) : List (String × E) → List (String × E)
  | [] => []
  | (k, x) :: rest => (k, inlineE env x) :: inlineEM env rest
end

/-- the HCL front-end from the file's syntax: refused when evaluation fails, otherwise `hclPath` of the evaluated
description -/
def hclFilePath (T : Tables) (fns : List (String × String)) (f : HclFile) : Outcome :=
  match hclDescription T fns f with
  | none => .refused
  | some d => hclPath T d

end Pandora.Model.C16
