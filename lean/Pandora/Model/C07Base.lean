/-
C07 — ammo decoding fidelity.  Base layer (core Lean only):

* byte-level models of the library functions the Go decoders rely on
  (`strings.TrimSpace` incl. the Unicode white-space runes, `strings.Cut`, `strings.Split`/`Join`,
  `strconv.Atoi`, `textproto.CanonicalMIMEHeaderKey`, `http.Header.Set`),
* the decoded ammo (`decoders/ammo.Ammo` after `Setup`) and its materialisation at `Acquire`
  (`Ammo.BuildRequest` + `util.EnrichRequestWithHeaders`),
* the ammo-file *formats*: entries, layouts and the renderer `render : Fmt → List Item → Layout → Bytes`.

The scanners that read such files back are in `Pandora.Model.C07`.
-/
namespace Pandora.Model.C07

abbrev Bytes := List UInt8

/-! ### bytes -/

def LF : UInt8 := 10
def CR : UInt8 := 13
def SP : UInt8 := 32
def LBR : UInt8 := 91   -- '['
def RBR : UInt8 := 93   -- ']'
def COLON : UInt8 := 58

def ofStr (s : String) : Bytes := s.toUTF8.toList

/-- `asciiSpace` of package strings: `\t \n \v \f \r ' '` -/
def isAsciiWs (b : UInt8) : Bool :=
  b == 9 || b == 10 || b == 11 || b == 12 || b == 13 || b == 32

def isDigit (b : UInt8) : Bool := 48 ≤ b && b ≤ 57

/-! ### strings.TrimSpace

`TrimSpace` removes leading and trailing runes with `unicode.IsSpace`: the six ASCII bytes and
U+0085, U+00A0, U+1680, U+2000–U+200A, U+2028, U+2029, U+202F, U+205F, U+3000 in their (unique, shortest)
UTF-8 encodings.  Invalid UTF-8 decodes to U+FFFD (width 1), which is not a space. -/

/-- third byte of an `E2 80 xx` white-space rune -/
def isE280Sp (d : UInt8) : Bool := (0x80 ≤ d && d ≤ 0x8A) || d == 0xA8 || d == 0xA9 || d == 0xAF

/-- width of the white-space rune at the head of `s` (0: the first rune is not a space) -/
def spWidth : Bytes → Nat
  | [] => 0
  | b :: r =>
    if isAsciiWs b then 1
    else match r with
      | [] => 0
      | c :: r2 =>
        if b == 0xC2 && (c == 0x85 || c == 0xA0) then 2
        else match r2 with
          | [] => 0
          | d :: _ =>
            if (b == 0xE1 && c == 0x9A && d == 0x80)
               || (b == 0xE2 && c == 0x80 && isE280Sp d)
               || (b == 0xE2 && c == 0x81 && d == 0x9F)
               || (b == 0xE3 && c == 0x80 && d == 0x80) then 3 else 0

/-- width of the white-space rune at the END of the string whose reversal is given
(`utf8.DecodeLastRuneInString`: nearest start byte within 4, decoded forward, must end exactly at the end) -/
def spWidthRev : Bytes → Nat
  | [] => 0
  | d :: r =>
    if isAsciiWs d then 1
    else match r with
      | [] => 0
      | c :: r2 =>
        if c == 0xC2 && (d == 0x85 || d == 0xA0) then 2
        else match r2 with
          | [] => 0
          | b :: _ =>
            if (b == 0xE1 && c == 0x9A && d == 0x80)
               || (b == 0xE2 && c == 0x80 && isE280Sp d)
               || (b == 0xE2 && c == 0x81 && d == 0x9F)
               || (b == 0xE3 && c == 0x80 && d == 0x80) then 3 else 0

/-- strip white-space runes from the head; the `Nat` counts bytes of the current rune still to drop -/
def trimAux (w : Bytes → Nat) : Nat → Bytes → Bytes
  | _, [] => []
  | 0, b :: r => if w (b :: r) = 0 then b :: r else trimAux w (w (b :: r) - 1) r
  | n + 1, _ :: r => trimAux w n r

def trimLeft (s : Bytes) : Bytes := trimAux spWidth 0 s
def trimRight (s : Bytes) : Bytes := (trimAux spWidthRev 0 s.reverse).reverse
/-- `strings.TrimSpace` -/
def trimSpace (s : Bytes) : Bytes := trimRight (trimLeft s)

/-! ### strings.Cut / Split / Join (single-byte separators) -/

/-- `strings.Cut(s, sep)`: before, after, found -/
def cut (sep : UInt8) : Bytes → Bytes × Bytes × Bool
  | [] => ([], [], false)
  | b :: r => if b = sep then ([], r, true) else
      let p := cut sep r
      (b :: p.1, p.2.1, p.2.2)

/-- `strings.Split(s, sep)` (never empty) -/
def splitOn (sep : UInt8) : Bytes → List Bytes
  | [] => [[]]
  | b :: r => if b = sep then [] :: splitOn sep r else
      match splitOn sep r with
      | h :: t => (b :: h) :: t
      | [] => [[b]]

/-- `strings.Join(parts, sep)` -/
def join (sep : UInt8) : List Bytes → Bytes
  | [] => []
  | [a] => a
  | a :: b :: r => a ++ sep :: join sep (b :: r)

/-! ### strconv.Atoi (64-bit int) -/

def digitsVal (ds : Bytes) : Nat := ds.foldl (fun a d => a * 10 + (d.toNat - 48)) 0

def atoiUnsigned (neg : Bool) (ds : Bytes) : Option Int :=
  if ds.isEmpty || !ds.all isDigit then none
  else
    let v := digitsVal ds
    if neg then (if v ≤ 9223372036854775808 then some (-(v : Int)) else none)
    else (if v < 9223372036854775808 then some (v : Int) else none)

/-- `strconv.Atoi`: optional sign, decimal digits only, `int64` range; `none` = error -/
def atoi : Bytes → Option Int
  | [] => none
  | b :: r => if b = 45 then atoiUnsigned true r else if b = 43 then atoiUnsigned false r else atoiUnsigned false (b :: r)

/-- decimal rendering of a natural number (`strconv.Itoa` for n ≥ 0) -/
def natToDec (n : Nat) : Bytes :=
  if n < 10 then [(48 + n).toUInt8] else natToDec (n / 10) ++ [(48 + n % 10).toUInt8]
termination_by n
decreasing_by omega

/-! ### header keys, http.Header -/

/-- `httpguts.IsTokenRune` / `textproto.validHeaderFieldByte` -/
def isTokByte (b : UInt8) : Bool :=
  (48 ≤ b && b ≤ 57) || (65 ≤ b && b ≤ 90) || (97 ≤ b && b ≤ 122)
  || b == 33 || b == 35 || b == 36 || b == 37 || b == 38 || b == 39 || b == 42 || b == 43
  || b == 45 || b == 46 || b == 94 || b == 95 || b == 96 || b == 124 || b == 126

def upperB (b : UInt8) : UInt8 := if 97 ≤ b && b ≤ 122 then b - 32 else b
def lowerB (b : UInt8) : UInt8 := if 65 ≤ b && b ≤ 90 then b + 32 else b

def canonAux : Bool → Bytes → Bytes
  | _, [] => []
  | up, b :: r => let c := if up then upperB b else lowerB b; c :: canonAux (c == 45) r

/-- `textproto.CanonicalMIMEHeaderKey` -/
def canonKey (k : Bytes) : Bytes := if k.all isTokByte then canonAux true k else k

/-- an `http.Header` whose values are all singletons, in insertion order -/
abbrev Hdrs := List (Bytes × Bytes)

def hsetRaw : Hdrs → Bytes → Bytes → Hdrs
  | [], k, v => [(k, v)]
  | (k', v') :: r, k, v => if k' = k then (k, v) :: r else (k', v') :: hsetRaw r k v

/-- `http.Header.Set` -/
def hset (h : Hdrs) (k v : Bytes) : Hdrs := hsetRaw h (canonKey k) v

def hget : Hdrs → Bytes → Option Bytes
  | [], _ => none
  | (k', v') :: r, k => if k' = k then some v' else hget r k

/-! ### decoded ammo and the request built at Acquire -/

/-- `decoders/ammo.Ammo` after `Setup` -/
structure Ammo where
  method : Bytes
  url : Bytes
  body : Bytes
  tag : Bytes
  hdrs : Hdrs
deriving DecidableEq, Repr, Inhabited

/-- `decoders/ammo.RawAmmo` after `Setup` (no configured headers) -/
structure RawAmmo where
  frame : Bytes
  tag : Bytes
deriving DecidableEq, Repr, Inhabited

/-- what the gun receives: the canonical observation of one `*http.Request` + tag -/
structure Req where
  method : Bytes
  uri : Bytes      -- `req.URL.RequestURI()`
  host : Bytes     -- `req.Host`
  hdrs : Hdrs      -- `req.Header`, sorted by key
  body : Bytes
  tag : Bytes
deriving DecidableEq, Repr, Inhabited

/-- bytewise lexicographic `<` (Go string comparison) -/
def bytesLt : Bytes → Bytes → Bool
  | [], [] => false
  | [], _ :: _ => true
  | _ :: _, [] => false
  | a :: r, b :: s => if a < b then true else if b < a then false else bytesLt r s

def insertSorted (kv : Bytes × Bytes) : Hdrs → Hdrs
  | [] => [kv]
  | x :: r => if bytesLt kv.1 x.1 then kv :: x :: r else x :: insertSorted kv r

def sortHdrs (h : Hdrs) : Hdrs := h.foldr insertSorted []

def isHex (b : UInt8) : Bool := isDigit b || (65 ≤ b && b ≤ 70) || (97 ≤ b && b ≤ 102)

/-- bytes that `url.Parse` + `URL.RequestURI()` leave untouched in a path or query -/
def isUriByte (b : UInt8) : Bool :=
  (48 ≤ b && b ≤ 57) || (65 ≤ b && b ≤ 90) || (97 ≤ b && b ≤ 122)
  || b == 45 || b == 46 || b == 95 || b == 126 || b == 47 || b == 63 || b == 61 || b == 38 || b == 43
  || b == 58 || b == 64 || b == 44 || b == 59 || b == 33 || b == 36 || b == 39 || b == 40 || b == 41 || b == 42

def uriBytesOK : Bytes → Bool
  | [] => true
  | b :: r =>
    if b == 37 then
      match r with
      | x :: y :: r2 => isHex x && isHex y && uriBytesOK r2
      | _ => false
    else isUriByte b && uriBytesOK r

/-- the class of request targets on which the model knows `net/url`: origin-form, no `//` prefix,
unreserved / sub-delims / `%XX` only.  On this class `url.Parse` succeeds and `RequestURI()` is the identity. -/
def uriOK (u : Bytes) : Bool :=
  match u with
  | 47 :: 47 :: _ => false
  | 47 :: r => uriBytesOK r
  | _ => false

def isHostByte (b : UInt8) : Bool :=
  (48 ≤ b && b ≤ 57) || (65 ≤ b && b ≤ 90) || (97 ≤ b && b ≤ 122) || b == 45 || b == 46

/-- `name` or `name:port` -/
def hostOK (h : Bytes) : Bool :=
  let p := cut COLON h
  !p.1.isEmpty && p.1.all isHostByte && (!p.2.2 || (!p.2.1.isEmpty && p.2.1.all isDigit))

def httpPrefix : Bytes := [104, 116, 116, 112, 58, 47, 47]   -- "http://"

/-- `url.Parse` as far as the model knows it: `(Host, RequestURI)`; `none` = outside the modelled class -/
def parseURL (u : Bytes) : Option (Bytes × Bytes) :=
  if uriOK u then some ([], u)
  else if httpPrefix.isPrefixOf u then
    let rest := u.drop httpPrefix.length
    let p := cut 47 rest        -- host up to the first '/'
    let host := p.1
    let path := 47 :: p.2.1
    if p.2.2 && (host.isEmpty || hostOK host) && uriOK path then some (host, path) else none
  else none

def hostKey : Bytes := [72, 111, 115, 116]    -- "Host"
def getBytes : Bytes := [71, 69, 84]          -- "GET"
def postBytes : Bytes := [80, 79, 83, 84]     -- "POST"

/-- `Ammo.BuildRequest`: `http.NewRequest` + `EnrichRequestWithHeaders` -/
def buildReq (a : Ammo) : Option Req :=
  match parseURL a.url with
  | none => none
  | some (host, ruri) =>
    let host' := if host.isEmpty then (hget a.hdrs hostKey).getD [] else host
    some { method := if a.method.isEmpty then getBytes else a.method
           uri := ruri, host := host'
           hdrs := sortHdrs (a.hdrs.filter (fun kv => kv.1 != hostKey))
           body := a.body, tag := a.tag }

/-- the provider's `headers` option (decoded by `DecodeHTTPConfigHeaders`, keys canonical) is added by the uri and
uripost decoders where the ammo file did NOT define that (canonical) key: headers of the file have priority.
(`http/json`: `header := cfg.Clone(); header.Set(k, v)` for the entity's headers — the same map.) -/
def mergeCfg (h cfg : Hdrs) : Hdrs :=
  cfg.foldl (fun acc kv => if (hget acc (canonKey kv.1)).isSome then acc else acc ++ [(canonKey kv.1, kv.2)]) h

def Ammo.withCfg (cfg : Hdrs) (a : Ammo) : Ammo := { a with hdrs := mergeCfg a.hdrs cfg }

/-- the model covers `headers` options whose canonical keys are distinct (a repeated key makes a multi-valued header) -/
def cfgDistinct : Hdrs → Bool
  | [] => true
  | kv :: r => !(r.any fun x => canonKey x.1 == canonKey kv.1) && cfgDistinct r

/-- all present, or nothing -/
def allSome {α : Type} : List (Option α) → Option (List α)
  | [] => some []
  | none :: _ => none
  | some a :: r => (allSome r).map (a :: ·)

/-! ### provider level: passes, wrap-around, limit -/

inductive Err where
  | hdrformat | emptykey | wrongsize | ammoformat | rawsize | shortread | noammo | toolong | badmethod
  | negsize     -- `readSized`: "ammo size should not be negative" (before the repair 8bca4e3: `make([]byte, n)` panicked)
  | urlclass    -- the entry's target is outside the class where the model knows `url.Parse`: outcome not predicted
deriving DecidableEq, Repr

def Err.name : Err → String
  | .hdrformat => "hdrformat" | .emptykey => "emptykey" | .wrongsize => "wrongsize" | .ammoformat => "ammoformat"
  | .rawsize => "rawsize" | .shortread => "shortread" | .noammo => "noammo" | .toolong => "toolong"
  | .badmethod => "badmethod" | .negsize => "negsize" | .urlclass => "urlclass"

/-- how one pass over the file ended -/
inductive Stop where
  | eof                 -- end of file reached: the decoder seeks to 0, resets its header accumulator and goes on
  | err (e : Err)       -- Scan returned this error
deriving DecidableEq, Repr

/-- first `k` elements of `xs` repeated for ever (`[]` when `xs = []`) -/
def cycleTake {α : Type} (xs : List α) (k : Nat) : List α := ((List.replicate k xs).flatten).take k

/-- what the provider delivers with `Limit = k` when every pass over the (unchanged) file yields
`(items, stop)`: full scan mode re-reads the file, preload mode scans once and cycles the loaded slice.
`k` counts the requests handed out: Go's `Limit = 0` means "no limit", the stream then never ends and `deliver … k` is
its first `k` requests (`C07_limit_prefix`: deliveries under growing limits extend each other; the harness also runs the
real provider with `Limit = 0` and takes `k` requests). -/
def deliver {α : Type} (pass : List α × Stop) (k : Nat) (preload : Bool) : List α × Stop :=
  match pass.2 with
  | .eof => if pass.1.isEmpty then ([], .err .noammo) else (cycleTake pass.1 k, .eof)
  | s => if preload then ([], s) else if k ≤ pass.1.length then (pass.1.take k, .eof) else (pass.1, s)

/-! ### formats: entries, layouts, renderer -/

inductive Fmt where | uri | uripost | raw
deriving DecidableEq, Repr

/-- one entry of an ammo file -/
inductive Item where
  | hdr (key val : Bytes)            -- `[key: val]`   (uri, uripost)
  | req (uri tag body : Bytes)       -- `uri tag` (uri) / `size uri tag ⏎ body` (uripost)
  | frame (tag frame : Bytes)        -- `size tag ⏎ frame` (raw)
deriving DecidableEq, Repr

/-- layout freedom around one entry -/
structure ItemLay where
  pre : Bytes := []        -- blanks before the line
  post : Bytes := []       -- blanks after the line, before its newline (a final `\r` gives CRLF)
  i1 : Bytes := []         -- `[` i1 key i2 `:` i3 val i4 `]`
  i2 : Bytes := []
  i3 : Bytes := []
  i4 : Bytes := []
  blanks : List Bytes := []   -- blank lines after the entry (each: blanks + newline)
  szPlus : Bool := false      -- the size field of a uripost / raw entry is written with a leading `+` (`strconv.Atoi` reads it)
  szZeros : Nat := 0          -- … with this many leading zeros (fixed-width sizes such as `010`: decimal ten)
deriving DecidableEq, Repr, Inhabited

structure Layout where
  lead : List Bytes := []     -- blank lines before the first entry
  per : List ItemLay := []    -- per entry (missing ones: default)
  finalNL : Bool := true      -- false: nothing follows the last entry's line (uripost/raw: its body)
  trail : Bytes := []         -- blanks without newline at the very end (only with `finalNL`)
deriving DecidableEq, Repr, Inhabited

def renderBlanks : List Bytes → Bytes
  | [] => []
  | b :: r => b ++ LF :: renderBlanks r

/-- the size field of a uripost / raw entry as its author may spell it: an optional `+` and any number of leading zeros
in front of the decimal digits (all of it is what `strconv.Atoi` reads as the same number) -/
def sizeText (l : ItemLay) (n : Nat) : Bytes :=
  (if l.szPlus then [43] else []) ++ (List.replicate l.szZeros 48 ++ natToDec n)

/-- the line of an entry, without surrounding blanks -/
def content (f : Fmt) (it : Item) (l : ItemLay) : Bytes :=
  match it with
  | .hdr k v => LBR :: (l.i1 ++ k ++ l.i2 ++ COLON :: (l.i3 ++ v ++ l.i4 ++ [RBR]))
  | .req uri tag body =>
    (if f = .uripost then sizeText l body.length ++ [SP] else []) ++ uri ++ (if tag.isEmpty then [] else SP :: tag)
  | .frame tag fr => sizeText l fr.length ++ (if tag.isEmpty then [] else SP :: tag)

/-- the bytes that follow the entry's line (size-prefixed block) -/
def payload (f : Fmt) : Item → Bytes
  | .hdr _ _ => []
  | .req _ _ body => if f = .uripost then body else []
  | .frame _ fr => fr

def renderItems (f : Fmt) (finalNL : Bool) (trail : Bytes) : List Item → List ItemLay → Bytes
  | [], _ => trail
  | [it], per =>
    let l := per.headD ({} : ItemLay)
    let line := l.pre ++ content f it l ++ l.post
    if finalNL then line ++ LF :: (payload f it ++ renderBlanks l.blanks ++ trail)
    else if (payload f it).isEmpty then line else line ++ LF :: payload f it
  | it :: it2 :: rest, per =>
    let l := per.headD ({} : ItemLay)
    l.pre ++ content f it l ++ l.post ++ LF :: (payload f it ++ renderBlanks l.blanks
      ++ renderItems f finalNL trail (it2 :: rest) per.tail)

/-- the ammo file for `items` in format `f` with layout `lay` -/
def render (f : Fmt) (items : List Item) (lay : Layout) : Bytes :=
  renderBlanks lay.lead ++ renderItems f lay.finalNL lay.trail items lay.per

/-! ### well-formedness (decidable) -/

/-- `p` is a sequence of white-space runes (the fuel bounds the number of runes) -/
def wsRunesAux : Nat → Bytes → Bool
  | _, [] => true
  | 0, _ :: _ => false
  | n + 1, b :: r => spWidth (b :: r) != 0 && wsRunesAux n ((b :: r).drop (spWidth (b :: r)))

/-- every rune of `p` is white space in the sense of `strings.TrimSpace` (`unicode.IsSpace`): the ASCII blanks and
U+0085, U+00A0, U+1680, U+2000–U+200A, U+2028, U+2029, U+202F, U+205F, U+3000 -/
def wsRunes (p : Bytes) : Bool := wsRunesAux p.length p

/-- blanks: white-space runes (ASCII or not) other than newline -/
def padOK (p : Bytes) : Bool := wsRunes p && !p.contains LF

def itemLayOK (l : ItemLay) : Bool :=
  padOK l.pre && padOK l.post && padOK l.i1 && padOK l.i2 && padOK l.i3 && padOK l.i4 && l.blanks.all padOK

def layoutOK (lay : Layout) : Bool :=
  lay.lead.all padOK && lay.per.all itemLayOK && padOK lay.trail

/-- no white-space rune at either end (`TrimSpace s = s`) and no newline inside -/
def edgesOK (s : Bytes) : Bool := spWidth s == 0 && spWidthRev s.reverse == 0
def noLF (s : Bytes) : Bool := !s.contains LF

/-- a tag: one line, does not end in white space (inner and leading spaces are fine) -/
def tagOK (t : Bytes) : Bool := noLF t && spWidthRev t.reverse == 0

/-- framing-level condition on a request target: non-empty, one token (no space, no newline),
starts with an ASCII byte that is neither white space nor `[`, does not end in white space -/
def targetOK (u : Bytes) : Bool :=
  match u with
  | [] => false
  | b :: _ => b < 128 && !isAsciiWs b && b != LBR && noLF u && !u.contains SP && spWidthRev u.reverse == 0

def hdrKeyOK (k : Bytes) : Bool := !k.isEmpty && noLF k && !k.contains COLON && edgesOK k
def hdrValOK (v : Bytes) : Bool := noLF v && edgesOK v

def sizeOK (n : Nat) : Bool := n < 9223372036854775808

def itemOK (f : Fmt) : Item → Bool
  | .hdr k v => f != .raw && hdrKeyOK k && hdrValOK v
  | .req u t b => f != .raw && targetOK u && tagOK t && sizeOK b.length
  | .frame t fr => f == .raw && tagOK t && !fr.isEmpty && sizeOK fr.length

def itemsOK (f : Fmt) (items : List Item) : Bool := items.all (itemOK f)

end Pandora.Model.C07
