/-
C07 — what a raw frame SAYS: the HTTP/1.x request text inside a size-prefixed frame of the raw format, read the way
`raw.DecodeRequest` (= `net/http.ReadRequest` on the frame bytes) reads it, on the class of PLAIN frames:

    METHOD SP target SP HTTP/1.x EOL  (Key: value EOL)*  EOL  body

* lines end in LF, one CR before it is dropped (`textproto.Reader.ReadLine`);
* a header line is cut at its first `:`, the key must consist of token bytes and is canonicalised
  (`textproto.CanonicalMIMEHeaderKey`), the value loses blanks (SP, TAB) at both ends and must consist of TAB and
  bytes from 0x20 on except DEL; a line that starts with a blank would continue the previous one: outside the class;
* the blank line ends the header block; with one `Content-Length: n` the body is the next n bytes (what is there when
  fewer), without one there is no body, whatever the method;
* `Host` is the authority of an absolute-form target, else the `Host` line (removed from the header set);
* header lines with the same canonical key make one multi-valued header, values in file order.

Outside the class (`none`): continuation lines, `Transfer-Encoding`, `Trailer`, `Pragma`, repeated `Host` or
`Content-Length`, the methods `CONNECT` and `PRI`, an HTTP version other than 1.0 / 1.1, a target outside the class where
the model knows `net/url` (`parseURL`) — for those the harness' table (the real `http.ReadRequest`) stands in.
Core Lean only.
-/
import Pandora.Model.C07

namespace Pandora.Model.C07

def TAB : UInt8 := 9

def isBlank (b : UInt8) : Bool := b == SP || b == TAB

/-- `textproto`'s `trim` / `bytes.TrimLeft(v, " \t")`: SP and TAB off both ends -/
def trimBlank (s : Bytes) : Bytes := ((s.dropWhile isBlank).reverse.dropWhile isBlank).reverse

/-- `textproto.validHeaderValueByte`: HTAB, SP, VCHAR, obs-text -/
def isValueByte (b : UInt8) : Bool := b == TAB || (32 ≤ b && b != 127)

def http11 : Bytes := [72, 84, 84, 80, 47, 49, 46, 49]   -- "HTTP/1.1"
def http10 : Bytes := [72, 84, 84, 80, 47, 49, 46, 48]   -- "HTTP/1.0"
def connectBytes : Bytes := [67, 79, 78, 78, 69, 67, 84]   -- "CONNECT"
def priBytes : Bytes := [80, 82, 73]                       -- "PRI"
def clKey : Bytes := [67, 111, 110, 116, 101, 110, 116, 45, 76, 101, 110, 103, 116, 104]   -- "Content-Length"
def teKey : Bytes := [84, 114, 97, 110, 115, 102, 101, 114, 45, 69, 110, 99, 111, 100, 105, 110, 103]   -- "Transfer-Encoding"
def trailerKey : Bytes := [84, 114, 97, 105, 108, 101, 114]   -- "Trailer"
def pragmaKey : Bytes := [80, 114, 97, 103, 109, 97]          -- "Pragma"

/-- the header block: `(canonical key, value)` per line in file order, and what follows the blank line -/
def frameHdrs (bs : Bytes) : Option (List (Bytes × Bytes) × Bytes) :=
  match bs with
  | [] => none                       -- end of the frame before the blank line
  | b :: r =>
    let p := cut LF (b :: r)
    if !p.2.2 then none
    else
      match dropCR p.1 with
      | [] => some ([], p.2.1)
      | c :: l =>
        if isBlank c then none         -- a continuation line
        else
          let kv := cut COLON (c :: l)
          if !kv.2.2 || kv.1.isEmpty || !kv.1.all isTokByte || !kv.2.1.all isValueByte then none
          else
            match frameHdrs p.2.1 with
            | none => none
            | some (hs, body) => some ((canonAux true kv.1, trimBlank kv.2.1) :: hs, body)
termination_by bs.length
decreasing_by exact cut_rest_lt LF b r

/-- the lines of a frame: method, target, header lines, the bytes after the blank line -/
def frameLines (frame : Bytes) : Option (Bytes × Bytes × List (Bytes × Bytes) × Bytes) :=
  let p := cut LF frame
  if !p.2.2 then none
  else
    let m := cut SP (dropCR p.1)
    let t := cut SP m.2.1
    if !m.2.2 || !t.2.2 then none
    else if !(t.2.1 == http11 || t.2.1 == http10) then none
    else if m.1.isEmpty || !m.1.all isTokByte || m.1 == connectBytes || m.1 == priBytes then none
    else
      match frameHdrs p.2.1 with
      | none => none
      | some (hs, rest) => some (m.1, t.1, hs, rest)

/-- the request a frame denotes (headers may be multi-valued) -/
structure FReq where
  method : Bytes
  uri : Bytes
  host : Bytes
  hdrs : List (Bytes × List Bytes)     -- sorted by key; the values of one key in file order
  body : Bytes
deriving DecidableEq, Repr, Inhabited

/-- the values of key `k`, in order -/
def hdrVals (hs : List (Bytes × Bytes)) (k : Bytes) : List Bytes := (hs.filter (fun kv => kv.1 == k)).map (·.2)

def insertKey (k : Bytes) : List Bytes → List Bytes
  | [] => [k]
  | x :: r => if k == x then x :: r else if bytesLt k x then k :: x :: r else x :: insertKey k r

/-- the distinct keys, sorted -/
def sortedKeys (hs : List (Bytes × Bytes)) : List Bytes := hs.foldr (fun kv acc => insertKey kv.1 acc) []

/-- `http.Header` built by `Add` in file order, printed with sorted keys -/
def groupHdrs (hs : List (Bytes × Bytes)) : List (Bytes × List Bytes) := (sortedKeys hs).map fun k => (k, hdrVals hs k)

/-- `Content-Length` as `net/http` reads it: decimal digits only, below 2^63 -/
def contentLen (v : Bytes) : Option Nat :=
  if v.isEmpty || !v.all isDigit then none
  else if digitsVal v < 9223372036854775808 then some (digitsVal v) else none

/-- request line + header lines + rest ↦ the request -/
def frameInterp (method target : Bytes) (hs : List (Bytes × Bytes)) (rest : Bytes) : Option FReq :=
  match parseURL target with
  | none => none
  | some (uhost, ruri) =>
    let hosts := hdrVals hs hostKey
    if 1 < hosts.length || hs.any (fun kv => kv.1 == teKey || kv.1 == trailerKey || kv.1 == pragmaKey) then none
    else
      let n : Option Nat :=
        match hdrVals hs clKey with
        | [] => some 0
        | [v] => contentLen v
        | _ => none
      match n with
      | none => none
      | some n =>
        some { method := method, uri := ruri
               host := if uhost.isEmpty then hosts.head?.getD [] else uhost
               hdrs := groupHdrs (hs.filter fun kv => kv.1 != hostKey)
               body := rest.take n }

/-- the request of a plain frame -/
def frameReq (frame : Bytes) : Option FReq :=
  match frameLines frame with
  | none => none
  | some (m, t, hs, rest) => frameInterp m t hs rest

/-! ### how an author writes a request into a frame -/

/-- a request as written: the header lines in the order written (a `Content-Length` line, when there is a body, is
among them or added by `renderFrame`) -/
structure FrameSrc where
  method : Bytes
  target : Bytes
  v11 : Bool := true                     -- HTTP/1.1 or HTTP/1.0
  hdrs : List (Bytes × Bytes) := []      -- `Key: value` lines (no Content-Length among them)
  body : Option Bytes := none            -- `some b`: a `Content-Length: |b|` line is written after the others, then b
  crlf : Bool := true                    -- line ends: CRLF or LF
  gap : Bytes := [SP]                    -- blanks between `:` and the value
deriving Repr, Inhabited

def eol (crlf : Bool) : Bytes := if crlf then [CR, LF] else [LF]

def hdrLine (crlf : Bool) (gap : Bytes) (kv : Bytes × Bytes) : Bytes := kv.1 ++ COLON :: (gap ++ kv.2 ++ eol crlf)

def hdrBlock (crlf : Bool) (gap : Bytes) : List (Bytes × Bytes) → Bytes
  | [] => []
  | kv :: r => hdrLine crlf gap kv ++ hdrBlock crlf gap r

/-- all header lines of the frame, the `Content-Length` line included -/
def FrameSrc.lines (q : FrameSrc) : List (Bytes × Bytes) :=
  q.hdrs ++ (match q.body with | none => [] | some b => [(clKey, natToDec b.length)])

def renderFrame (q : FrameSrc) : Bytes :=
  q.method ++ SP :: (q.target ++ SP :: ((if q.v11 then http11 else http10) ++ eol q.crlf
    ++ (hdrBlock q.crlf q.gap q.lines ++ (eol q.crlf ++ q.body.getD []))))

/-- a header value as an author may write it: no control bytes (in particular no CR / LF), no blank at either end -/
def valOK (v : Bytes) : Bool :=
  v.all isValueByte && (v.head?.all fun b => !isBlank b) && (v.getLast?.all fun b => !isBlank b)

def keyOK (k : Bytes) : Bool := !k.isEmpty && k.all isTokByte

/-- the frames the round trip speaks about -/
def srcOK (q : FrameSrc) : Bool :=
  keyOK q.method && q.method != connectBytes && q.method != priBytes
    && !q.target.contains SP && !q.target.contains LF
    && q.hdrs.all (fun kv => keyOK kv.1 && valOK kv.2)
    && q.gap.all isBlank
    && (q.body.all fun b => b.length < 9223372036854775808)

/-- header lines as `frameHdrs` reports them: canonical key, value as written -/
def canonLines (hs : List (Bytes × Bytes)) : List (Bytes × Bytes) := hs.map fun kv => (canonAux true kv.1, kv.2)

/-- … whose meaning the model knows completely: a target `parseURL` knows, no line that changes how the body is
framed (`Content-Length` is written by `renderFrame`, `Transfer-Encoding`, `Trailer`) or adds headers (`Pragma`), at
most one `Host` line -/
def srcPlain (q : FrameSrc) : Bool :=
  (parseURL q.target).isSome
    && q.hdrs.all (fun kv => canonAux true kv.1 != clKey && canonAux true kv.1 != teKey
                      && canonAux true kv.1 != trailerKey && canonAux true kv.1 != pragmaKey)
    && decide ((hdrVals (canonLines q.hdrs) hostKey).length ≤ 1)

/-- the request the author's description denotes: method and target as written; Host = the authority of an
absolute-form target, else the `Host` line; every other header line (and the `Content-Length` of the body) under its
canonical name, same names merged in file order; the body as written -/
def srcReq (q : FrameSrc) : FReq :=
  let tp := (parseURL q.target).getD ([], q.target)
  { method := q.method, uri := tp.2
    host := if tp.1.isEmpty then (hdrVals (canonLines q.hdrs) hostKey).head?.getD [] else tp.1
    hdrs := groupHdrs ((canonLines q.lines).filter fun kv => kv.1 != hostKey)
    body := q.body.getD [] }

end Pandora.Model.C07
