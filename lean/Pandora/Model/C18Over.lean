/-
C18 round 4 — STRUCTURED OPTIONS of a plugin configuration and the config decoder as fillConf.

`Model/C18` sees a configuration as a finite map field ↦ integer and the fillConf of a creation as "writes the user's
settings over the fields it names" (`w.user ++ current`).  Through the config hooks the fillConf is `config.Decode`
(mapstructure with the DecoderConfig of core/config `newDecoderConfig`: ZeroFields = false, ErrorUnused = true,
WeaklyTypedInput = false), and a config type has options of every kind: scalars, MAPS, LISTS (slices), ARRAYS, POINTERS
to nested structs — and the user may write an option down as an explicit NULL (`opt:` / `opt: ~`).

This file models what that decoder does with one option of each kind (`decode zf d u`, `zf` = the ZeroFields flag, so
that the flag's meaning is part of the model), gives every configuration its SEMANTICS as a function field ↦ integer
(`sem`, unbounded: map key k is field 20+2k, list element i field 21+2i), and says which fields the user's settings
NAME and with which value (`semSet`).  `Props/C18` proves `sem (decode false d u) f = (semSet u f).getD (sem d f)` for
every field — the decoder IS "defaults overlaid by the user's settings, field by field" — and that this fails for
`zf = true`.  `flat` / `flatSet` are the finite `Cfg`s over the fields a driver case prints; they plug the structured
options into `Model.C18.run` unchanged.

mapstructure facts modelled (v1.5.1, `decode`, `decodeMap`/`decodeMapFromMap`, `decodeSlice`, `decodeArray`,
`decodePtr`, `decodeStructFromMap`):
* nil input: nothing is set — with ZeroFields the target is set to its zero value;
* map: written into the EXISTING map (a new one when it is nil or with ZeroFields); an empty non-nil input leaves an
  existing map alone;
* slice: the result has the input's length; element i is decoded into the existing element i (zero when there is
  none, or with ZeroFields: into a new zeroed slice);
* array: decoded element-wise into the existing array (with ZeroFields, or when the array is all-zero: into a new one);
* pointer to struct: decoded into the struct pointed to (a new one when nil or with ZeroFields); only the given
  fields of a struct are written.
-/
import Pandora.Model.C18

namespace Pandora.Model.C18Over
open Pandora.Model.C18

/-- how the user wrote an option down -/
inductive Opt (α : Type) where
  | absent          -- the key is not there
  | null            -- `opt:` / `opt: ~`
  | val (v : α)
deriving Repr

structure Inner where
  x : Int
  y : Int
deriving Repr, DecidableEq

/-- a structured configuration: three scalars, a map (keys are numbers: k0, k1, …; first binding wins), a list, an
array of three, a pointer to a nested struct -/
structure OCfg where
  a : Int
  b : Int
  c : Int
  m : Option (List (Nat × Int))     -- none = nil map
  l : Option (List Int)             -- none = nil slice
  r0 : Int
  r1 : Int
  r2 : Int
  p : Option Inner
deriving Repr

/-- the user's settings -/
structure OSet where
  a : Opt Int
  b : Opt Int
  c : Opt Int
  m : Opt (List (Nat × Int))            -- the keys given
  l : Opt (List (Option Int))           -- an element may be null
  r : Opt (List (Option Int))           -- at most three elements
  p : Opt (Option Int × Option Int)     -- which fields of the nested struct are given

def OCfg.zero : OCfg := ⟨0, 0, 0, none, none, 0, 0, 0, none⟩
def OSet.none : OSet := ⟨.absent, .absent, .absent, .absent, .absent, .absent, .absent⟩

/-! ### the decoder (`zf` = DecoderConfig.ZeroFields) -/

def decScalar (zf : Bool) (d : Int) : Opt Int → Int
  | .absent => d
  | .null => if zf then 0 else d
  | .val v => v

def decMap (zf : Bool) (d : Option (List (Nat × Int))) : Opt (List (Nat × Int)) → Option (List (Nat × Int))
  | .absent => d
  | .null => if zf then none else d
  | .val es => some (es ++ (if zf then [] else d.getD []))

def decElem (zf : Bool) (base : List Int) (i : Nat) : Option Int → Int
  | some v => v
  | none => if zf then 0 else base.getD i 0

def decList (zf : Bool) (d : Option (List Int)) : Opt (List (Option Int)) → Option (List Int)
  | .absent => d
  | .null => if zf then none else d
  | .val xs => some (xs.mapIdx fun i x => decElem zf (d.getD []) i x)

/-- element `i` of the array (current value `dv`) -/
def decArrAt (zf : Bool) (dv : Int) (i : Nat) : Opt (List (Option Int)) → Int
  | .absent => dv
  | .null => if zf then 0 else dv
  | .val xs =>
    match xs[i]? with
    | some (some v) => v
    | _ => if zf then 0 else dv

def decPtr (zf : Bool) (d : Option Inner) : Opt (Option Int × Option Int) → Option Inner
  | .absent => d
  | .null => if zf then none else d
  | .val (x, y) =>
    let base : Inner := if zf then ⟨0, 0⟩ else d.getD ⟨0, 0⟩
    some ⟨x.getD base.x, y.getD base.y⟩

/-- `config.Decode(settings, &conf)` -/
def decode (zf : Bool) (d : OCfg) (u : OSet) : OCfg :=
  { a := decScalar zf d.a u.a, b := decScalar zf d.b u.b, c := decScalar zf d.c u.c,
    m := decMap zf d.m u.m, l := decList zf d.l u.l,
    r0 := decArrAt zf d.r0 0 u.r, r1 := decArrAt zf d.r1 1 u.r, r2 := decArrAt zf d.r2 2 u.r,
    p := decPtr zf d.p u.p }

/-! ### semantics: a configuration as field ↦ integer -/

def mapGet (m : List (Nat × Int)) (k : Nat) : Int := (List.lookup k m).getD 0

/-- fields: 1 2 3 the scalars, 8 9 10 the array, 11 (1 = the pointer is not nil) 12 13 the nested struct, 14 the
list's length, 20+2k map key k, 21+2i list element i -/
def sem (c : OCfg) (f : Nat) : Int :=
  if f = 1 then c.a else if f = 2 then c.b else if f = 3 then c.c
  else if f = 8 then c.r0 else if f = 9 then c.r1 else if f = 10 then c.r2
  else if f = 11 then (if c.p.isSome then 1 else 0)
  else if f = 12 then (c.p.getD ⟨0, 0⟩).x
  else if f = 13 then (c.p.getD ⟨0, 0⟩).y
  else if f = 14 then ((c.l.getD []).length : Int)
  else if 20 ≤ f then
    if f % 2 = 0 then mapGet (c.m.getD []) ((f - 20) / 2) else (c.l.getD []).getD ((f - 21) / 2) 0
  else 0

def setScalar : Opt Int → Option Int
  | .val v => some v
  | _ => none

def setArrAt (i : Nat) : Opt (List (Option Int)) → Option Int
  | .val xs => (match xs[i]? with | some (some v) => some v | _ => none)
  | _ => none

/-- which value the user's settings give field `f` (none: the settings do not name it).  A list setting REPLACES the
list: it names the length and every element — the given value, nothing for a null element (the default at that index
stays), zero for every index past its end. -/
def semSet (u : OSet) (f : Nat) : Option Int :=
  if f = 1 then setScalar u.a else if f = 2 then setScalar u.b else if f = 3 then setScalar u.c
  else if f = 8 then setArrAt 0 u.r else if f = 9 then setArrAt 1 u.r else if f = 10 then setArrAt 2 u.r
  else if f = 11 then (match u.p with | .val _ => some 1 | _ => none)
  else if f = 12 then (match u.p with | .val (x, _) => x | _ => none)
  else if f = 13 then (match u.p with | .val (_, y) => y | _ => none)
  else if f = 14 then (match u.l with | .val xs => some (xs.length : Int) | _ => none)
  else if 20 ≤ f then
    if f % 2 = 0 then (match u.m with | .val es => List.lookup ((f - 20) / 2) es | _ => none)
    else (match u.l with
          | .val xs => (match xs[(f - 21) / 2]? with | some (some v) => some v | some none => none | none => some 0)
          | _ => none)
  else none

/-- "the registered defaults overlaid by the user's settings", field by field -/
def overlaid (d : OCfg) (u : OSet) (f : Nat) : Int := (semSet u f).getD (sem d f)

/-! ### the finite `Cfg`s of a driver case -/

/-- a configuration over the listed fields -/
def flat (fields : List Nat) (c : OCfg) : Cfg := fields.map fun f => (f, sem c f)

/-- the user's settings over the listed fields: exactly the fields they name -/
def flatSet (fields : List Nat) (u : OSet) : Cfg := fields.filterMap fun f => (semSet u f).map fun v => (f, v)

/-- the fields a driver case prints after Mark/A/B/C: map keys k0..k3, the array, the pointer, the list's length and
its first four elements -/
def extFields : List Nat := [20, 22, 24, 26, 8, 9, 10, 11, 12, 13, 14, 21, 23, 25, 27]

def allFields : List Nat := [1, 2, 3] ++ extFields

end Pandora.Model.C18Over
