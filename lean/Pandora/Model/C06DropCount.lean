/-
C06 (ii') — the drop counter of `Reporter` under concurrent reporters (core/aggregator/reporter.go `dropSample`):

    dropped := a.samplesDropped.Inc()          -- go.uber.org/atomic: ONE atomic read-modify-write
    if dropped == 1 { warn }

The queue model (`Model.C06AggQueue`) takes a dropped Report as one event. That is right only because the counter is
bumped by a single atomic operation: here the reporters are threads that take ATOMIC STEPS (a load, a store, a
compare-and-swap, an atomic increment) in any interleaving, and the variants say which steps a `dropSample` is made of.
An event names the thread that takes its next step.
-/
namespace Pandora.Model.C06DropCount

inductive Variant
  | inc            -- the code: `samplesDropped.Inc()`
  | loadStore      -- `Store(Load() + 1)`: two atomic steps
  | casRetryOnce   -- `CompareAndSwap(Load(), Load()+1)`, retried ONCE when it lost the race
  deriving DecidableEq, Repr

structure Th where
  pc : Nat := 0      -- 0: not inside `dropSample`
  loc : Nat := 0     -- the value this thread loaded
  deriving DecidableEq, Repr

structure St where
  c : Nat := 0               -- `samplesDropped`
  th : Nat → Th := fun _ => {}
  done : Nat := 0            -- `dropSample` calls completed (= samples dropped)
  first : Nat := 0           -- calls that saw `dropped == 1` (the "first sample is dropped" warning)

def setTh (f : Nat → Th) (t : Nat) (x : Th) : Nat → Th := fun k => if k = t then x else f k

def step (v : Variant) (st : St) (t : Nat) : St :=
  let me := st.th t
  match v with
  | .inc => { st with c := st.c + 1, done := st.done + 1, first := st.first + (if st.c + 1 = 1 then 1 else 0) }
  | .loadStore =>
    if me.pc = 0 then { st with th := setTh st.th t { pc := 1, loc := st.c } }
    else { st with c := me.loc + 1, done := st.done + 1, first := st.first + (if me.loc + 1 = 1 then 1 else 0),
                   th := setTh st.th t {} }
  | .casRetryOnce =>
    if me.pc = 0 then { st with th := setTh st.th t { pc := 1, loc := st.c } }
    else if me.pc = 1 then
      if st.c = me.loc then
        { st with c := me.loc + 1, done := st.done + 1, first := st.first + (if me.loc + 1 = 1 then 1 else 0),
                  th := setTh st.th t {} }
      else { st with th := setTh st.th t { pc := 2, loc := me.loc } }
    else if me.pc = 2 then { st with th := setTh st.th t { pc := 3, loc := st.c } }
    else
      { st with c := (if st.c = me.loc then me.loc + 1 else st.c), done := st.done + 1,
                first := st.first + (if me.loc + 1 = 1 then 1 else 0), th := setTh st.th t {} }

def run (v : Variant) (st : St) : List Nat → St
  | [] => st
  | t :: ts => run v (step v st t) ts

end Pandora.Model.C06DropCount
