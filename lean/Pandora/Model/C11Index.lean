/-
C11 (round 4) — the index arithmetic behind the shared counters, as closed forms.

`rows[next]` of a variable source, and the round-robin cursor of the shared client pool, turn a counter that ALL
instances increment into a slice index. An index outside the slice is a runtime fault ("index out of range") in every
instance that comes by; whether it can happen depends on the representation of the counter and on the conversions
between the counter and the index — for counter values no test reaches. The bodies of the three functions are
regenerated from the source (`Gen.Locks.calcIndexBody`, `iterNextBody`, `poolNextBody`); `Bridge/C11Locks.lean` proves
them equal to the closed forms below, `Props/C11.lean` states the theorems on the regenerated bodies.
-/
import Pandora.Model.C11Ns

namespace Pandora.Model.C11
open Pandora.Go

/-- the kinds of index `lib/mp.calcIndex` understands -/
inductive IdxKind where
  | num (i : Int)   -- `rows[7]`, `rows[-2]`
  | next | rand | last
  | bad             -- anything else: an error
  deriving Repr, DecidableEq

/-- `int(x)` of a `uint64` that has received `ctr` increments -/
def ctrAsInt (ctr : Int) : Int := goWrap 64 true (goWrap 64 false ctr)

/-- `(*NextIterator).Next`: the first use of a segment creates its counter and yields 0; every later use increments the
counter and yields it as an `int` -/
def iterNext (seen : Bool) (ctr : Int) : Int := if seen then ctrAsInt ctr else 0

/-- `lib/mp.calcIndex` (`none` = error) -/
def calcIndexM (k : IdxKind) (length nextV randV : Int) : Option Int :=
  match k with
  | .bad => none
  | .num i =>
    if length ≤ 0 then none
    else if 0 ≤ i ∧ i < length then some i
    else some (if Int.tmod i length < 0 then Int.tmod i length + length else Int.tmod i length)
  | .last => if length ≤ 0 then none else some (length - 1)
  | .rand => if length ≤ 0 then none else some randV
  | .next => if length ≤ 0 then none else some (if nextV ≥ length then Int.tmod nextV length else nextV)

/-- what `calcIndex` makes of its index string: `atoiErr` = `strconv.Atoi` failed -/
def idxKindOf (indexStr : String) (atoi : Int) (atoiErr : Bool) : IdxKind :=
  if indexStr = "next" then .next else if indexStr = "rand" then .rand else if indexStr = "last" then .last
  else if atoiErr then .bad else .num atoi

/-- `(*clientpool.Pool).Next` with `n` clients after `ctr` increments of the cursor -/
def poolNext (n ctr : Int) : Option Int := if n = 0 then none else some (Int.tmod (ctrAsInt ctr) n)

/-- the index the use number `k` (0, 1, 2, …) of `rows[next]` yields over `length` rows: use 0 creates the counter, use
`k ≥ 1` is its `k`-th increment -/
def nextIndex (k : Nat) (length : Int) : Option Int := calcIndexM .next length (iterNext (k != 0) k) 0

end Pandora.Model.C11
