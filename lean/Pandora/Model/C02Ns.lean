/-
Core-only anchor for the regenerated lock facts of `compositeSchedule` (`Pandora/Gen/C02Locks.lean`, area
`c02locks` of /verif/gen): the translator opens the namespaces `Pandora` and `Pandora.Go` in every regenerated
file; the row types of the table live here.
-/
namespace Pandora.Go

/-- what the goroutine holds of `compositeSchedule.rwMu` at an access -/
inductive C02Lock where
  | none
  | R          -- between RLock and RUnlock
  | W          -- between Lock and Unlock (or a deferred Unlock)
  | caller     -- inside `startNext`: whatever the caller holds
  deriving DecidableEq, Repr

/-- the accesses of the methods of `compositeSchedule` that matter for atomicity -/
inductive C02Acc where
  | childNext | childLeft | childStart        -- `s.scheds[0].Next()` …
  | readScheds | readLeftAfter               -- `len(s.scheds)`, `s.scheds[0]`, `s.leftAfter[0]`
  | writeScheds | writeLeftAfter             -- `s.scheds = s.scheds[1:]` …
  | startedStore | startedLoad               -- the atomic flag
  | hook (name : String)                     -- `verifhook.At(name)`: a scheduling point of the harness
  | retry                                    -- `return s.Next()` / `return s.Left()`
  | callStartNext
  | panic
  deriving DecidableEq, Repr

structure C02Row where
  fn : String
  acc : C02Acc
  lock : C02Lock
  deriving DecidableEq, Repr

end Pandora.Go
