/-
Core-only anchor for the regenerated lock facts of `compositeSchedule` (`Pandora/Gen/C02Locks.lean`, area
`c02locks` of /verif/gen): the translator opens the namespaces `Pandora` and `Pandora.Go` in every regenerated
file; the row types of the table live here.
-/
namespace Pandora.Go

/-- what the goroutine holds of `compositeSchedule.rwMu` at an access -/
inductive C02Lock where
  | none
  | R          -- between RLock and RUnlock
  | W          -- between Lock and Unlock (or a deferred Unlock)
  | caller     -- inside `startNext`: whatever the caller holds
  deriving DecidableEq, Repr

/-- the accesses of the methods of `compositeSchedule` that matter for atomicity -/
inductive C02Acc where
  | childNext | childLeft | childStart        -- `s.scheds[0].Next()` …
  | readScheds | readLeftAfter               -- `len(s.scheds)`, `s.scheds[0]`, `s.leftAfter[0]`
  | writeScheds | writeLeftAfter             -- `s.scheds = s.scheds[1:]` …
  | startedStore | startedLoad               -- the atomic flag
  | hook (name : String)                     -- `verifhook.At(name)`: a scheduling point of the harness
  | retry                                    -- `return s.Next()` / `return s.Left()`
  | callStartNext
  | panic
  deriving DecidableEq, Repr

structure C02Row where
  fn : String
  acc : C02Acc
  lock : C02Lock
  deriving DecidableEq, Repr

/-! rows of `Pandora/Gen/C02Cb.lean` (area `c02cb`: core/coreutil/schedule.go) -/

/-- path condition on the results of the wrapped call -/
inductive C02CbCond where
  | always
  | notOk | isOk            -- second result of `Next`
  | eqZero | neZero         -- result of `Left`
  | other (src : String)
  deriving DecidableEq, Repr

inductive C02CbAct where
  /-- `s.<x>.Do(s.<fn>)` with the type of the field `x` -/
  | guardedCall (guardType : String) (fn : String)
  | nothing
  | other (src : String)
  deriving DecidableEq, Repr

structure C02CbRow where
  method : String
  inner : String
  cond : C02CbCond
  act : C02CbAct
  deriving DecidableEq, Repr

/-! used by `Pandora/Gen/C02Src.lean` (area `c02src`: core/schedule/composite.go) -/

/-- what `compositeSchedule.Left` does after its reader section -/
inductive C02LeftAct where
  | ret (n : Int)
  | shift              -- the writer section, then `return s.Left()`
  deriving DecidableEq, Repr

/-- the value a signed machine integer of `bits` bits holds after computing `x` (two's complement wrap-around: what Go's
+, -, * and integer conversions do) -/
def wrapInt (bits : Nat) (x : Int) : Int := (x + 2 ^ (bits - 1)) % 2 ^ bits - 2 ^ (bits - 1)

end Pandora.Go
