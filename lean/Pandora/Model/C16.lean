/-
Model C16: the two front-ends of the scenario provider (`components/providers/scenario/config`).

  YAML path   file --yaml.Unmarshal--> generic map --config.DecodeAndValidate--> AmmoConfig
  HCL  path   file --gohcl.DecodeBody--> AmmoHCL --yaml.Marshal--> text --yaml.Unmarshal--> generic map
                   --config.DecodeAndValidate--> AmmoConfig                      (`ConvertHCLToAmmo`)

Everything is parametrised by the struct/tag tables (`Tables`), which `/verif/gen -area hclyaml` regenerates from the
source (`Pandora/Gen/HclYaml.lean`):

* `V`        one tree type for (a) the evaluated description = the value gohcl stores into the HCL structs, keyed by
             the names of the `hcl` tags, `null` = nil pointer / absent block, (b) YAML documents, (c) the decoded
             internal record;
* `marshal`  yaml.v2 struct marshalling at the level of keys / `omitempty` / nil: a field is written under its yaml key
             unless the tag is "-" or it is `omitempty` and zero (pointer: nil; string "", 0, false, empty list/map);
* `yamlDoc`  the same description as a user writes it in YAML by the documented naming rule: attributes and labels keep
             their HCL name, a repeated block `x` becomes the list `xs`, a left-out field is simply absent;
* `decode`   mapstructure decoding as configured by `core/config.newDecoderConfig`: case-insensitive key match,
             absent / null = zero value (dropped from the record), unknown key = error marker (`ErrorUnused`),
             plugin interfaces dispatch on the `type` key to the registered constructor's config struct.

Strings, numbers, lists and string maps are carried unchanged by the model (what yaml.v2 does to the characters of a
scalar is library behaviour: differential tie only).  Core Lean only.
-/
import Pandora.Model.C16Ns

namespace Pandora.Model.C16
open Pandora.Go

/-- YAML-ish tree: description, document and decoded record -/
inductive V where
  | null
  | str (s : String)
  | int (i : Int)
  | bool (b : Bool)
  | seq (xs : List V)
  | map (kvs : List (String × V))
  deriving Repr, Inhabited

structure Tables where
  hcl : List (String × List C16HField)
  cfg : List (String × List C16CField)
  plugins : List C16Plugin
  hclRoot : String
  cfgRoot : String
  /-- `pluginconfig.PluginNameKey` -/
  nameKey : String
  deriving Repr, Inhabited

/-! ### keys -/

def lowerC (c : Char) : Char := if 'A' ≤ c ∧ c ≤ 'Z' then Char.ofNat (c.toNat + 32) else c

/-- ASCII case folding (mapstructure falls back to `strings.EqualFold`; keys of the tables are ASCII) -/
def fold (s : String) : List Char := s.toList.map lowerC

def eqFold (a b : String) : Bool := fold a == fold b

def hFields (T : Tables) (s : String) : List C16HField :=
  match T.hcl.find? (fun p => p.1 == s) with
  | some p => p.2
  | none => []

def cFields (T : Tables) (s : String) : List C16CField :=
  match T.cfg.find? (fun p => p.1 == s) with
  | some p => p.2
  | none => []

/-- the field of HCL struct `s` that the user writes as `name` -/
def findH (T : Tables) (s name : String) : Option C16HField := (hFields T s).find? (fun f => f.hcl == name)

/-- the field of config struct `s` that the decoder fills from key `key` -/
def findC (T : Tables) (s key : String) : Option C16CField := (cFields T s).find? (fun g => eqFold g.key key)

def findPlugin (T : Tables) (iface name : String) : Option C16Plugin :=
  T.plugins.find? (fun p => p.iface == iface && p.name == name)

/-! ### zero values -/

def isNull : V → Bool
  | .null => true
  | _ => false

def isEmptySeq : V → Bool
  | .seq [] => true
  | _ => false

/-- Go zero value of a leaf type (nil and empty collections are both "empty") -/
def zeroLeaf : V → Bool
  | .null => true
  | .str s => s == ""
  | .int i => i == 0
  | .bool b => !b
  | .seq xs => xs.isEmpty
  | .map kvs => kvs.isEmpty

def isList : C16HTy → Bool
  | .structList _ => true
  | _ => false

/-- yaml.v2 `isZero` of a non-pointer field (a non-pointer struct with `omitempty` is outside the model: `Compat`
rejects such a table) -/
def zeroTy : C16HTy → V → Bool
  | .leaf _, x => zeroLeaf x
  | .struct _, x => isNull x
  | .structList _, x => isNull x || isEmptySeq x

/-! ### the two renderings of a description -/

structure Policy where
  key : C16HField → String
  skip : C16HField → V → Bool

/-- yaml.v2: the field is not written -/
def omitM (f : C16HField) (x : V) : Bool :=
  f.yaml == "-" || (f.omitempty && (if f.ptr then isNull x else zeroTy f.ty x))

/-- the user's YAML: a field left out in the description (nil / no blocks) is not written -/
def omitY (f : C16HField) (x : V) : Bool := isNull x || (isList f.ty && isEmptySeq x)

/-- the documented YAML spelling of an HCL field: same name, a repeated block `x` is the list `xs` -/
def docKey (f : C16HField) : String :=
  match f.kind, f.ty with
  | .block, .structList _ => f.hcl ++ "s"
  | _, _ => f.hcl

def polM : Policy := ⟨fun f => f.yaml, omitM⟩
def polY : Policy := ⟨docKey, omitY⟩

mutual
def renderV (p : Policy) (T : Tables) : C16HTy → V → V
  | ty, .map fs =>
    match ty with
    | .struct s => .map (renderFs p T s fs)
    | _ => .map fs
  | ty, .seq xs =>
    match ty with
    | .structList s => .seq (renderXs p T s xs)
    | _ => .seq xs
  | _, .null => .null
  | _, .str s => .str s
  | _, .int i => .int i
  | _, .bool b => .bool b
def renderFs (p : Policy) (T : Tables) (s : String) : List (String × V) → List (String × V)
  | [] => []
  | (k, x) :: rest =>
    match findH T s k with
    | none => renderFs p T s rest
    | some f =>
      if p.skip f x then renderFs p T s rest
      else (p.key f, renderV p T f.ty x) :: renderFs p T s rest
def renderXs (p : Policy) (T : Tables) (s : String) : List V → List V
  | [] => []
  | x :: xs => renderV p T (.struct s) x :: renderXs p T s xs
end

/-! A Go struct has ALL its fields: what gohcl leaves untouched is nil.  `complete` adds the fields a description tree
does not mention as `null` (yaml.v2 walks the struct's fields, not the user's text: a nil pointer without `omitempty`
is written as `key: null`). -/

def hasKey (k : String) : List (String × V) → Bool
  | [] => false
  | (k', _) :: rest => k' == k || hasKey k rest

mutual
def completeV (T : Tables) : C16HTy → V → V
  | ty, .map fs =>
    match ty with
    | .struct s =>
      .map (completeFs T s fs ++ ((hFields T s).filter fun f => !hasKey f.hcl fs).map fun f => (f.hcl, V.null))
    | _ => .map fs
  | ty, .seq xs =>
    match ty with
    | .structList s => .seq (completeXs T s xs)
    | _ => .seq xs
  | _, .null => .null
  | _, .str s => .str s
  | _, .int i => .int i
  | _, .bool b => .bool b
def completeFs (T : Tables) (s : String) : List (String × V) → List (String × V)
  | [] => []
  | (k, x) :: rest =>
    match findH T s k with
    | none => (k, x) :: completeFs T s rest
    | some f => (k, completeV T f.ty x) :: completeFs T s rest
def completeXs (T : Tables) (s : String) : List V → List V
  | [] => []
  | x :: xs => completeV T (.struct s) x :: completeXs T s xs
end

/-- the value of `AmmoHCL` after `gohcl.DecodeBody` for a description that mentions only the fields the user wrote -/
def complete (T : Tables) (d : V) : V := completeV T (.struct T.hclRoot) d

/-- `yaml.Marshal(AmmoHCL)` followed by `yaml.Unmarshal` into the generic map -/
def marshal (T : Tables) (d : V) : V := renderV polM T (.struct T.hclRoot) d

/-- the description written directly in YAML -/
def yamlDoc (T : Tables) (d : V) : V := renderV polY T (.struct T.hclRoot) d

/-! ### decoding -/

/-- decode error markers (the real decoder returns an error for the whole file) -/
def errShape : V := .str "!shape"
def errPlugin : V := .str "!plugin"
def unusedKey : String := "!unused"

def decodeLeafLike (ty : C16CTy) (x : V) : Option V :=
  match ty with
  | .leaf _ => if zeroLeaf x then none else some x
  | .optLeaf _ => some x
  | _ => some errShape

/-- the plugin name: the first string value under the `type` key -/
def typeOf (nk : String) : List (String × V) → Option String
  | [] => none
  | (k, x) :: rest =>
    if eqFold k nk then
      match x with
      | .str t => some t
      | _ => typeOf nk rest
    else typeOf nk rest

mutual
/-- `none` = the Go zero value (field left untouched by the decoder) -/
def decodeV (T : Tables) : C16CTy → V → Option V
  | _, .null => none
  | ty, .str s => decodeLeafLike ty (.str s)
  | ty, .int i => decodeLeafLike ty (.int i)
  | ty, .bool b => decodeLeafLike ty (.bool b)
  | ty, .seq xs =>
    match ty with
    | .structList s => if xs.isEmpty then none else some (.seq (decodeXs T (.struct s) xs))
    | .pluginList i => if xs.isEmpty then none else some (.seq (decodeXs T (.plugin i) xs))
    | _ => decodeLeafLike ty (.seq xs)
  | ty, .map fs =>
    match ty with
    | .struct s => if (decodeFs T s false fs).isEmpty then none else some (.map (decodeFs T s false fs))
    | .optStruct s => some (.map (decodeFs T s false fs))
    | .plugin i =>
      match (typeOf T.nameKey fs).bind (findPlugin T i) with
      | none => some errPlugin
      | some p => some (.map (decodeFs T p.conf true fs))
    | .structList _ => some errShape
    | .pluginList _ => some errShape
    | _ => decodeLeafLike ty (.map fs)
/-- fields of config struct `s` from the entries of a map (`isP`: the map is a plugin config, its `type` entry is kept) -/
def decodeFs (T : Tables) (s : String) (isP : Bool) : List (String × V) → List (String × V)
  | [] => []
  | (k, x) :: rest =>
    if isP && eqFold k T.nameKey then
      match x with
      | .null => decodeFs T s isP rest
      | _ => (T.nameKey, x) :: decodeFs T s isP rest
    else
      match findC T s k with
      | none => (unusedKey, .null) :: decodeFs T s isP rest
      | some g =>
        match decodeV T g.ty x with
        | none => decodeFs T s isP rest
        | some y => (g.go, y) :: decodeFs T s isP rest
def decodeXs (T : Tables) (ty : C16CTy) : List V → List V
  | [] => []
  | x :: xs => (decodeV T ty x).getD (.map []) :: decodeXs T ty xs
end

/-- `config.DecodeAndValidate(map, &AmmoConfig)` (the record lists the non-zero fields under their Go names) -/
def decode (T : Tables) (doc : V) : Option V := decodeV T (.struct T.cfgRoot) doc

/-! ### the text hop and its one known defect

Between `marshal` and `decode` the HCL path goes through YAML text.  The model carries scalars unchanged; the
differential tie exhibits exactly one class of descriptions for which yaml.v2 does not: a string-map key `<<` is
written unquoted and read back as a YAML merge key, whose value must be a map — the file is refused
(`findings/C16.json`, key `merge-key`).  A user's YAML file quotes the key (`"<<": v`), which yaml.v2 reads as a plain
string key. -/

mutual
def hasMergeKey : V → Bool
  | .map kvs => hasMergeKeyM kvs
  | .seq xs => hasMergeKeyL xs
  | _ => false
def hasMergeKeyM : List (String × V) → Bool
  | [] => false
  | (k, x) :: rest => k == "<<" || hasMergeKey x || hasMergeKeyM rest
def hasMergeKeyL : List V → Bool
  | [] => false
  | x :: xs => hasMergeKey x || hasMergeKeyL xs
end

/-- what `ReadAmmoConfig` returns -/
inductive Outcome where
  | refused
  | accepted (record : Option V)

/-- `.hcl`: ParseHCLFile (gohcl fills `AmmoHCL`: `complete`), ConvertHCLToAmmo (yaml.Marshal, text, DecodeMap) -/
def hclPath (T : Tables) (d : V) : Outcome :=
  if hasMergeKey d then .refused else .accepted (decode T (marshal T (complete T d)))

/-- `.yaml`: ParseAmmoConfig (DecodeMap) on the description written in YAML -/
def yamlPath (T : Tables) (d : V) : Outcome := .accepted (decode T (yamlDoc T d))

/-! ### compatibility of the tables (decidable: evaluated on the regenerated tables) -/

inductive Target where
  | struct (s : String)
  | plugin (iface : String)
  deriving DecidableEq, Repr

def leafCompat : C16Leaf → C16Leaf → Bool
  | .strMap, .anyMap => true
  | a, b => a == b

/-- the HCL type and the config type carry the same values (`rec` decides nested struct pairs) -/
def tyRel (rec : String → Target → Bool) : C16HTy → C16CTy → Bool
  | .leaf l, .leaf l' => leafCompat l l'
  | .leaf l, .optLeaf l' => leafCompat l l'
  | .struct s, .struct t => rec s (.struct t)
  | .struct s, .optStruct t => rec s (.struct t)
  | .struct s, .plugin i => rec s (.plugin i)
  | .structList s, .structList t => rec s (.struct t)
  | .structList s, .pluginList i => rec s (.plugin i)
  | _, _ => false

def isLeafTy : C16HTy → Bool
  | .leaf _ => true
  | _ => false

/-- blocks carry structs, attributes and labels carry leaves -/
def kindOK (f : C16HField) : Bool :=
  match f.ty with
  | .leaf _ => f.kind != .block
  | _ => f.kind == .block

/-- conditions on one HCL field that do not depend on the target struct -/
def keyOK (T : Tables) (f : C16HField) : Bool :=
  f.yaml != "-" && eqFold f.yaml (docKey f) && kindOK f &&
  (!eqFold f.yaml T.nameKey || (f.ty == .leaf .str && !f.omitempty))

/-- one HCL field against config struct `sc` (`isP`: `sc` is the config struct of a plugin) -/
def fieldOK (rec : String → Target → Bool) (T : Tables) (sc : String) (isP : Bool) (f : C16HField) : Bool :=
  keyOK T f &&
  (if isP && eqFold f.yaml T.nameKey then true
   else match findC T sc f.yaml with
     | none => isP && f.ptr && f.omitempty && !isList f.ty
     | some g =>
       tyRel rec f.ty g.ty &&
       (match g.ty with
        | .optLeaf _ => !f.omitempty || f.ptr
        | _ => true))

/-- every config field is fed by exactly one HCL field, and config keys are unambiguous -/
def coveredOK (T : Tables) (sh sc : String) (skip : List String) : Bool :=
  (cFields T sc).all fun g =>
    skip.contains g.go ||
    (((hFields T sh).filter fun f => eqFold f.yaml g.key).length == 1 &&
     ((cFields T sc).filter fun g' => eqFold g'.key g.key).length == 1)

/-- no two HCL fields of one struct are marshalled under the same key -/
def distinctOK (T : Tables) (sh : String) : Bool :=
  (hFields T sh).all fun f => ((hFields T sh).filter fun f' => eqFold f'.yaml f.yaml).length == 1

def pluginsOf (T : Tables) (i : String) : List C16Plugin := T.plugins.filter fun p => p.iface == i

/-- HCL struct `sh` against its target, nested pairs with one unit of fuel less.  `unread`: config fields of the root
that no decoder reads (the YAML-only helper `locals`). -/
def compatS (T : Tables) (unread : List String) : Nat → String → Target → Bool
  | 0, _, _ => false
  | n + 1, sh, .struct sc =>
    !(hFields T sh).isEmpty && distinctOK T sh &&
    (hFields T sh).all (fieldOK (compatS T unread n) T sc false) &&
    coveredOK T sh sc (if sc == T.cfgRoot then unread else [])
  | n + 1, sh, .plugin i =>
    !(hFields T sh).isEmpty && distinctOK T sh &&
    (hFields T sh).all (keyOK T) &&
    ((hFields T sh).filter fun f => eqFold f.yaml T.nameKey).length == 1 &&
    !(pluginsOf T i).isEmpty &&
    (pluginsOf T i).all (fun p =>
      (hFields T sh).all (fieldOK (compatS T unread n) T p.conf true) && coveredOK T sh p.conf []) &&
    -- every HCL field other than the type key feeds at least one registered plugin
    (hFields T sh).all (fun f => eqFold f.yaml T.nameKey ||
      (pluginsOf T i).any (fun p => (findC T p.conf f.yaml).isSome))

/-- nesting depth of the scenario format is 4 (ammo / request / postprocessor / size); 8 leaves room -/
def compatFuel : Nat := 8

def compat (T : Tables) (unread : List String) : Bool :=
  compatS T unread compatFuel T.hclRoot (.struct T.cfgRoot)

/-! ### what the ammo decoders do with the scenarios (count of ammo entries of one pass) -/

def gcdNat : Nat → Nat → Nat := Nat.gcd

/-- `config.SpreadNames`: one scenario → 1; otherwise weight 0 counts as 1 and every scenario is repeated
`weight / gcd(weights)` times -/
def spreadTotal (weights : List Nat) : Nat :=
  match weights with
  | [] => 0
  | [_] => 1
  | ws =>
    let ws' := ws.map fun w => if w == 0 then 1 else w
    let g := ws'.foldl Nat.gcd 0
    if g == 0 then 0 else (ws'.map (· / g)).foldl (· + ·) 0

end Pandora.Model.C16
