/-
C15 round 4 — the template cache of `TextTemplater` / `HTMLTemplater` (components/providers/scenario/http/templater).

The model of a scenario step (`Model/C15.lean`) takes the rendering of a request as ONE function `World.render d tree` of
the request definition and the variable tree.  Between the gun and the template library stands pandora's own code:
`Apply` renders URL, every header and the body through templates it keeps in a cache (`sync.Map`) keyed by
`templateKey{scenario, step, part, key}` and writes them through one `strings.Builder`.  That layer is logic of the
repository (two repaired defects and one seeded change lived there): here it is modelled statement by statement, with
the builder's buffer and the cache explicit, over an ABSTRACT template library

    parse : String → Option τ            (template.New(name).Funcs(…).Parse(text): a function of the text)
    exec  : τ → V → String × Bool        (Execute: the text it WROTE to the builder, and whether it succeeded)

Core Lean only (the driver links it).
-/
-- the translator opens `Pandora.Go` in every regenerated file
namespace Pandora.Go
def c15TmplAnchor : Unit := ()
end Pandora.Go

namespace Pandora.Model.C15

/-- `templateKey` (a comparable struct: two keys are equal iff all four fields are) -/
structure TKey where
  scenario : String
  step : String
  part : String
  key : String
deriving DecidableEq, Repr

/-- one call site `t.getTemplate(<text>, templateKey{…})`: the constant stored in `part`, and which of the other fields
the composite literal sets (`scenario: scenarioName`, `step: stepName`, `key: <range key>`) -/
structure TSite where
  part : String
  scen : Bool
  step : Bool
  keyed : Bool
deriving DecidableEq, Repr

def TSite.keyOf (s : TSite) (scn stp hk : String) : TKey :=
  { scenario := if s.scen then scn else "", step := if s.step then stp else "",
    part := s.part, key := if s.keyed then hk else "" }

/-- statements of `getTemplate` -/
inductive GOp
  | load    -- tmpl, ok := cache.Load(key)
  | parse   -- tmpl, err = template.New(…).Funcs(…).Parse(tmplBody)
  | chk     -- if err != nil { return nil, err }
  | store   -- cache.Store(key, tmpl)
  | ret     -- return tmpl, nil
deriving DecidableEq, Repr

/-- `getTemplate`: statements before `if !ok {`, inside it, after it -/
structure GetCode where
  head : List GOp
  miss : List GOp
  tail : List GOp
deriving DecidableEq, Repr

abbrev TCache (κ τ : Type) := List (κ × τ)

structure GSt (κ τ : Type) where
  tmpl : Option τ := none
  ok : Bool := false
  err : Bool := false
  cache : TCache κ τ

/-- outcome of a statement list of `getTemplate`: it returned (template or error) or fell through -/
inductive GFlow (κ τ : Type)
  | ret (t : Option τ) (cache : TCache κ τ)
  | next (s : GSt κ τ)

section
variable {κ τ : Type} [DecidableEq κ]

def runGOps (parse : String → Option τ) (k : κ) (text : String) : List GOp → GSt κ τ → GFlow κ τ
  | [], s => .next s
  | .load :: r, s =>
    let f := s.cache.lookup k
    runGOps parse k text r { s with tmpl := f, ok := f.isSome }
  | .parse :: r, s =>
    (match parse text with
     | some t => runGOps parse k text r { s with tmpl := some t, err := false }
     | none => runGOps parse k text r { s with tmpl := none, err := true })
  | .chk :: r, s => if s.err then .ret none s.cache else runGOps parse k text r s
  | .store :: r, s =>
    (match s.tmpl with
     | some t => runGOps parse k text r { s with cache := (k, t) :: s.cache }
     | none => runGOps parse k text r s)   -- a nil template stored: the later type assertion yields nil; kept as "nothing stored"
  | .ret :: _, s => .ret s.tmpl s.cache

/-- `getTemplate` run statement by statement: the template (none = error) and the cache afterwards -/
def runGet (gc : GetCode) (parse : String → Option τ) (cache : TCache κ τ) (k : κ) (text : String) : Option τ × TCache κ τ :=
  match runGOps parse k text gc.head { cache } with
  | .ret t c => (t, c)
  | .next s =>
    let afterMiss : GFlow κ τ := if s.ok then .next s else runGOps parse k text gc.miss s
    match afterMiss with
    | .ret t c => (t, c)
    | .next s' =>
      match runGOps parse k text gc.tail s' with
      | .ret t c => (t, c)
      | .next s'' => (none, s''.cache)

/-- the direct reading of `getTemplate`: cached template, else parse and remember (nothing is remembered on a parse error) -/
def getT (parse : String → Option τ) (cache : TCache κ τ) (k : κ) (text : String) : Option τ × TCache κ τ :=
  match cache.lookup k with
  | some t => (some t, cache)
  | none =>
    match parse text with
    | some t => (some t, (k, t) :: cache)
    | none => (none, cache)

end

/-- statements of `Apply` that render ONE part (URL / one header / body) -/
inductive AOp
  | get      -- tmpl, err := t.getTemplate(<text of the part>, templateKey{…})
  | chk      -- if err != nil { return err }
  | exec     -- err = tmpl.Execute(strBuilder, vs)
  | assign   -- <the part> = strBuilder.String()
  | reset    -- strBuilder.Reset()
deriving DecidableEq, Repr

structure PartCode where
  site : TSite
  ops : List AOp
deriving DecidableEq, Repr

/-- `Apply`: the builder is created by the call (`strBuilder := &strings.Builder{}`), the regions in source order, the
body region is guarded by `parts.Body != nil` -/
structure ApplyCode where
  builderFresh : Bool
  regions : List String
  url : PartCode
  header : PartCode
  body : PartCode
  bodyGuard : Bool
deriving DecidableEq, Repr

/-- the model's reading of the current source (the regenerated `Gen.C15Tmpl.applyCodeText` / `applyCodeHTML` must equal it) -/
def partOps : List AOp := [.get, .chk, .exec, .chk, .assign, .reset]

def applyCode : ApplyCode where
  builderFresh := true
  regions := ["url", "header", "body"]
  url := { site := { part := "url", scen := true, step := true, keyed := false }, ops := partOps }
  header := { site := { part := "header", scen := true, step := true, keyed := true }, ops := partOps }
  body := { site := { part := "body", scen := true, step := true, keyed := false }, ops := partOps }
  bodyGuard := true

def getCode : GetCode := { head := [.load], miss := [.parse, .chk, .store], tail := [.ret] }

/-- the parts of a request handed to `Apply` (`RequestParts`; the method is not templated). `headers` lists the map in
the order the `range` loop happens to visit it. -/
structure TParts where
  url : String
  headers : List (String × String)
  body : Option String
deriving DecidableEq, Repr

structure ASt (κ τ : Type) where
  buf : String
  cache : TCache κ τ
  tmpl : Option τ := none
  err : Bool := false
  out : Option String := none

/-- outcome of rendering one part: `Apply` returned an error, or went on (with the value assigned to the part, if any) -/
inductive AFlow (κ τ : Type)
  | fail (cache : TCache κ τ)
  | next (s : ASt κ τ)

section
variable {κ τ V : Type} [DecidableEq κ]

def runAOps (gc : GetCode) (parse : String → Option τ) (exec : τ → V → String × Bool) (k : κ) (text : String) (vs : V) :
    List AOp → ASt κ τ → AFlow κ τ
  | [], s => .next s
  | .get :: r, s =>
    let g := runGet gc parse s.cache k text
    runAOps gc parse exec k text vs r { s with tmpl := g.1, err := g.1.isNone, cache := g.2 }
  | .chk :: r, s => if s.err then .fail s.cache else runAOps gc parse exec k text vs r s
  | .exec :: r, s =>
    (match s.tmpl with
     | none => .fail s.cache       -- Execute on a nil template (an unchecked error): the call panics / fails
     | some t =>
       let o := exec t vs
       runAOps gc parse exec k text vs r { s with buf := s.buf ++ o.1, err := !o.2 })
  | .assign :: r, s => runAOps gc parse exec k text vs r { s with out := some s.buf }
  | .reset :: r, s => runAOps gc parse exec k text vs r { s with buf := "" }

/-- one part: the rendered text (none = `Apply` returns an error), the builder's buffer and the cache afterwards -/
def runPart (gc : GetCode) (parse : String → Option τ) (exec : τ → V → String × Bool) (pc : PartCode) (proj : TKey → κ)
    (scn stp hk text : String) (vs : V) (buf : String) (cache : TCache κ τ) : Option (String × String) × TCache κ τ :=
  match runAOps gc parse exec (proj (pc.site.keyOf scn stp hk)) text vs pc.ops { buf, cache } with
  | .fail c => (none, c)
  | .next s => (some (s.out.getD text, s.buf), s.cache)

/-- the header loop: every entry rendered in the order visited; stops at the first error -/
def runHeaders (gc : GetCode) (parse : String → Option τ) (exec : τ → V → String × Bool) (pc : PartCode) (proj : TKey → κ)
    (scn stp : String) (vs : V) : List (String × String) → String → TCache κ τ →
    Option (List (String × String) × String) × TCache κ τ
  | [], buf, c => (some ([], buf), c)
  | (k, v) :: r, buf, c =>
    match runPart gc parse exec pc proj scn stp k v vs buf c with
    | (none, c') => (none, c')
    | (some (v', buf'), c') =>
      match runHeaders gc parse exec pc proj scn stp vs r buf' c' with
      | (none, c'') => (none, c'')
      | (some (r', buf''), c'') => (some ((k, v') :: r', buf''), c'')

/-- `Apply` run region by region (URL, headers, body when present) on the statement lists `ac` / `gc`; `proj` is what the
cache compares keys by (the struct itself in the source: `proj = id`). The rendered parts (none = error) and the cache. -/
def runApply (ac : ApplyCode) (gc : GetCode) (parse : String → Option τ) (exec : τ → V → String × Bool) (proj : TKey → κ)
    (cache : TCache κ τ) (scn stp : String) (p : TParts) (vs : V) : Option TParts × TCache κ τ :=
  match runPart gc parse exec ac.url proj scn stp "" p.url vs "" cache with
  | (none, c) => (none, c)
  | (some (u, buf), c) =>
    match runHeaders gc parse exec ac.header proj scn stp vs p.headers buf c with
    | (none, c') => (none, c')
    | (some (hs, buf'), c') =>
      match p.body with
      | none => (some { url := u, headers := hs, body := none }, c')
      | some b =>
        match runPart gc parse exec ac.body proj scn stp "" b vs buf' c' with
        | (none, c'') => (none, c'')
        | (some (b', _), c'') => (some { url := u, headers := hs, body := some b' }, c'')

/-- rendering one text without any cache or shared buffer -/
def renderText (parse : String → Option τ) (exec : τ → V → String × Bool) (text : String) (vs : V) : Option String :=
  match parse text with
  | none => none
  | some t => if (exec t vs).2 then some (exec t vs).1 else none

def renderHeaders (parse : String → Option τ) (exec : τ → V → String × Bool) (vs : V) :
    List (String × String) → Option (List (String × String))
  | [] => some []
  | (k, v) :: r =>
    match renderText parse exec v vs with
    | none => none
    | some v' => (renderHeaders parse exec vs r).map ((k, v') :: ·)

/-- **what a step's request is**: every part rendered on its own from its text and the variables -/
def applyPure (parse : String → Option τ) (exec : τ → V → String × Bool) (p : TParts) (vs : V) : Option TParts :=
  match renderText parse exec p.url vs with
  | none => none
  | some u =>
    match renderHeaders parse exec vs p.headers with
    | none => none
    | some hs =>
      match p.body with
      | none => some { url := u, headers := hs, body := none }
      | some b => (renderText parse exec b vs).map fun b' => { url := u, headers := hs, body := some b' }

/-- a sequence of `Apply` calls on one templater (the cache is threaded through): the results in order -/
def runApplies (ac : ApplyCode) (gc : GetCode) (parse : String → Option τ) (exec : τ → V → String × Bool) (proj : TKey → κ) :
    TCache κ τ → List (String × String × TParts × V) → List (Option TParts)
  | _, [] => []
  | c, (scn, stp, p, vs) :: r =>
    let o := runApply ac gc parse exec proj c scn stp p vs
    o.1 :: runApplies ac gc parse exec proj o.2 r

end

/-- the text a cache slot belongs to, read off the request definitions `defs scenario step` -/
def slotText (ac : ApplyCode) (defs : String → String → TParts) (k : TKey) : String :=
  let d := defs k.scenario k.step
  if k.part == ac.url.site.part then d.url
  else if k.part == ac.header.site.part then (d.headers.lookup k.key).getD ""
  else (d.body.getD "")

/-- `templateKey.String()`: the joined text a cache keyed by strings would compare (NOT injective) -/
def TKey.joined (k : TKey) : String := k.scenario ++ "_" ++ k.step ++ "_" ++ k.part ++ "_" ++ k.key

end Pandora.Model.C15
