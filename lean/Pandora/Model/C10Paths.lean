/-
C10 — the PATHS of the model's decision trees, in the vocabulary of the path summaries the translator extracts from the
source (gen/area_grpcstatus_paths.go): exit kind and the events along the path — setter calls on the sample (a run of
consecutive setter calls is a sorted set), `Report` calls, the result of the exchange calls the path branches on
(`Do`, `Body`, `IsInvalid`, `Services`, `Marshal`, `UnmarshalJSON`), `InvokeRpc` and `Sleep` calls.
`Pandora/Bridge/GrpcStatus.lean` proves, on every run, that the regenerated path sets are exactly these.
-/
import Pandora.Model.C10

namespace Pandora.Model.C10

abbrev Path := String × List String

/-- the setter calls `ops` make on a sample `s`, by name (`SetID` is `GunAmmo.Request`'s, outside the guns' functions) -/
def opTrace : Sample → List SampleOp → List String
  | _, [] => []
  | s, op :: rest =>
    (match op with
      | .addTag _ => ["AddTag"]
      | .addTagIfEmpty _ => if s.tags = "" then ["AddTag"] else []
      | .setID _ => []
      | .setProto _ => ["SetProtoCode"]
      | .setErr _ => ["SetErr"]) ++ opTrace (applyOp s op) rest

/-- a run of setter calls as a sorted set (the four setters write different fields) -/
def canonRun (l : List String) : List String :=
  ["AddTag", "SetErr", "SetID", "SetProtoCode"].filter l.contains

/-! ### `BaseGun.Shoot` -/

/-- the path `shootHttp` takes (Connect hook unset) -/
def httpPath (cfg : AutoTagCfg) (s : HttpShot) : Path :=
  if s.invalid then ("void", ["IsInvalid=true"] ++ canonRun (opTrace (fresh s.ammoTag) [.addTag emptyTag, .setProto 0]) ++ ["Report"])
  else
    let tagged := canonRun (opTrace (fresh s.ammoTag) (tagOps cfg s.ammoTag s.path))
    match s.outcome with
    | .doErr e => ("void", ["IsInvalid=false"] ++ tagged ++ ["Do=err"] ++ canonRun (opTrace default (outcomeOps (.doErr e))) ++ ["Report"])
    | .response st none => ("void", ["IsInvalid=false"] ++ tagged ++ ["Do=ok"] ++ canonRun (opTrace default (outcomeOps (.response st none))) ++ ["Body=ok", "Report"])
    | .response _ (some e) => ("void", ["IsInvalid=false"] ++ tagged ++ ["Do=ok", "SetProtoCode", "Body=err"] ++ canonRun (opTrace default [.setErr e]) ++ ["Report"])
    | .doPanic => ("panic", ["IsInvalid=false"] ++ tagged ++ ["Report"])

/-- representatives of every kind of shot: valid / invalid, tagged / untagged ammo, auto-tag on / off, each outcome -/
def httpShotKinds : List (AutoTagCfg × HttpShot) :=
  ([true, false].flatMap fun en => ["", "t"].flatMap fun tag => [false, true].flatMap fun inv =>
    [HttpOutcome.doErr .other, .response 200 none, .response 200 (some .other)].map fun o =>
      (({ enabled := en, uriElements := 1, noTagOnly := true } : AutoTagCfg),
       ({ ammoTag := tag, id := 1, path := "/a", outcome := o, invalid := inv } : HttpShot)))

def httpPaths : List Path := httpShotKinds.map fun (c, s) => httpPath c s

/-! ### http scenario: `shootStep`, one iteration of the step loop -/

/-- the path of `shootStep` for a step outcome; `pause`: the step has a pause -/
def stepPath (pause : Bool) : StepOutcome → Option Path
  | .prepErr => some ("err", [])
  | .doErr _ => some ("err", ["Do=err"])
  | .bodyErr _ _ => some ("err", ["Do=ok", "Body=err"])
  | .received _ .err => some ("err", ["Do=ok", "Body=ok"])
  | .received _ .ok => some ("nil", ["Do=ok", "Body=ok", "SetProtoCode", "Report"] ++ if pause then ["Sleep"] else [])
  | .received _ .panic => none

def stepOutcomeKinds : List StepOutcome :=
  [.prepErr, .doErr .other, .bodyErr 200 .other, .received 200 .err, .received 200 .ok]

def stepPaths : List Path :=
  [true, false].flatMap fun pause => stepOutcomeKinds.filterMap (stepPath pause)

/-- `reportErr`'s setter calls and its `Report` -/
def reportErrEvents : List String := canonRun ["AddTag", "SetErr", "SetProtoCode"] ++ ["Report"]

/-- the step loop run for no step, or for one step: a failing step is handed to `reportErr` and ends the shot; after the
loop the shot may sleep up to the scenario's minimal waiting time (`wait`) -/
def loopPaths : List Path :=
  [true, false].flatMap fun wait =>
    let tail := if wait then ["Sleep"] else []
    ("nil", tail) ::
    ([true, false].flatMap fun pause => stepOutcomeKinds.filterMap fun o =>
      (stepPath pause o).map fun p =>
        if p.1 == "err" then ("err", p.2 ++ reportErrEvents) else ("nil", p.2 ++ tail))

/-! ### gRPC guns -/

def grpcPath : GrpcOutcome → Path
  | .invalidAmmo => ("void", ["IsInvalid=true", "SetProtoCode", "Report"])
  | .unknownMethod => ("void", ["IsInvalid=false", "Services=false", "SetProtoCode", "Report"])
  | .marshalErr => ("void", ["IsInvalid=false", "Services=true", "Marshal=err", "SetProtoCode", "Report"])
  | .badPayload => ("void", ["IsInvalid=false", "Services=true", "Marshal=ok", "UnmarshalJSON=err", "SetProtoCode", "Report"])
  | .invoked _ => ("void", ["IsInvalid=false", "Services=true", "Marshal=ok", "UnmarshalJSON=ok", "InvokeRpc", "SetProtoCode", "Report"])

def grpcPaths : List Path := [GrpcOutcome.invalidAmmo, .unknownMethod, .marshalErr, .badPayload, .invoked 0].map grpcPath

/-- gRPC scenario `shootStep`: the code is set after the call and once more by the deferred closure, which reports -/
def grpcStepPath (pause : Bool) : GrpcStepOutcome → Option Path
  | .prepErr => some ("err", ["SetProtoCode", "Report"])
  | .unknownMethod => some ("err", ["Services=false", "SetProtoCode", "Report"])
  | .badPayload => some ("err", ["Services=true", "UnmarshalJSON=err", "SetProtoCode", "Report"])
  | .invoked _ .err => some ("err", ["Services=true", "UnmarshalJSON=ok", "InvokeRpc", "SetProtoCode", "Report"])
  | .invoked _ .ok => some ("nil", ["Services=true", "UnmarshalJSON=ok", "InvokeRpc", "SetProtoCode"] ++
      (if pause then ["Sleep", "SetProtoCode"] else []) ++ ["Report"])
  | .invoked _ .panic => none

def grpcStepOutcomeKinds : List GrpcStepOutcome :=
  [.prepErr, .unknownMethod, .badPayload, .invoked 0 .err, .invoked 0 .ok]

def grpcStepPaths : List Path :=
  [true, false].flatMap fun pause => grpcStepOutcomeKinds.filterMap (grpcStepPath pause)

def grpcLoopPaths : List Path :=
  [true, false].flatMap fun wait =>
    let tail := if wait then ["Sleep"] else []
    ("nil", tail) ::
    ([true, false].flatMap fun pause => grpcStepOutcomeKinds.filterMap fun o =>
      (grpcStepPath pause o).map fun p => if p.1 == "err" then p else ("nil", p.2 ++ tail))

/-! ### what the summaries are read for -/

def reportCount (ev : List String) : Nat := (ev.filter (· == "Report")).length

/-- the sets are compared as sets -/
def sameSet (a b : List Path) : Bool := a.all b.contains && b.all a.contains

/-- events before the first `Report` -/
def beforeReport : List String → List String
  | [] => []
  | e :: rest => if e == "Report" then [] else e :: beforeReport rest

end Pandora.Model.C10
