/-
C13, round 6 — the end of a provider's `Run` as its consumers see it.

Every provider hands its ammo to the instances through a channel (the sink) and closes it when `Run` returns; an
instance blocked in `Acquire` (`<-sink`, no context) is released only by an entry or by the close. `Run` registers the
close with `defer`: it takes effect on the return paths that come AFTER the `defer` statement. The model is the list of
top-level statements of `Run` (regenerated from the four providers: `Gen.C13Src.{grpc,http,decode,scenario}RunStmts`)
and the channel.
-/
import Pandora.Model.C13Base

namespace Pandora.Model.C13

/-- the top-level statements of a provider's `Run`, in source order -/
inductive RunStmt where
  | deferClose   -- `defer close(sink)` or a deferred function that closes it
  | mayReturn    -- holds a `return` (an error path, or the regular end)
  | other
  deriving Repr, DecidableEq

/-- `Run` leaves at its `k`-th possible return (`k` counts the `mayReturn` statements from 0; running off the end of the list is
the last return): was the closing defer registered by then? `none` = there is no such return. -/
def closedAtReturn : List RunStmt → Nat → Bool → Option Bool
  | [], 0, reg => some reg
  | [], _ + 1, _ => none
  | .deferClose :: rest, k, _ => closedAtReturn rest k true
  | .mayReturn :: _, 0, reg => some reg
  | .mayReturn :: rest, k + 1, reg => closedAtReturn rest k reg
  | .other :: rest, k, reg => closedAtReturn rest k reg

/-- the closing defer stands in front of every statement that may return -/
def closesOnEveryReturn : List RunStmt → Bool
  | [] => false
  | .deferClose :: _ => true
  | .mayReturn :: _ => false
  | .other :: rest => closesOnEveryReturn rest

/-- the sink after `Run` has returned: what is still buffered, and whether it was closed -/
structure SinkState where
  buffered : Nat
  closed : Bool
  deriving Repr, DecidableEq

/-- one `Acquire` (`ammo, ok := <-sink`) once nothing produces any more: `none` = blocks for ever -/
def acquireAfterRun (s : SinkState) : Option (SinkState × Bool) :=
  match s.buffered with
  | n + 1 => some (⟨n, s.closed⟩, true)
  | 0 => if s.closed then some (s, false) else none

/-- an instance acquires until it is told "no more ammo": the number of entries it got, `none` = it blocks for ever -/
def drainAfterRun : Nat → SinkState → Option Nat
  | 0, _ => none
  | fuel + 1, s =>
    match acquireAfterRun s with
    | none => none
    | some (_, false) => some 0
    | some (s', true) => (drainAfterRun fuel s').map (· + 1)

end Pandora.Model.C13
