/-
C04 (round 4) — a closed world for a POOL: several instances on one shared schedule, each with a clock of its own.

`simHist` (Model/C04.lean) generates the history of ONE instance that draws every token of its schedule.  Here any number of instances
(any `Nat` is an instance) draw from ONE shared token list.  A step of the world is a pair `(i, p)`: instance `i` makes its next pass
with the delays `p` — it takes the head of the shared schedule `dPick` after its previous action ended, reads the clock, sleeps on the
timer if the token lies ahead, fires or discards; its next pass starts when that action is over (`simNext`).  The instances' timelines
are independent of each other except through WHICH tokens each of them gets, and that is decided by the order of the steps: the list
of steps is an arbitrary interleaving (in a real run the steps are ordered by their pick-up instants; the theorems hold for every order,
hence for those).  No cancellation, ammo available.  Core Lean only.
-/
import Pandora.Model.C04

namespace Pandora.Model.C04

/-- the state of the closed world of a pool -/
structure PSim where
  /-- tokens of the shared schedule not handed out yet -/
  sched : List Int
  /-- the Waiter of every instance -/
  w : Nat → Waiter
  /-- per instance: the instant at which its previous action was over (its start instant before the first pass) -/
  t : Nat → Int
  /-- per instance: the passes made so far -/
  hist : Nat → List Iter

/-- all instances have a new Waiter; instance `i` enters its loop at instant `t0 i` (late starters: any `t0`) -/
def PSim.init (toks : List Int) (t0 : Nat → Int) : PSim :=
  { sched := toks, w := fun _ => Waiter.init, t := t0, hist := fun _ => [] }

/-- instance `c.1` makes one pass with the delays `c.2`; on an empty schedule nothing happens any more (`IsFinished`) -/
def psimStep (d : Bool) (st : PSim) (c : Nat × Delays) : PSim :=
  match st.sched with
  | [] => st
  | tok :: rest =>
    let it := simIter (st.t c.1) tok c.2
    let w' := (waitV .fresh (st.w c.1) it.env).w
    { sched := rest, w := upd st.w c.1 w', t := upd st.t c.1 (simNext d w' it), hist := upd st.hist c.1 (st.hist c.1 ++ [it]) }

def psim (d : Bool) : PSim → List (Nat × Delays) → PSim
  | st, [] => st
  | st, c :: cs => psim d (psimStep d st c) cs

/-- the tokens instance `i` gets when the steps `cs` are made on the schedule `sched` -/
def psimOwn (i : Nat) : List Int → List (Nat × Delays) → List Int
  | [], _ => []
  | _ :: _, [] => []
  | tok :: rest, c :: cs => if c.1 = i then tok :: psimOwn i rest cs else psimOwn i rest cs

/-- the delays of the passes instance `i` makes (one per token it gets) -/
def psimDelays (i : Nat) : List Int → List (Nat × Delays) → List Delays
  | [], _ => []
  | _ :: _, [] => []
  | _ :: rest, c :: cs => if c.1 = i then c.2 :: psimDelays i rest cs else psimDelays i rest cs

/-- the whole history of instance `i`: its passes, then the pass in which `IsFinished` ends its loop -/
def psimHist (d : Bool) (toks : List Int) (t0 : Nat → Int) (cs : List (Nat × Delays)) (i : Nat) : List Iter :=
  (psim d (PSim.init toks t0) cs).hist i ++ [simLast ((psim d (PSim.init toks t0) cs).t i)]

end Pandora.Model.C04
