/-
C18 — an abstract `reflect.Type`, for the type expectations of `Registry.Register` (core/plugin/registry.go,
constructor.go, plugin.go).  The expectations themselves are NOT written here: they are regenerated from the Go
source on every check run into `Pandora/Gen/Plugin.lean` (gen/area_plugin.go) as Lean functions over this type;
`Pandora/Bridge/Plugin.lean` proves what they accept.

Reading of `reflect`:
  t.Kind()            → `t.kind`
  t.NumIn()/NumOut()  → `t.numIn` / `t.numOut`           (0 for a non-func; Go panics there — the code guards with Kind)
  t.In(i)/t.Out(i)    → `t.inp i` / `t.out i`             (`Ty.invalid` out of range; Go panics there — guarded by NumIn/NumOut)
  t.Elem()            → `t.elem`                          (`Ty.invalid` for a non-pointer)
  t.Implements(p)     → `t.implements p`
  t1 == t2            → structural equality (reflect.Type values are canonical)
  reflect.FuncOf(nil, []reflect.Type{c}, false) → `Ty.func .nil (.cons c .nil)`
  errorType           → `Ty.error`
-/
namespace Pandora.Go
/-- makes the namespace exist for the header the translator writes into `Gen/Plugin.lean` -/
def c18NamespaceMarker : Unit := ()
end Pandora.Go

namespace Pandora.Model.C18Ty

inductive Kind | func | struct | ptr | iface | other
deriving DecidableEq, Repr

/-- identities of the interfaces a named type implements (its method set, abstractly) -/
abbrev Impls := List Nat

mutual
/-- `base k id impls`: a named non-pointer, non-func type (struct, interface, anything else) with identity `id`;
`ptr elem impls`: `*elem` whose method set implements `impls`; `func ins outs` -/
inductive Ty where
  | base (k : Kind) (id : Nat) (impls : Impls)
  | ptr (elem : Ty) (impls : Impls)
  | func (ins outs : Tys)
deriving DecidableEq, Repr
inductive Tys where
  | nil
  | cons (t : Ty) (ts : Tys)
deriving DecidableEq, Repr
end

/-- what `In`/`Out`/`Elem` give where Go would panic -/
def Ty.invalid : Ty := .base .other 0 []

/-- the predeclared `error` interface (identity 0 is reserved for it) -/
def Ty.error : Ty := .base .iface 0 []

def Tys.len : Tys → Nat
  | .nil => 0
  | .cons _ ts => ts.len + 1

def Tys.get : Tys → Nat → Ty
  | .nil, _ => Ty.invalid
  | .cons t _, 0 => t
  | .cons _ ts, i + 1 => ts.get i

def Ty.kind : Ty → Kind
  | .base k _ _ => k
  | .ptr _ _ => .ptr
  | .func _ _ => .func

def Ty.numIn : Ty → Nat
  | .func ins _ => ins.len
  | _ => 0

def Ty.numOut : Ty → Nat
  | .func _ outs => outs.len
  | _ => 0

def Ty.inp : Ty → Nat → Ty
  | .func ins _, i => ins.get i
  | _, _ => Ty.invalid

def Ty.out : Ty → Nat → Ty
  | .func _ outs, i => outs.get i
  | _, _ => Ty.invalid

def Ty.elem : Ty → Ty
  | .ptr e _ => e
  | _ => Ty.invalid

/-- `t.Implements(p)`: `p` must be an interface; an interface implements itself -/
def Ty.implements (t p : Ty) : Bool :=
  match p with
  | .base .iface pid _ =>
    (match t with
     | .base k id impls => (k == .iface && id == pid) || impls.contains pid
     | .ptr _ impls => impls.contains pid
     | .func _ _ => false)
  | _ => false

/-- `func() c` — the type a default-config function must have -/
def Ty.funcOf0 (c : Ty) : Ty := .func .nil (.cons c .nil)

end Pandora.Model.C18Ty
