/-
C06 (vii) — the error with which the bounded-queue encoder aggregator ends, when several things go wrong at once.

`core/aggregator/encoder.go` `dataSinkAggregator.Run` has a named result `err`; the loop leaves it nil or set to the
error of `handleSample` / of the ticker flush, and two deferred functions, run in reverse order of registration,
add to it with `lib/errutil.Join`:
  2nd registered, 1st run:  `err = Join(err, WithMessage(encoder.Close() | encoder.Flush(), …))`
  1st registered, 2nd run:  `err = Join(err, sink.Close())`, then `err = Join(err, a.DroppedErr())`
`errutil.Join(err1, err2)`: `err1 == nil → err2`, `err2 == nil → err1`, otherwise `multierror.Append(err1, err2)`
(a flat list: `errors.As` finds every member).

An error value is modelled by the list of its atomic members (`[]` = nil). `Join` is not hard-wired: it is the
interpretation of a case table (the table of the code is regenerated from lib/errutil/errutil.go, see
Bridge/C06ErrJoin.lean), so that the theorem is about what the code says now, and a table that lets the first error
win can be shown to lose the drop count.
-/
namespace Pandora.Model.C06ErrJoin

/-- what an error is made of, as far as the caller of `Run` can look into it -/
inductive Src
  | loop                 -- `handleSample` or the ticker flush failed: the loop returned with an error
  | encFinal             -- the encoder's final Close / Flush failed
  | sinkClose            -- `sink.Close()` failed
  | dropped (n : Nat)    -- `&SomeSamplesDropped{n}`
  deriving DecidableEq, Repr

/-- an error value: its atomic members in order; `[]` is nil -/
abbrev Err := List Src

inductive Cond
  | firstNil | secondNil | always
  deriving DecidableEq, Repr

inductive Ret
  | first | second | both
  deriving DecidableEq, Repr

/-- `Join` as a list of (condition, returned value): the first case whose condition holds decides -/
abbrev JoinTable := List (Cond × Ret)

def Cond.holds (c : Cond) (a b : Err) : Bool :=
  match c with
  | .firstNil => a.isEmpty
  | .secondNil => b.isEmpty
  | .always => true

def Ret.value (r : Ret) (a b : Err) : Err :=
  match r with
  | .first => a
  | .second => b
  | .both => a ++ b

/-- a table without an applicable case returns nil (Go would not compile it) -/
def evalJoin : JoinTable → Err → Err → Err
  | [], _, _ => []
  | (c, r) :: rest, a, b => if c.holds a b then r.value a b else evalJoin rest a b

/-- `lib/errutil.Join` as it is -/
def codeJoin : JoinTable := [(.firstNil, .second), (.secondNil, .first), (.always, .both)]

/-- a `Join` that keeps only the first error when both are there -/
def firstWinsJoin : JoinTable := [(.firstNil, .second), (.secondNil, .first), (.always, .first)]

/-- what goes wrong in one run -/
structure Faults where
  loop : Bool
  encFinal : Bool
  sinkClose : Bool
  dropped : Nat
  deriving DecidableEq, Repr

/-- the things the deferred functions join into `err` -/
inductive Joined
  | encFinal | sinkClose | dropped
  deriving DecidableEq, Repr

/-- `DroppedErr()`: nil iff the counter is 0 -/
def droppedErr (n : Nat) : Err := if n = 0 then [] else [.dropped n]

def Faults.errOf (f : Faults) : Joined → Err
  | .encFinal => if f.encFinal then [.encFinal] else []
  | .sinkClose => if f.sinkClose then [.sinkClose] else []
  | .dropped => droppedErr f.dropped

/-- the order in which the deferred functions of the code join: encoder first, then the sink, then the drop count -/
def codeOrder : List Joined := [.encFinal, .sinkClose, .dropped]

/-- the value of `err` when `Run` has returned -/
def finalErr (t : JoinTable) (order : List Joined) (f : Faults) : Err :=
  order.foldl (fun e j => evalJoin t e (f.errOf j)) (if f.loop then [.loop] else [])

/-- what `errors.As(err, &*SomeSamplesDropped)` finds -/
def droppedOf : Err → Option Nat
  | [] => none
  | .dropped n :: _ => some n
  | _ :: rest => droppedOf rest

/-- canonical text of an error value, as the harness prints it: members joined by `+`, `nil` for none -/
def Src.text : Src → String
  | .loop => "loop"
  | .encFinal => "flush"
  | .sinkClose => "close"
  | .dropped n => s!"dropped:{n}"

def errText (e : Err) : String :=
  if e.isEmpty then "nil" else "+".intercalate (e.map Src.text)

end Pandora.Model.C06ErrJoin
