/-
C02 — the three building blocks the regenerated `compositeSchedule.Next` (`Gen/C02Src.lean`, area `c02src`) is written
with: the child call `s.scheds[0].Next()`, `len(s.scheds)` and `s.startNext(tx)`, on the shared state of the concurrent
model (`Model/C02Par.lean`), with their partial cases (`scheds[0]` of an empty list, a panic of the child, of `Start`)
as panic outcomes.  Continuation style: what follows the statement is the last argument.
-/
import Pandora.Model.C02Par

namespace Pandora.Model.C02.Par
open Pandora.Model.C02

/-- `tx, ok = s.scheds[0].Next()` -/
def cChildNext {σ : Type} (ops : Ops σ) (s : Sh σ) (now : Int) (k : Sh σ → Int → Bool → Sh σ × Out) : Sh σ × Out :=
  match s.cs with
  | [] => (s, .ret (.panic indexPanic))
  | c :: rest =>
    match ops.next c now with
    | .error e => (s, .ret (.panic e))
    | .ok (c', tx, ok) => k { s with cs := c' :: rest } tx ok

/-- `len(s.scheds)` -/
def cLen {σ : Type} (s : Sh σ) : Int := (s.cs.length : Int)

/-- `s.startNext(tx)` -/
def cStartNext {σ : Type} (ops : Ops σ) (s : Sh σ) (tx : Int) (k : Sh σ → Sh σ × Out) : Sh σ × Out :=
  match startNext ops s tx with
  | .error e => (s, .ret (.panic e))
  | .ok s1 => k s1

/-! the statements of `startNext`, each with its partial case (a slice expression / an index out of range panics) -/

/-- `s.scheds = s.scheds[1:]` -/
def eShiftScheds {σ : Type} (s : Sh σ) : Except String (Sh σ) :=
  match s.cs with
  | [] => .error indexPanic
  | _ :: r => .ok { s with cs := r }

/-- `s.leftAfter = s.leftAfter[1:]` -/
def eShiftLeftAfter {σ : Type} (s : Sh σ) : Except String (Sh σ) :=
  match s.la with
  | [] => .error indexPanic
  | _ :: r => .ok { s with la := r }

/-- `s.scheds[k].Start(t)` -/
def eStartAt {σ : Type} (ops : Ops σ) (s : Sh σ) (k : Nat) (t : Int) : Except String (Sh σ) :=
  match s.cs[k]? with
  | none => .error indexPanic
  | some c =>
    match ops.start c t with
    | .error e => .error e
    | .ok c' => .ok { s with cs := s.cs.set k c' }

end Pandora.Model.C02.Par
