/-
C05 — model of `instancePool.Run` + `runAwaitHandle.awaitRun` (core/engine/engine.go) as a transition system.

One pool = four kinds of goroutines:
* the `Pool.Run` goroutine (`main`): warm-up gun, `runAsync`, then the select on `ctx.Done()` / `awaitErr`;
* the provider, the aggregator and the instance-start goroutine (`startInstances`);
* one goroutine per started instance (gun creation + `instance.Run` + gun `Close`, result sent on `runRes`);
* the await goroutine (`awaitRun`, `onErrAwaited`, `checkAllInstancesAreFinished`, `onWaitDone`).

Everything the runtime or a component decides is an explicit `Choice`: WHEN a component returns and WHAT it
returns (`provRet r`, `instRet i r`, gun creation outcomes …), which ready case a Go `select` takes
(`awaitProv | awaitAgg | awaitStart | awaitRun`, `errDeliver | errSuppress`, `mainCancel | mainClosed`),
and the caller's cancel (`extCancel`). `step` is total: a choice that is not enabled leaves the state unchanged.
`run cfg choices` folds `step`; theorems quantify over every choice list, so over every fault plan, every
interleaving and any number of instances.

`Cfg` selects the code variant: `Cfg.current` is the tree as it is (defective select in `onErrAwaited`,
`onWaitDone` skipped when `runAsync` fails, warm-up gun / bind-failed gun never closed),
`Cfg.repaired` is the tree with fixes/C05-*.diff applied.

Abstractions (see notes/C05.md): a context tree is cancelled atomically; `runRes` (buffer 64) is an unbounded
FIFO (a blocked sender is a result that has not "returned" yet); `close(awaitErr)` and `onWaitDone()` are one step.
-/
namespace Pandora.Model.C05

abbrev ErrId := Nat

/-- a Go `error` as far as the engine distinguishes: nil, the context's error, `outOfAmmoErr`, a component error -/
inductive Ret
  | ok | ctx | ooa | err (e : ErrId)
  deriving DecidableEq, Repr, Inhabited

/-- `errutil.IsCtxError(ctx, err)` where `done` = the context is cancelled (`ctx.Err() != nil`) -/
def Ret.isCtxError (done : Bool) : Ret → Bool
  | .ok => true
  | .ctx => done
  | _ => false

/-- `errors.WithMessage(err, …)` prefixes / `fmt.Errorf` wrappers on the way to the pool result -/
inductive Wrap
  | provider | aggregator | start | instance (id : Nat) | warmup | newgun | raw
  deriving DecidableEq, Repr

/-- what `instancePool.Run` returns -/
inductive PRes
  | ok | ctx | fail (w : Wrap) (cause : Ret)
  deriving DecidableEq, Repr

inductive MainPc
  | init                    -- before `warmUpGun`
  | warmed                  -- before `runAsync`
  | selecting               -- in the final select
  | returned (r : PRes)
  deriving DecidableEq, Repr

/-- a component goroutine with a 1-buffered result channel that the await loop reads once -/
inductive Comp
  | idle | running | ready (r : Ret) | taken
  deriving DecidableEq, Repr

inductive StartPc
  | idle
  | waiting (first : Bool)  -- inside `waiter.Wait(startCtx)`, entry check passed
  | exiting                 -- `waiter.Wait` saw `startCtx.Done()` at entry
  | done                    -- result sent on `startRes`
  deriving DecidableEq, Repr

inductive AwPc
  | off
  | loop
  | onErr (w : Wrap) (r : Ret) (thenCheck : Bool)   -- blocked in the select of `onErrAwaited`
  | finished                                        -- `close(awaitErr)`, `onWaitDone()` done
  deriving DecidableEq, Repr

structure Gun where
  closable : Bool
  closes : Nat
  deriving DecidableEq, Repr

structure Inst where
  id : Nat
  gun : Option Gun          -- none: goroutine started, `newInstance` not yet run
  deriving DecidableEq, Repr

/-- outcome of `newInstance`: schedule factory, gun factory, `Bind` -/
inductive NewOut
  | schedFail (e : ErrId) | gunFail (e : ErrId) | bindFail (e : ErrId) (closable : Bool) | ok (closable : Bool)
  deriving DecidableEq, Repr

/-- outcome of `warmUpGun` -/
inductive WarmOut
  | gunFail (e : ErrId) | warmFail (e : ErrId) (closable : Bool) | ok (closable : Bool)
  deriving DecidableEq, Repr

structure Cfg where
  /-- `onErrAwaited` selects on the pool context (repaired) instead of the run context (current tree) -/
  fixSelect : Bool
  /-- the `runAsync` error path calls `onWaitDone` -/
  fixWaitDone : Bool
  /-- the warm-up gun and a gun whose `Bind` failed are closed -/
  fixClose : Bool
  deriving DecidableEq, Repr

def Cfg.repaired : Cfg := ⟨true, true, true⟩
def Cfg.current : Cfg := ⟨false, false, false⟩

inductive Choice
  -- environment: caller, components, runtime timers
  | extCancel
  | warm (o : WarmOut)
  | sched (o : Option ErrId)        -- `runAsync`: shared schedule factory result (`none`: built, or per-instance)
  | provRet (r : Ret)
  | aggRet (r : Ret)
  | rpsFinished                     -- shared RPS schedule ran out: callback `cancelStart()`
  | startFirst (o : NewOut)         -- first startup token + synchronous `newInstance(0)`
  | startTick                       -- next startup token: spawn instance goroutine
  | startEnd                        -- `waiter.Wait(startCtx)` returned false
  | instCreate (i : Nat) (o : NewOut)
  | instRet (i : Nat) (r : Ret)     -- `instance.Run` returned r; gun closed; result sent
  -- the engine's selects
  | awaitProv | awaitAgg | awaitStart | awaitRun
  | errDeliver | errSuppress
  | mainCancel | mainClosed
  deriving DecidableEq, Repr

structure State where
  poolC : Bool := false           -- `ctx` of `Pool.Run` (child of the caller's)
  runC : Bool := false            -- `runCtx`
  startC : Bool := false          -- `instanceStartCtx`
  main : MainPc := .init
  waitDone : Nat := 0             -- calls of `onWaitDone`
  prov : Comp := .idle
  agg : Comp := .idle
  startPc : StartPc := .idle
  spawned : Nat := 0              -- `started` in `startInstances`
  startRes : Option (Nat × Ret) := none
  live : List Inst := []          -- instance goroutines that have not sent their result
  buf : List (Nat × Ret) := []    -- `runRes`
  aw : AwPc := .off
  toWait : Nat := 0
  startTaken : Bool := false      -- `ah.startRes == nil`
  runResOpen : Bool := false      -- `ah.runRes != nil`
  startedInstances : Nat := 0
  awaited : Nat := 0
  closedErr : Bool := false       -- `awaitErr` closed
  warmGun : Option Gun := none
  retired : List Gun := []        -- guns whose owner is gone
  -- ghost
  extC : Bool := false            -- the CALLER cancelled (as opposed to the deferred cancel)
  compErrs : List ErrId := []     -- every non-context error some component has returned so far
  errsAtReturn : List ErrId := [] -- `compErrs` when `Pool.Run` returned
  extAtReturn : Bool := false
  panicked : Bool := false        -- engine-side runtime panic (close of nil channel, send on closed channel, log.Panic)
  deriving DecidableEq, Repr

def closeGun (g : Gun) : Gun := if g.closable then { g with closes := g.closes + 1 } else g

def cancelAll (s : State) : State := { s with poolC := true, runC := true, startC := true }

/-- `Pool.Run` returns `r`; its deferred `cancel()` cancels the whole tree -/
def mainReturn (s : State) (r : PRes) : State :=
  cancelAll { s with main := .returned r, errsAtReturn := s.compErrs, extAtReturn := s.extC }

/-- end of an `awaitRun` loop iteration: leave the loop when `toWait = 0` -/
def finish (s : State) : State :=
  if s.aw = .loop ∧ s.toWait = 0 then
    { s with aw := .finished, closedErr := true, waitDone := s.waitDone + 1 }
  else s

/-- `checkAllInstancesAreFinished` -/
def checkAll (s : State) : State :=
  if s.startTaken ∧ s.startedInstances ≤ s.awaited then
    if s.runResOpen = false then { s with panicked := true }      -- close of nil channel
    else if s.buf ≠ [] then { s with panicked := true }          -- "Unexpected run result"
    else { s with runResOpen := false, toWait := s.toWait - 1, runC := true, startC := true }
  else s

/-- continuation after `onErrAwaited` (or when it is skipped) -/
def afterErr (s : State) (chk : Bool) : State :=
  finish (if chk then checkAll { s with aw := .loop } else { s with aw := .loop })

/-- `if !IsCtxError(ctx, err) { onErrAwaited(WithMessage(err, w)) }; [checkAll]` -/
def handleRes (s : State) (w : Wrap) (r : Ret) (done : Bool) (chk : Bool) : State :=
  if r.isCtxError done then afterErr s chk else { s with aw := .onErr w r chk }

def addErr (s : State) : Ret → State
  | .err e => { s with compErrs := s.compErrs ++ [e] }
  | _ => s

/-- a component may return the context's error only when that context is done, and never the engine's private sentinel -/
def retAllowed (done : Bool) : Ret → Bool
  | .ok => true
  | .ctx => done
  | .ooa => false
  | .err _ => true

/-- `runRes <- instanceRunResult{id, r}`; a send on the closed channel is a runtime panic -/
def sendRes (s : State) (id : Nat) (r : Ret) : State :=
  if s.runResOpen = false then { s with panicked := true } else { s with buf := s.buf ++ [(id, r)] }

def nextWait (s : State) : StartPc := if s.startC then .exiting else .waiting false

def step (cfg : Cfg) (s : State) : Choice → State
  | .extCancel => cancelAll { s with extC := true }
  | .warm o =>
    if s.main = .init then
      match o with
      | .gunFail e =>
        mainReturn { s with compErrs := s.compErrs ++ [e], waitDone := s.waitDone + 1 } (.fail .newgun (.err e))
      | .warmFail e c =>
        mainReturn { s with compErrs := s.compErrs ++ [e], waitDone := s.waitDone + 1,
                            warmGun := some ⟨c, if cfg.fixClose ∧ c then 1 else 0⟩ } (.fail .warmup (.err e))
      | .ok c => { s with main := .warmed, warmGun := some ⟨c, if cfg.fixClose ∧ c then 1 else 0⟩ }
    else s
  | .sched o =>
    if s.main = .warmed then
      match o with
      | some e =>
        mainReturn { s with compErrs := s.compErrs ++ [e],
                            waitDone := if cfg.fixWaitDone then s.waitDone + 1 else s.waitDone } (.fail .raw (.err e))
      | none =>
        { s with main := .selecting, prov := .running, agg := .running,
                 startPc := if s.startC then .exiting else .waiting true,
                 aw := .loop, toWait := 4, runResOpen := true }
    else s
  | .provRet r =>
    if s.prov = .running ∧ retAllowed s.runC r then addErr { s with prov := .ready r } r else s
  | .aggRet r =>
    if s.agg = .running ∧ retAllowed s.runC r then addErr { s with agg := .ready r } r else s
  | .rpsFinished =>
    if s.aw ≠ .off then { s with startC := true } else s
  | .startFirst o =>
    if s.startPc = .waiting true then
      match o with
      | .schedFail e =>
        { s with startPc := .done, startRes := some (0, .err e), compErrs := s.compErrs ++ [e] }
      | .gunFail e =>
        { s with startPc := .done, startRes := some (0, .err e), compErrs := s.compErrs ++ [e] }
      | .bindFail e c =>
        { s with startPc := .done, startRes := some (0, .err e), compErrs := s.compErrs ++ [e],
                 retired := s.retired ++ [⟨c, if cfg.fixClose ∧ c then 1 else 0⟩] }
      | .ok c =>
        { s with startPc := nextWait s, spawned := 1, live := s.live ++ [⟨0, some ⟨c, 0⟩⟩] }
    else s
  | .startTick =>
    if s.startPc = .waiting false then
      { s with startPc := nextWait s, spawned := s.spawned + 1, live := s.live ++ [⟨s.spawned, none⟩] }
    else s
  | .startEnd =>
    if s.startPc = .waiting true ∨ s.startPc = .waiting false ∨ s.startPc = .exiting then
      { s with startPc := .done, startRes := some (s.spawned, if s.startC then .ctx else .ok) }
    else s
  | .instCreate i o =>
    match s.live[i]? with
    | some ⟨id, none⟩ =>
      match o with
      | .schedFail e =>
        sendRes { s with live := s.live.eraseIdx i, compErrs := s.compErrs ++ [e] } id (.err e)
      | .gunFail e =>
        sendRes { s with live := s.live.eraseIdx i, compErrs := s.compErrs ++ [e] } id (.err e)
      | .bindFail e c =>
        sendRes { s with live := s.live.eraseIdx i, compErrs := s.compErrs ++ [e],
                         retired := s.retired ++ [⟨c, if cfg.fixClose ∧ c then 1 else 0⟩] } id (.err e)
      | .ok c => { s with live := s.live.set i ⟨id, some ⟨c, 0⟩⟩ }
    | _ => s
  | .instRet i r =>
    match s.live[i]? with
    | some ⟨id, some g⟩ =>
      if r = .ctx ∧ s.runC = false then s else
      sendRes (addErr { s with live := s.live.eraseIdx i, retired := s.retired ++ [closeGun g] } r) id r
    | _ => s
  | .awaitProv =>
    match s.aw, s.prov with
    | .loop, .ready r =>
      handleRes { s with prov := .taken, toWait := s.toWait - 1 } .provider r s.runC false
    | _, _ => s
  | .awaitAgg =>
    match s.aw, s.agg with
    | .loop, .ready r =>
      handleRes { s with agg := .taken, toWait := s.toWait - 1 } .aggregator r s.runC false
    | _, _ => s
  | .awaitStart =>
    match s.aw, s.startTaken, s.startRes with
    | .loop, false, some (n, r) =>
      handleRes { s with startTaken := true, toWait := s.toWait - 1, startedInstances := n } .start r s.startC true
    | _, _, _ => s
  | .awaitRun =>
    match s.aw, s.runResOpen, s.buf with
    | .loop, true, (id, r) :: rest =>
      let s1 := { s with buf := rest, awaited := s.awaited + 1 }
      if r = .ooa then
        afterErr (if s1.startTaken then s1 else { s1 with startC := true }) true
      else handleRes s1 (.instance id) r s.runC true
    | _, _, _ => s
  | .errDeliver =>
    match s.aw, s.main with
    | .onErr w r chk, .selecting => afterErr (mainReturn s (.fail w r)) chk
    | _, _ => s
  | .errSuppress =>
    match s.aw with
    | .onErr _ _ chk =>
      if (if cfg.fixSelect then s.poolC else s.runC) then afterErr s chk else s
    | _ => s
  | .mainCancel =>
    if s.main = .selecting ∧ s.poolC then mainReturn s .ctx else s
  | .mainClosed =>
    if s.main = .selecting ∧ s.closedErr then mainReturn s .ok else s

def init : State := {}

def run (cfg : Cfg) (cs : List Choice) : State := cs.foldl (step cfg) init

/-- all guns the pool has created so far -/
def State.guns (s : State) : List Gun :=
  s.warmGun.toList ++ s.retired ++ s.live.filterMap (·.gun)

/-- the result of `Pool.Run`, if it has returned -/
def State.result (s : State) : Option PRes :=
  match s.main with
  | .returned r => some r
  | _ => none

/-! ### `instance.Run`: the shooting loop of one instance (core/engine/instance.go) -/

/-- what one loop iteration meets -/
inductive Iter
  | outOfAmmo              -- `provider.Acquire` returned !ok
  | waitFalse              -- `waiter.Wait(ctx)` false: context done or schedule finished
  | shot                   -- `gun.Shoot` returned
  | shotPanic (e : ErrId)  -- `gun.Shoot` panicked with value e
  deriving DecidableEq, Repr

/-- result of `instance.Run` over the iterations `its`; when the list (the schedule) is exhausted or the wait
fails the function returns `ctx.Err()`: `ctxDone` says whether the run context is cancelled at that point.
The deferred `recover()` turns a panic into the error `shoot panic: e`. -/
def instRun (ctxDone : Bool) : List Iter → Ret
  | [] => if ctxDone then .ctx else .ok
  | .outOfAmmo :: _ => .ooa
  | .waitFalse :: _ => if ctxDone then .ctx else .ok
  | .shot :: rest => instRun ctxDone rest
  | .shotPanic e :: _ => .err e

/-! ### `Engine.Run`: the loop that consumes the pools' results (core/engine/engine.go) -/

/-- what `Engine.Run` returns: nil, `ctx.Err()`, or pool `pool`'s error wrapped as `"<id>" pool run failed` -/
inductive ERes
  | ok | ctx | fail (pool : Nat) (r : PRes)
  deriving DecidableEq, Repr

/-- what one iteration of the loop meets: a pool's result (`ctxDone` = what the non-blocking check of the engine
context says when that result is an error), or the engine context done -/
inductive EEv
  | pool (id : Nat) (r : PRes) (ctxDone : Bool)
  | ctxDone
  deriving DecidableEq, Repr

/-- `Engine.Run` over `n` pools; `none`: still waiting for a result -/
def engRun : Nat → List EEv → Option ERes
  | 0, _ => some .ok
  | _ + 1, [] => none
  | _ + 1, .ctxDone :: _ => some .ctx
  | n + 1, .pool id r d :: rest =>
    if r = .ok then engRun n rest else if d then some .ctx else some (.fail id r)

end Pandora.Model.C05
