/-
C05, round 6 — the ammo PROVIDERS the engine runs (the component behind `Choice.provRet` of the pool model).

The engine's contract with a provider has two halves that live in the providers, not in the engine:
  * `Run` returns nil only at the REGULAR end of the ammo (the decoder said `io.EOF` itself - which the JSON decoder
    says only when nothing but white space was left -, the limit was reached, or the context was done); every other end
    (the source cannot be opened, the decoder cannot be built, an ammo is cut short / malformed / unreadable) is an error;
  * whenever `Run` returns - on every path, also the failing ones - the ammo queue is closed, so an instance parked in
    `Acquire` (which knows no context) is let go.

Modelled: `core/provider.(*JSONAmmoDecoder).Decode` (`jsonDecode`), `core/provider.(*DecodeProvider).Run` (`decodeRun`,
for every list of decoder answers, every limit, every moment of the cancel), `(*AmmoQueue).Acquire` (`acquire`),
`components/providers/grpc.(*Provider).Run` (`grpcRun`).  Tied to the source by area `c05prov` + `Bridge/C05Prov.lean`
and by the harness dimension `rp:` (the real providers over written sources).
-/
import Pandora.Model.C05Pool

namespace Pandora.Model.C05.Prov

/-- identity of what one `Decode` call returns -/
inductive DecRes
  | ok             -- nil: an ammo was decoded
  | eof            -- `io.EOF` itself
  | unexpectedEof  -- `errors.Wrap(io.ErrUnexpectedEOF, "ammo is truncated")`
  | readErr        -- the read error of the source (not `io.EOF`)
  | parseErr       -- the JSON iterator's own error
  deriving DecidableEq, Repr

/-- what a `JSONAmmoDecoder` finds when `Decode` is called. A read error is `none` (nil), `some true` (`io.EOF`) or
`some false` (any other error) -/
structure DecIn where
  /-- `iter.WhatIsNext() == jsoniter.InvalidValue && iter.Error != nil`: no value starts here -/
  noValue : Bool
  /-- `*readErrorPtr` after `WhatIsNext` -/
  readErr0 : Option Bool
  /-- `iter.Error != nil` after `ReadVal` -/
  parseFails : Bool
  /-- `*readErrorPtr` after `ReadVal` -/
  readErr1 : Option Bool
  deriving DecidableEq, Repr

def errOfPtr : Option Bool → DecRes
  | some true => .eof
  | _ => .readErr

/-- `(*JSONAmmoDecoder).Decode`, branch by branch -/
def jsonDecode (d : DecIn) : DecRes :=
  if d.noValue && d.readErr0.isSome then errOfPtr d.readErr0
  else if d.parseFails then
    if d.readErr1 == some true then .unexpectedEof
    else if d.readErr1.isSome then errOfPtr d.readErr1
    else .parseErr
  else .ok

/-- how `Run` of a provider ended -/
inductive RunRes
  | nil
  | openFailed                          -- "data source open failed" / "failed to open ammo file"
  | decoderFailed                       -- "decoder construction failed"
  | decodeFailed (i : Nat) (e : DecRes) -- "ammo #i decode failed"
  deriving DecidableEq, Repr

def RunRes.isErr : RunRes → Bool
  | .nil => false
  | _ => true

/-- the provider as the POOL model sees it: `Ret` of `Choice.provRet` (error id 1 = the provider) -/
def RunRes.toRet : RunRes → Ret
  | .nil => .ok
  | _ => .err 1

structure Out where
  res : RunRes
  /-- ammo handed to the queue -/
  sent : Nat
  /-- the deferred `close(p.OutQueue)` / `close(p.Sink)` has run -/
  queueClosed : Bool
  deriving DecidableEq, Repr

/-- the loop of `(*DecodeProvider).Run`: `n` = `ammoNum`, `ds` = what the decoder answers from now on, `limit` = 0 for
unlimited, `ctxAt` = the ammo (by number) whose send finds the context done instead.  `none`: the decoder has not
answered yet - `Run` is still in its loop. -/
def runLoop (limit : Nat) (ctxAt : Option Nat) : Nat → List DecRes → Option (RunRes × Nat)
  | n, [] => if limit ≠ 0 ∧ limit ≤ n then some (.nil, n) else none
  | n, d :: rest =>
    if limit ≠ 0 ∧ limit ≤ n then some (.nil, n) else
    match d with
    | .eof => some (.nil, n)
    | .ok => if ctxAt = some n then some (.nil, n) else runLoop limit ctxAt (n + 1) rest
    | e => some (.decodeFailed n e, n)

structure Src where
  openOk : Bool := true
  decoderOk : Bool := true
  limit : Nat := 0

/-- `(*DecodeProvider).Run` -/
def decodeRun (s : Src) (ctxAt : Option Nat) (ds : List DecRes) : Option Out :=
  if !s.openOk then some ⟨.openFailed, 0, true⟩
  else if !s.decoderOk then some ⟨.decoderFailed, 0, true⟩
  else (runLoop s.limit ctxAt 0 ds).map fun (r, n) => ⟨r, n, true⟩

/-- `components/providers/grpc.(*Provider).Run`: `start` = what the concrete provider's `start` returned -/
def grpcRun (openOk : Bool) (start : RunRes) (sent : Nat) : Out :=
  if openOk then ⟨start, sent, true⟩ else ⟨.openFailed, 0, true⟩

/-- `Acquire` (`<-queue`): `some (some a)` an ammo, `some none` the queue is closed and empty (`ok == false`),
`none`: the receive BLOCKS (no context can end it) -/
def acquire (queue : List Nat) (closed : Bool) : Option (Option Nat) :=
  match queue with
  | a :: _ => some (some a)
  | [] => if closed then some none else none

/-! ### the written sources of the harness (`rp:<kind>.<k>.<tail>`), for the end-to-end prediction -/

inductive Tail
  | clean | truncated | garbage | ioError
  deriving DecidableEq, Repr

/-- what the `i`-th `Decode` finds on a source of `k` complete ammo followed by `t` -/
def decInAt (k : Nat) (t : Tail) (i : Nat) : DecIn :=
  if i < k then ⟨false, none, false, none⟩ else
  match t with
  | .clean => ⟨true, some true, true, some true⟩
  | .truncated => ⟨false, none, true, some true⟩
  | .garbage => ⟨false, none, true, none⟩
  | .ioError => ⟨true, some false, true, some false⟩

/-- the decoder's answers on that source, up to and including the first that is not an ammo -/
def answers (k : Nat) (t : Tail) : List DecRes :=
  (List.range (k + 1)).map fun i => jsonDecode (decInAt k t i)

end Pandora.Model.C05.Prov
