/-
C09 — HTTP wire fidelity: model of what pandora does to an ammo entry between the ammo file and the wire.

Core Lean only, executable. Mirrors (file : function):
  components/providers/http/util/request.go : DecodeHeader, DecodeHTTPConfigHeaders, EnrichRequestWithHeaders
  components/providers/http/decoders/uri.go : readLine (header merge), Scan (common header persists, reset per pass)
  components/providers/http/decoders/uripost.go : readBlock (same merge)
  components/providers/http/decoders/jsonline.go : Scan / readArray (clone of configured headers, Set of the entity's)
  components/providers/http/decoders/ammo/ammo.go : Setup, BuildRequest (http.NewRequest + Enrich)
  components/providers/http/decoders/ammo/raw_ammo.go + decoders/raw/decoder.go : http.ReadRequest + Enrich
  components/guns/http/base.go : BaseGun.Shoot (scheme by ssl, Host defaulting, URL.Host := TargetResolved)
  components/guns/http/client.go : getHostWithoutPort
  net/textproto : CanonicalMIMEHeaderKey, http.Header Get/Set/Add/Del (library, modelled; tied by direct comparison)

`mergeUri` is the REPAIRED merge (fixes/C09-uri-header-precedence.diff): configured headers are added only where
the ammo file does not define the header. `mergeUriOld` is the code of the unrepaired tree (configured headers
`Set` over the file's), kept for the counterexample theorem.

Go strings are byte strings: `Str = List Nat` (one Nat per byte).
http.Header (map[string][]string) is an association list with `hget/hput` (= m[k], m[k] = vs); Go's random map
iteration order is a list order here, and every theorem is stated through `hget`, so it holds for every order.
-/
namespace Pandora.Model.C09

abbrev Str := List Nat

def str (s : String) : Str := s.toUTF8.toList.map UInt8.toNat

/-! ## net/textproto.CanonicalMIMEHeaderKey -/

def isLower (c : Nat) : Bool := decide (97 ≤ c) && decide (c ≤ 122)
def isUpper (c : Nat) : Bool := decide (65 ≤ c) && decide (c ≤ 90)
def isDigit (c : Nat) : Bool := decide (48 ≤ c) && decide (c ≤ 57)

/-- the non-alphanumeric RFC 7230 tchar bytes: ! # $ % & ' * + - . ^ _ ` | ~ -/
def isTcharPunct (c : Nat) : Bool :=
  c == 33 || c == 35 || c == 36 || c == 37 || c == 38 || c == 39 || c == 42 || c == 43 || c == 45 || c == 46 ||
  c == 94 || c == 95 || c == 96 || c == 124 || c == 126

/-- textproto.validHeaderFieldByte = httpguts.IsTokenRune on bytes -/
def isTokenByte (c : Nat) : Bool := isLower c || isUpper c || isDigit c || isTcharPunct c

/-- the second loop of canonicalMIMEHeaderKey: upper-case the first letter and every letter after '-' -/
def caseMap : Bool → Str → Str
  | _, [] => []
  | up, c :: cs =>
    let c' := if up && isLower c then c - 32 else if !up && isUpper c then c + 32 else c
    c' :: caseMap (c' == 45) cs

/-- textproto.CanonicalMIMEHeaderKey: keys with a byte that is neither tchar nor space, and keys with a space,
are returned unchanged -/
def canon (k : Str) : Str :=
  if k.all (fun c => isTokenByte c || c == 32) then
    if k.any (· == 32) then k else caseMap true k
  else k

/-! ## http.Header -/

abbrev Hdr := List (Str × List Str)

/-- `h[k]` -/
def hget : Hdr → Str → Option (List Str)
  | [], _ => none
  | (k', vs) :: t, k => if k' = k then some vs else hget t k

/-- `h[k] = vs` -/
def hput : Hdr → Str → List Str → Hdr
  | [], k, vs => [(k, vs)]
  | (k', vs') :: t, k, vs => if k' = k then (k', vs) :: t else (k', vs') :: hput t k vs

/-- `delete(h, k)` -/
def hdel : Hdr → Str → Hdr
  | [], _ => []
  | (k', vs') :: t, k => if k' = k then hdel t k else (k', vs') :: hdel t k

/-- `h.Set(k, v)` -/
def hset (h : Hdr) (k v : Str) : Hdr := hput h (canon k) [v]

/-- `h.Add(k, v)` -/
def hadd (h : Hdr) (k v : Str) : Hdr := hput h (canon k) ((hget h (canon k)).getD [] ++ [v])

/-- "Host" -/
def hostKey : Str := [72, 111, 115, 116]

/-! ## util.DecodeHeader / DecodeHTTPConfigHeaders -/

/-- ASCII part of unicode.IsSpace (strings.TrimSpace); U+0085/U+00A0 and wider are outside the tie's alphabet -/
def isSpace (c : Nat) : Bool := c == 32 || (decide (9 ≤ c) && decide (c ≤ 13))

def trimBy (p : Nat → Bool) (s : Str) : Str := ((s.dropWhile p).reverse.dropWhile p).reverse

def trim (s : Str) : Str := trimBy isSpace s

/-- textproto.TrimString: optional whitespace around an HTTP field value -/
def trimHTTP (s : Str) : Str := trimBy (fun c => c == 32 || c == 9) s

/-- strings.Cut(s, sep) for a one-byte separator -/
def cut : Str → Nat → Option (Str × Str)
  | [], _ => none
  | c :: cs, sep =>
    if c = sep then some ([], cs)
    else match cut cs sep with
      | some (a, b) => some (c :: a, b)
      | none => none

inductive HdrErr where
  | format | emptyKey
  deriving DecidableEq, Repr

/-- util.DecodeHeader : `[key: value]` -/
def decodeHeader (h : Str) : Except HdrErr (Str × Str) :=
  if h.length < 3 ∨ h.head? ≠ some 91 ∨ h.getLast? ≠ some 93 then .error .format
  else match cut ((h.drop 1).dropLast) 58 with
    | none => .error .format
    | some (k, v) =>
      let k := trim k
      if k = [] then .error .emptyKey else .ok (k, trim v)

/-- the loop of util.DecodeHTTPConfigHeaders: stop at the first bad string -/
def decodeAll : List Str → Except HdrErr (List (Str × Str))
  | [] => .ok []
  | s :: rest =>
    match decodeHeader s with
    | .error e => .error e
    | .ok kv => match decodeAll rest with
      | .error e => .error e
      | .ok kvs => .ok (kv :: kvs)

/-- `configHTTPHeaders.Add(key, value)` for every decoded option string -/
def confHdr (conf : List (Str × Str)) : Hdr := conf.foldl (fun h kv => hadd h kv.1 kv.2) []

/-! ## requests -/

structure Req where
  method : Str
  /-- `req.URL.RequestURI()` : what the transport writes into the request line -/
  uri : Str
  /-- `req.Host` -/
  host : Str
  header : Hdr
  body : Str
  /-- `req.Close` -/
  close : Bool := false
  deriving DecidableEq, Repr

/-- "GET" -/
def GET : Str := [71, 69, 84]
/-- "POST" -/
def POST : Str := [80, 79, 83, 84]

/-- "http://" -/
def httpPfx : Str := [104, 116, 116, 112, 58, 47, 47]
/-- "https://" -/
def httpsPfx : Str := [104, 116, 116, 112, 115, 58, 47, 47]

def stripPrefix? : Str → Str → Option Str
  | [], s => some s
  | _ :: _, [] => none
  | p :: ps, c :: cs => if p = c then stripPrefix? ps cs else none

/-- '/', '?', '#' end the authority of a URL -/
def isAuthEnd (c : Nat) : Bool := c == 47 || c == 63 || c == 35

/-- authority and RequestURI of what follows `//` -/
def splitAuth (r : Str) : Str × Str :=
  let tail := r.dropWhile (fun c => !isAuthEnd c)
  (r.takeWhile (fun c => !isAuthEnd c),
    match tail with
    | [] => [47]
    | 63 :: _ => 47 :: tail
    | _ => tail)

/-- (URL.Host, URL.RequestURI()) for the grammar of the tie:
`[http://authority | https://authority | //authority] [/path] [?query]`, no fragment, no userinfo, valid escapes.
`via = false`: net/url.Parse (http.NewRequest: uri, uripost, http/json) — a leading `//` (not `///`) introduces an
authority (RFC 3986 network-path reference); `via = true`: url.ParseRequestURI (http.ReadRequest: raw) — without a
scheme everything is path. -/
def splitURLv (via : Bool) (u : Str) : Str × Str :=
  let rest? := match stripPrefix? httpPfx u with
    | some r => some r
    | none => stripPrefix? httpsPfx u
  match rest? with
  | some r => splitAuth r
  | none =>
    match u with
    | 47 :: 47 :: r => if via || r.head? == some 47 then ([], u) else splitAuth r
    | _ => ([], if u = [] then [47] else u)

/-- net/url.Parse -/
def splitURL (u : Str) : Str × Str := splitURLv false u

/-- http.NewRequest(method, url, body): empty header, Host from the URL -/
def newRequest (method url body : Str) : Req :=
  { method := if method = [] then GET else method
    uri := (splitURL url).2, host := (splitURL url).1, header := [], body := body }

/-- util.EnrichRequestWithHeaders. `none` = the Go code panics (`values[0]` of an empty slice). -/
def enrich (r : Req) : Hdr → Option Req
  | [] => some r
  | (k, vs) :: rest =>
    let key := canon k
    match hget r.header key with
    | some _ => enrich r rest
    | none =>
      if key = hostKey then
        if r.host = [] then
          match vs with
          | [] => none
          | v :: _ => enrich { r with host := v } rest
        else enrich r rest
      else enrich { r with header := hput r.header key vs } rest

/-- ammo.Ammo.BuildRequest -/
def buildAmmo (method url body : Str) (header : Hdr) : Option Req :=
  enrich (newRequest method url body) header

/-! ## the per-decoder merge of in-file and configured headers -/

/-- uri.go readLine / uripost.go readBlock, repaired: clone of the file's common header, configured headers
only where the file has none -/
def mergeUri (common conf : Hdr) : Hdr :=
  conf.foldl (fun h kv => match hget h (canon kv.1) with
    | some _ => h
    | none => hput h (canon kv.1) kv.2) common

/-- the unrepaired tree: `for k, vv := range conf { for _, v := range vv { header.Set(k, v) } }` -/
def mergeUriOld (common conf : Hdr) : Hdr :=
  conf.foldl (fun h kv => kv.2.foldl (fun h v => hset h kv.1 v) h) common

/-- jsonline.go: `header := conf.Clone(); for k, v := range da.Headers { header.Set(k, v) }` -/
def mergeJson (conf : Hdr) (lines : List (Str × Str)) : Hdr :=
  lines.foldl (fun h kv => hset h kv.1 kv.2) conf

/-- the common header of the uri/uripost decoders after the header lines `lines` -/
def commonOf (common : Hdr) (lines : List (Str × Str)) : Hdr :=
  lines.foldl (fun h kv => hset h kv.1 kv.2) common

/-- "Connection" -/
def connKey : Str := [67, 111, 110, 110, 101, 99, 116, 105, 111, 110]
/-- "close" -/
def closeTok : Str := [99, 108, 111, 115, 101]
/-- "keep-alive" -/
def keepAliveTok : Str := [107, 101, 101, 112, 45, 97, 108, 105, 118, 101]

def lowerByte (c : Nat) : Nat := if isUpper c then c + 32 else c

/-- a Connection value of the tie's grammar: one token (no list, no blanks) -/
def simpleTok (v : Str) : Bool := v != [] && v.all isTokenByte

/-- httpguts.HeaderValuesContainsToken(vs, tok) on single-token values: ASCII case-insensitive equality -/
def hasTok (vs : List Str) (tok : Str) : Bool := vs.any fun v => v.map lowerByte == tok

/-- net/http shouldClose(1, minor, header, false): what http.ReadRequest stores in `req.Close` -/
def goShouldClose (minor : Nat) (conn : List Str) : Bool :=
  if minor = 0 then hasTok conn closeTok || !hasTok conn keepAliveTok else hasTok conn closeTok

/-- raw.DecodeRequest after http.ReadRequest, REPAIRED (fixes/C09-raw-http10-keepalive.diff): an HTTP/1.0 request line
alone does not ask to close; an explicit `Connection: close` does, whatever the version -/
def decodeClose (minor : Nat) (conn : List Str) : Bool :=
  if minor = 0 then hasTok conn closeTok else goShouldClose minor conn

/-- the unrepaired tree: `req.Close` as http.ReadRequest left it -/
def decodeCloseOld (minor : Nat) (conn : List Str) : Bool := goShouldClose minor conn

/-- http.ReadRequest for `method target HTTP/1.<minor>`, header lines with token names, body delimited by
Content-Length; followed by raw.DecodeRequest's `RequestURI = ""` (not observable) and its `Close` rule. -/
def readRequestWith (dc : Nat → List Str → Bool) (minor : Nat) (method target : Str) (lines : List (Str × Str))
    (body : Str) : Req :=
  let hdr : Hdr := lines.foldl (fun h kv => hadd h kv.1 (trimHTTP kv.2)) []
  let uh := (splitURLv true target).1
  { method := method, uri := (splitURLv true target).2
    host := if uh ≠ [] then uh else match hget hdr hostKey with
      | some (v :: _) => v
      | _ => []
    header := hdel hdr hostKey, body := body
    close := dc minor ((hget hdr connKey).getD []) }

def readRequest (minor : Nat) (method target : Str) (lines : List (Str × Str)) (body : Str) : Req :=
  readRequestWith decodeClose minor method target lines body

inductive Format where
  | uri | uripost | jsonline | jsonarr | raw
  deriving DecidableEq, Repr

/-- the part of an entry that is not a header line -/
structure Entry where
  method : Str
  uri : Str
  /-- jsonline `host` field; unused by the other formats -/
  host : Str
  body : Str
  /-- raw: minor version of the request line, `HTTP/1.<minor>` -/
  minor : Nat := 1
  deriving DecidableEq, Repr

/-- does the format read its request target with url.ParseRequestURI (raw) rather than url.Parse -/
def viaOf (f : Format) : Bool := f = .raw

/-- the URL handed to `Ammo.Setup` / the request target -/
def urlOf (f : Format) (e : Entry) : Str :=
  match f with
  | .jsonline | .jsonarr => httpPfx ++ e.host ++ e.uri
  | _ => e.uri

def methodOf (f : Format) (e : Entry) : Str :=
  match f with
  | .uri => GET
  | .uripost => POST
  | .jsonline | .jsonarr => if e.method = [] then GET else e.method
  | .raw => e.method

def bodyOf (f : Format) (e : Entry) : Str :=
  match f with
  | .uri => []
  | _ => e.body

/-- decoder + BuildRequest for one entry: `lines` are the decoded header lines in effect for it (uri/uripost:
every `[k: v]` line of this pass so far; jsonline: the entity's `headers`; raw: the request's header lines),
`conf` the decoded `headers` option as http.Header. -/
def buildReq (f : Format) (conf : Hdr) (lines : List (Str × Str)) (e : Entry) : Option Req :=
  match f with
  | .uri => buildAmmo GET e.uri [] (mergeUri (commonOf [] lines) conf)
  | .uripost => buildAmmo POST e.uri e.body (mergeUri (commonOf [] lines) conf)
  | .jsonline | .jsonarr => buildAmmo e.method (httpPfx ++ e.host ++ e.uri) e.body (mergeJson conf lines)
  | .raw => enrich (readRequest e.minor e.method e.uri lines e.body) conf

/-! ## BaseGun.Shoot -/

structure Gun where
  ssl : Bool
  /-- `Config.Target` -/
  target : Str
  /-- `Config.TargetResolved` (PreResolveTargetAddr) -/
  targetResolved : Str
  deriving DecidableEq, Repr

inductive Scheme where
  | http | https
  deriving DecidableEq, Repr

/-- what `Client.Do` is called with -/
structure Shot where
  scheme : Scheme
  /-- `req.URL.Host`: the address the transport dials -/
  dial : Str
  method : Str
  uri : Str
  host : Str
  header : Hdr
  body : Str
  /-- `req.wantsClose()`: the transport will not reuse the connection after this request -/
  close : Bool := false
  deriving DecidableEq, Repr

/-- the connection is not reused after this request: `req.wantsClose()` (`r.Close`, or `close` in the first
Connection value) on the client side, or the target closing because ANY Connection value it received says `close`
(every value is written to the wire) -/
def wantsClose (r : Req) : Bool :=
  r.close || hasTok ((hget r.header connKey).getD []) closeTok

def splitLast (s : Str) (sep : Nat) : Option (Str × Str) :=
  match cut s.reverse sep with
  | some (b, a) => some (a.reverse, b.reverse)
  | none => none

/-- the host of net.SplitHostPort(t); `none` when it fails (no port, stray colons or brackets) -/
def splitHostPort? (t : Str) : Option Str :=
  match splitLast t 58 with
  | none => none
  | some (h, _) =>
    match h with
    | 91 :: inner =>
      if inner.getLast? = some 93 ∧ ¬ (inner.dropLast.contains 91 ∨ inner.dropLast.contains 93) then some inner.dropLast
      else none
    | _ => if h.contains 58 ∨ h.contains 91 ∨ h.contains 93 then none else some h

/-- client.go getHostWithoutPort = net.SplitHostPort's host, the whole target when that fails -/
def hostWithoutPort (t : Str) : Str :=
  match splitHostPort? t with
  | some host => host
  | none => t

def shoot (g : Gun) (r : Req) : Shot :=
  { scheme := if g.ssl then .https else .http
    dial := g.targetResolved
    method := r.method, uri := r.uri
    host := if r.host = [] then hostWithoutPort g.target else r.host
    header := r.header, body := r.body, close := wantsClose r }

/-! ## one pass of a decoder over the file -/

inductive Status where
  | ok | err | panic
  deriving DecidableEq, Repr

/-- an entry as rendered into the file: raw (undecoded) header lines followed by the entry -/
structure Item where
  hdrs : List (Str × Str)
  ent : Entry
  deriving DecidableEq, Repr

/-- the rendered `[k:v]` line as readLine sees it (TrimSpace'd) -/
def headerLine (kv : Str × Str) : Str := trim ([91] ++ kv.1 ++ [58] ++ kv.2 ++ [93])

/-- readLine/readBlock on the header lines of one item: `commonHeader.Set(key, val)`; `none` = decode error -/
def readHeaderLines : Hdr → List (Str × Str) → Option Hdr
  | common, [] => some common
  | common, kv :: rest =>
    match decodeHeader (headerLine kv) with
    | .error _ => none
    | .ok (k, v) => readHeaderLines (hset common k v) rest

/-- netutil.ValidHTTPMethod -/
def validMethod (m : Str) : Bool := m = [] || m.all isTokenByte

/-- uriDecoder.Scan / uripostDecoder.Scan over one pass of the file (`post` selects uripost) -/
def scanUri (post : Bool) (conf : Hdr) : Hdr → List Item → List Req × Status
  | _, [] => ([], .ok)
  | common, it :: rest =>
    match readHeaderLines common it.hdrs with
    | none => ([], .err)
    | some common' =>
      match buildAmmo (if post then POST else GET) it.ent.uri (if post then it.ent.body else [])
          (mergeUri common' conf) with
      | none => ([], .panic)
      | some r => let (rs, st) := scanUri post conf common' rest; (r :: rs, st)

/-- jsonlineDecoder.Scan / readArray -/
def scanJson (conf : Hdr) : List Item → List Req × Status
  | [] => ([], .ok)
  | it :: rest =>
    if !validMethod it.ent.method then ([], .err)
    else match buildAmmo it.ent.method (httpPfx ++ it.ent.host ++ it.ent.uri) it.ent.body
        (mergeJson conf it.hdrs) with
      | none => ([], .panic)
      | some r => let (rs, st) := scanJson conf rest; (r :: rs, st)

/-- rawDecoder.Scan + RawAmmo.BuildRequest -/
def scanRaw (conf : Hdr) : List Item → List Req × Status
  | [] => ([], .ok)
  | it :: rest =>
    match enrich (readRequest it.ent.minor it.ent.method it.ent.uri it.hdrs it.ent.body) conf with
    | none => ([], .panic)
    | some r => let (rs, st) := scanRaw conf rest; (r :: rs, st)

def scanPass (f : Format) (conf : Hdr) (items : List Item) : List Req × Status :=
  match f with
  | .uri => scanUri false conf [] items
  | .uripost => scanUri true conf [] items
  | .jsonline | .jsonarr => scanJson conf items
  | .raw => scanRaw conf items

/-- `passes` passes over the file; the common header starts empty in every pass; stop at the first failure -/
def scanAll (f : Format) (conf : Hdr) (items : List Item) : Nat → List Req × Status
  | 0 => ([], .ok)
  | n + 1 =>
    match scanPass f conf items with
    | (rs, .ok) => let (rs', st) := scanAll f conf items n; (rs ++ rs', st)
    | other => other

/-! ## the provider around the decoder -/

/-- `preload: true`: LoadAmmo decodes one whole pass before anything is delivered (a decode error delivers nothing),
then the loaded entries are cycled `passes` times; otherwise the decoder is scanned as the guns consume. -/
def provide (pre : Bool) (f : Format) (conf : Hdr) (items : List Item) (passes : Nat) : List Req × Status :=
  if pre then
    match scanPass f conf items with
    | (rs, .ok) => ((List.replicate passes rs).flatten, .ok)
    | (_, st) => ([], st)
  else scanAll f conf items passes

/-! ## gun plugins (components/phttp/import/import.go) -/

inductive GunKind where
  | http | http2 | connect
  deriving DecidableEq, Repr

/-- outcome of netutil.LookupReachable(target) -/
inductive Lookup where
  | fails
  | found (addr : Str)
  deriving DecidableEq, Repr

/-- guns/http/base.go PreResolveTargetAddr as the factories use it (`resolved, _ := …`: the error is dropped).
`isResolved` = endpointIsResolved(target): host part is an IP literal. -/
def preResolve (dnsCache isResolved : Bool) (l : Lookup) (target : Str) : Str :=
  if !dnsCache then target
  else if isResolved then target
  else match l with
    | .fails => target
    | .found a => a

/-- `Dialer.DNSCache` after PreResolveTargetAddr: switched off once an address is fixed -/
def dnsCacheAfter (dnsCache isResolved : Bool) (l : Lookup) : Bool :=
  dnsCache && !isResolved && l == .fails

/-- the GunConfig a factory hands to its guns, REPAIRED (fixes/C09-connect-gun-host.diff): every plugin keeps the
configured `target` and stores the pre-resolved address aside -/
def factory (_k : GunKind) (ssl dnsCache isResolved : Bool) (l : Lookup) (target : Str) : Gun :=
  { ssl := ssl, target := target, targetResolved := preResolve dnsCache isResolved l target }

/-- the unrepaired tree: the connect plugin overwrote `Target` with the resolved address -/
def factoryOld (k : GunKind) (ssl dnsCache isResolved : Bool) (l : Lookup) (target : Str) : Gun :=
  match k with
  | .connect => { ssl := ssl, target := preResolve dnsCache isResolved l target,
                  targetResolved := preResolve dnsCache isResolved l target }
  | _ => factory k ssl dnsCache isResolved l target

/-- NewHTTP2Gun refuses `ssl: false`; the other constructors always succeed -/
def constructible (k : GunKind) (ssl : Bool) : Bool :=
  match k with
  | .http2 => ssl
  | _ => true

/-- a tunnel of the connect gun (guns/http/connect.go): the address its TCP connection is dialed at and the authority its
`CONNECT` request names -/
structure Tunnel where
  tcp : Str
  authority : Str
  deriving DecidableEq, Repr

/-- NewConnectGun + newConnectDialFunc: the proxy address is `TargetResolved` (`Target` when that is empty); the transport
asks the dial function for the request's `URL.Host`, which becomes the CONNECT authority -/
def connectTunnel (g : Gun) (s : Shot) : Tunnel :=
  { tcp := if g.targetResolved = [] then g.target else g.targetResolved, authority := s.dial }

/-! ## connections: one http.Transport per gun (NewBaseGun), an instance shoots one request at a time -/

/-- one request as its gun's transport sees it -/
structure Flight where
  /-- index of the gun (instance) that shoots it -/
  gun : Nat
  /-- it reaches the target: passes the transport's header validation and the scheme fits the target -/
  arrived : Bool
  /-- `req.wantsClose()` -/
  close : Bool
  deriving DecidableEq, Repr

/-- state: per gun "an idle kept-alive connection is in the pool", and the number of connections that carried a
request so far. A request that does not arrive changes nothing; one that arrives reuses the idle connection or dials;
the connection goes back to the pool iff keep-alives are on and the request did not ask to close. -/
def connStep (ka : Bool) (st : List Bool × Nat) (f : Flight) : List Bool × Nat :=
  if !f.arrived then st
  else (st.1.set f.gun (ka && !f.close), st.2 + (if st.1.getD f.gun false then 0 else 1))

def connRunFrom (ka : Bool) (st : List Bool × Nat) (fs : List Flight) : List Bool × Nat :=
  fs.foldl (connStep ka) st

/-- connections the target sees for the flights `fs` of `inst` guns, in the order the requests are sent -/
def connRun (ka : Bool) (inst : Nat) (fs : List Flight) : Nat :=
  (connRunFrom ka (List.replicate inst false, 0) fs).2

/-- one gun on its own: `idle` = it holds an idle connection -/
def gunConns (ka : Bool) : Bool → List Flight → Nat
  | _, [] => 0
  | idle, f :: fs =>
    if !f.arrived then gunConns ka idle fs
    else (if idle then 0 else 1) + gunConns ka (ka && !f.close) fs

def countArrived : List Flight → Nat
  | [] => 0
  | f :: fs => (if f.arrived then 1 else 0) + countArrived fs

def countClosing : List Flight → Nat
  | [] => 0
  | f :: fs => (if f.arrived && f.close then 1 else 0) + countClosing fs

/-- which gun shoots the j-th acquired ammo: the schedule, cyclic; round-robin when none is given -/
def gunOf (inst : Nat) (sched : List Nat) (j : Nat) : Nat :=
  if sched = [] then j % inst else sched.getD (j % sched.length) 0

/-! ## time and the transport's options (round 2)

components/guns/http/client.go: `TransportConfig` (the gun options `tls-handshake-timeout` … `expect-continue-timeout`,
squashed into the gun's config), `DefaultTransportConfig`, and `NewTransport`, which copies every field into the
`http.Transport` of the gun's client. Durations are Go's: nanoseconds. What net/http does with the fields (library,
observed on every run): an idle connection is dropped once it has been idle for `IdleConnTimeout` (> 0); a
connection is kept for reuse at all only when keep-alives are on and neither idle limit is negative; an answer whose
header takes `ResponseHeaderTimeout` (> 0) or longer is lost together with its connection. `TLSHandshakeTimeout`,
`ExpectContinueTimeout`, `DisableCompression` have no say about reuse. -/

/-- guns/http/client.go TransportConfig -/
structure TransportCfg where
  tlsHandshakeTimeout : Int
  disableKeepAlives : Bool
  disableCompression : Bool
  maxIdleConns : Int
  maxIdleConnsPerHost : Int
  idleConnTimeout : Int
  responseHeaderTimeout : Int
  expectContinueTimeout : Int
  deriving DecidableEq, Repr

/-- the fields of http.Transport that NewTransport fills from the configuration -/
structure Transport where
  tlsHandshakeTimeout : Int
  disableKeepAlives : Bool
  disableCompression : Bool
  maxIdleConns : Int
  maxIdleConnsPerHost : Int
  idleConnTimeout : Int
  responseHeaderTimeout : Int
  expectContinueTimeout : Int
  deriving DecidableEq, Repr

def msec : Int := 1000000
def sec : Int := 1000000000

/-- client.go DefaultTransportConfig -/
def defaultTransportCfg : TransportCfg :=
  { tlsHandshakeTimeout := 1 * sec, disableKeepAlives := false, disableCompression := true, maxIdleConns := 0,
    maxIdleConnsPerHost := 0, idleConnTimeout := 90 * sec, responseHeaderTimeout := 0, expectContinueTimeout := 1 * sec }

/-- client.go NewTransport: every option reaches the transport field of its own name -/
def newTransport (c : TransportCfg) : Transport :=
  { tlsHandshakeTimeout := c.tlsHandshakeTimeout, disableKeepAlives := c.disableKeepAlives,
    disableCompression := c.disableCompression, maxIdleConns := c.maxIdleConns,
    maxIdleConnsPerHost := c.maxIdleConnsPerHost, idleConnTimeout := c.idleConnTimeout,
    responseHeaderTimeout := c.responseHeaderTimeout, expectContinueTimeout := c.expectContinueTimeout }

/-- the `config:"…"` names of TransportConfig's fields (Go field name, option name), sorted by field name -/
def transportTags : List (String × String) :=
  [("DisableCompression", "disable-compression"), ("DisableKeepAlives", "disable-keep-alives"),
   ("ExpectContinueTimeout", "expect-continue-timeout"), ("IdleConnTimeout", "idle-conn-timeout"),
   ("MaxIdleConns", "max-idle-conns"), ("MaxIdleConnsPerHost", "max-idle-conns-per-host"),
   ("ResponseHeaderTimeout", "response-header-timeout"), ("TLSHandshakeTimeout", "tls-handshake-timeout")]

/-- a gun option given in the config: its documented name and its value (a duration in ns, a count, or 0/1) -/
abbrev TransportOpt := String × Int

/-- config decoding of one transport option: the option name selects the field through `transportTags` -/
def setTransportOpt (c : TransportCfg) (o : TransportOpt) : TransportCfg :=
  match (transportTags.find? fun p => p.2 == o.1).map (·.1) with
  | some "TLSHandshakeTimeout" => { c with tlsHandshakeTimeout := o.2 }
  | some "DisableKeepAlives" => { c with disableKeepAlives := o.2 != 0 }
  | some "DisableCompression" => { c with disableCompression := o.2 != 0 }
  | some "MaxIdleConns" => { c with maxIdleConns := o.2 }
  | some "MaxIdleConnsPerHost" => { c with maxIdleConnsPerHost := o.2 }
  | some "IdleConnTimeout" => { c with idleConnTimeout := o.2 }
  | some "ResponseHeaderTimeout" => { c with responseHeaderTimeout := o.2 }
  | some "ExpectContinueTimeout" => { c with expectContinueTimeout := o.2 }
  | _ => c

/-- the gun's transport for the options given: defaults, overridden option by option, through NewTransport -/
def transportOf (opts : List TransportOpt) : Transport :=
  newTransport (opts.foldl setTransportOpt defaultTransportCfg)

/-- net/http: a connection that served a request goes back to the idle pool -/
def keeps (t : Transport) : Bool :=
  !t.disableKeepAlives && decide (0 ≤ t.maxIdleConnsPerHost) && decide (0 ≤ t.maxIdleConns)

/-- net/http: the idle connection is gone when the gun comes back after `pause` ns -/
def idleExpired (t : Transport) (pause : Nat) : Bool :=
  decide (0 < t.idleConnTimeout) && decide (t.idleConnTimeout ≤ (pause : Int))

/-- net/http: the answer's header takes `delay` ns: lost (with its connection) when that reaches the timeout -/
def responseLost (t : Transport) (delay : Nat) : Bool :=
  decide (0 < t.responseHeaderTimeout) && decide (t.responseHeaderTimeout ≤ (delay : Int))

/-- a request with its timing: `pause` = time since the same gun's previous request that arrived was answered,
`delay` = time the target takes to answer this one -/
structure TFlight where
  gun : Nat
  arrived : Bool
  close : Bool
  pause : Nat
  delay : Nat
  deriving DecidableEq, Repr

def TFlight.untimed (f : TFlight) : Flight := { gun := f.gun, arrived := f.arrived, close := f.close }

/-- `connStep` with time: the idle connection is reused unless it expired during the pause; the connection goes back
to the pool iff the transport keeps connections, the request did not ask to close and its answer was not lost -/
def tconnStep (t : Transport) (st : List Bool × Nat) (f : TFlight) : List Bool × Nat :=
  if !f.arrived then st
  else (st.1.set f.gun (keeps t && !f.close && !responseLost t f.delay),
        st.2 + (if st.1.getD f.gun false && !idleExpired t f.pause then 0 else 1))

def tconnRunFrom (t : Transport) (st : List Bool × Nat) (fs : List TFlight) : List Bool × Nat :=
  fs.foldl (tconnStep t) st

/-- connections the target sees for the timed flights `fs` of `inst` guns whose clients use transport `t` -/
def tconnRun (t : Transport) (inst : Nat) (fs : List TFlight) : Nat :=
  (tconnRunFrom t (List.replicate inst false, 0) fs).2

def countExpired (t : Transport) : List TFlight → Nat
  | [] => 0
  | f :: fs => (if f.arrived && idleExpired t f.pause then 1 else 0) + countExpired t fs

def countLost (t : Transport) : List TFlight → Nat
  | [] => 0
  | f :: fs => (if f.arrived && responseLost t f.delay then 1 else 0) + countLost t fs

/-! ## round 3: the provider's `limit`, shared clients, followed redirects, the body under the gun's optional features -/

/-- the provider's `limit` option (0 = none): at most `lim` ammo are delivered. Without preload the decoder is not asked for
more (provider.go runFullScan checks the limit before it scans), so a decode error or a panic further on is never met; with
preload a whole pass is decoded first (`provide` delivers nothing when that fails). -/
def provideLim (pre : Bool) (f : Format) (conf : Hdr) (items : List Item) (passes lim : Nat) : List Req × Status :=
  let out := provide pre f conf items passes
  if lim = 0 then out
  else if lim ≤ out.1.length then (out.1.take lim, .ok)
  else out

/-- `shared-client` (guns/http/base.go prepareClientPool, Bind; core/clientpool Pool.Next): WarmUp builds `client-number`
clients (at least one), the k-th gun to be bound takes `pool[(k+1) % len]` (`Next` adds one to its counter first) -/
def clientOf (clients gun : Nat) : Nat := (gun + 1) % max clients 1

/-- a flight as the SHARED transports see it: the index of the client stands for the index of the gun -/
def viaShared (clients : Nat) (f : Flight) : Flight := { f with gun := clientOf clients f.gun }

def TFlight.viaShared (clients : Nat) (f : TFlight) : TFlight := { f with gun := clientOf clients f.gun }

/-- requests that reach the host a redirecting target points to: the gun's client follows redirects only when the
operator sets `redirect: true` (client.go NewRedirectingClient); then every answered request is followed once -/
def decoyHits (redirect targetRedirects : Bool) (arrived : Nat) : Nat :=
  if redirect && targetRedirects then arrived else 0

/-- `req.Body` as an io.Reader over the entry's body: `present` = `req.Body != nil && req.Body != http.NoBody`,
`rest` = the bytes a reader still gets (what the transport will put on the wire) -/
structure BodyRd where
  present : Bool
  rest : Str
  deriving DecidableEq, Repr

/-- the body http.NewRequest / http.ReadRequest give a request -/
def BodyRd.fresh (body : Str) : BodyRd := { present := body != [], rest := body }

/-- ioutil.ReadAll(req.Body): everything that is left, nothing is left afterwards -/
def BodyRd.readAll (b : BodyRd) : Str × BodyRd := (b.rest, { b with rest := [] })

/-- `ioutil.NopCloser(bytes.NewBuffer(bs))` -/
def BodyRd.ofBytes (bs : Str) : BodyRd := { present := true, rest := bs }

/-- guns/http/base.go GetBody (answer log): read the body and put an equal one back; the bytes read are kept for the log -/
def getBody (b : BodyRd) : Option Str × BodyRd :=
  if b.present then
    let read := b.readAll
    (some read.1, BodyRd.ofBytes read.1)
  else (none, b)

/-- the same without the put-back (a mutant the bridge lemma must refuse): the transport would send an empty body -/
def getBodyNoPutBack (b : BodyRd) : Option Str × BodyRd :=
  if b.present then
    let read := b.readAll
    (some read.1, read.2)
  else (none, b)

/-- httputil.DumpRequest(req, true) (library): saves the body and restores it -/
def dumpRequestBody (b : BodyRd) : BodyRd := if b.present then BodyRd.ofBytes b.readAll.1 else b

/-- the gun's optional features that see the request before Client.Do (all off by default) -/
structure Feat where
  debugLog : Bool := false
  autoTag : Bool := false
  answLog : Bool := false
  trace : Bool := false
  dump : Bool := false
  deriving DecidableEq, Repr

/-- the body reader Client.Do is handed, after the option-guarded blocks of BaseGun.Shoot in source order: the debug log and
auto-tag only read `req.URL`; the answer log calls GetBody; the trace replaces `req` by a shallow copy with another context
(`req.WithContext`: same Body); the dump calls httputil.DumpRequest -/
def bodyAtDo (ft : Feat) (b : BodyRd) : BodyRd :=
  let b := if ft.answLog then (getBody b).2 else b
  if ft.dump then dumpRequestBody b else b

/-! ## round 4: the shared-client switch, and a transport that serves several requests at once (volleys) -/

/-- guns/http/base.go prepareClientPool: the number of shared clients WarmUp builds for the `shared-client` section
`{enabled, client-number}`; `none` = no pool at all: every instance keeps the client NewBaseGun gave it (Bind replaces it
only when the warm-up result carries a pool). `enabled: false` decides alone, whatever `client-number` says. -/
def sharedPool (enabled : Bool) (clientNumber : Int) : Option Int :=
  if !enabled then none
  else if clientNumber < 1 then some 1
  else some clientNumber

/-- the transport (index) the requests of gun `g` go through: its own without a pool, else the pool's client `clientOf` -/
def transportOfGun (pool : Option Int) (g : Nat) : Nat :=
  match pool with
  | none => g
  | some n => clientOf n.toNat g

/-- net/http (library, observed): idle connections a transport keeps for ONE host — MaxIdleConnsPerHost, where 0 stands for
Go's DefaultMaxIdleConnsPerHost = 2, capped by MaxIdleConns (0 = no limit). Pandora's default leaves both at 0: two. -/
def idleLimit (t : Transport) : Nat :=
  let perHost := if t.maxIdleConnsPerHost = 0 then 2 else t.maxIdleConnsPerHost.toNat
  if t.maxIdleConns = 0 then perHost else min perHost t.maxIdleConns.toNat

/-- what ONE transport sees of a volley: `k` requests that reach the target are in flight together (as many guns share the
transport and shoot at once; a per-instance client never sees more than one), `closing` of them ask to close; the volley
starts `pause` after the answers of the one before, the target answers after `delay` -/
structure Volley where
  k : Nat
  closing : Nat
  pause : Nat
  delay : Nat
  deriving DecidableEq, Repr

/-- state of one transport: (idle connections in its pool, connections that carried a request so far). The idle connections
are gone when the pause reached the idle timeout; the volley takes idle connections as far as they go and dials the rest;
afterwards the connections of the requests that did not ask to close come back (when the transport keeps connections and
the answers were not lost), and the pool keeps at most `idleLimit` of them — the surplus is closed. A volley that brings this
transport nothing changes nothing (`pause` counts from the last volley that did). -/
def vpoolStep (t : Transport) (st : Nat × Nat) (v : Volley) : Nat × Nat :=
  if v.k = 0 then st else
  let idle0 := if idleExpired t v.pause then 0 else st.1
  let reused := min idle0 v.k
  let back := if keeps t && !responseLost t v.delay then v.k - v.closing else 0
  (min (idleLimit t) (idle0 - reused + back), st.2 + (v.k - reused))

def vpoolRunFrom (t : Transport) (st : Nat × Nat) (vs : List Volley) : Nat × Nat :=
  vs.foldl (vpoolStep t) st

/-- connections the target sees from one transport over the volleys `vs` -/
def vpoolRun (t : Transport) (vs : List Volley) : Nat := (vpoolRunFrom t (0, 0) vs).2

/-- a single request as a volley of one (what a per-instance client sees of its instance) -/
def TFlight.volley (f : TFlight) : Volley :=
  { k := if f.arrived then 1 else 0, closing := if f.arrived && f.close then 1 else 0, pause := f.pause, delay := f.delay }

/-- the least a transport can do for volleys: every connection that is in flight at once is one connection -/
def volleyFloor (vs : List Volley) : Nat := vs.foldl (fun m v => max m v.k) 0

/-! ## transport + server (net/http; observed, not proved) -/

def validValueByte (c : Nat) : Bool := (decide (32 ≤ c) && c != 127) || c == 9

/-- the Connection values of the shot are in the tie's grammar (single tokens) -/
def connInGrammar (s : Shot) : Bool :=
  match hget s.header connKey with
  | some vs => vs.all simpleTok
  | none => true

/-- Transport.roundTrip's validateHeaders -/
def sendable (s : Shot) : Bool :=
  s.header.all fun kv => (kv.1 != [] && kv.1.all isTokenByte) && kv.2.all fun v => v.all validValueByte

/-- "User-Agent" -/
def userAgentKey : Str := [85, 115, 101, 114, 45, 65, 103, 101, 110, 116]

/-- header fields as the server's handler sees them, transport-managed names left out -/
def arrivedHeader (h : Hdr) : Hdr :=
  h.filterMap fun kv =>
    if kv.1 = str "Content-Length" ∨ kv.1 = str "Transfer-Encoding" ∨ kv.1 = str "Connection" ∨ kv.1 = str "Trailer"
       ∨ kv.1 = hostKey then none
    else if kv.1 = userAgentKey then
      match kv.2 with
      | v :: _ => if trimHTTP v = [] then none else some (kv.1, [trimHTTP v])
      | [] => none
    else some (kv.1, kv.2.map trimHTTP)

end Pandora.Model.C09

/-- (the generated file opens the namespace `Pandora.Go`) -/
def Pandora.Go.C09.genArea : String := "httpwire"
