/-
C09 — HTTP wire fidelity: model of what pandora does to an ammo entry between the ammo file and the wire.

Core Lean only, executable. Mirrors (file : function):
  components/providers/http/util/request.go : DecodeHeader, DecodeHTTPConfigHeaders, EnrichRequestWithHeaders
  components/providers/http/decoders/uri.go : readLine (header merge), Scan (common header persists, reset per pass)
  components/providers/http/decoders/uripost.go : readBlock (same merge)
  components/providers/http/decoders/jsonline.go : Scan / readArray (clone of configured headers, Set of the entity's)
  components/providers/http/decoders/ammo/ammo.go : Setup, BuildRequest (http.NewRequest + Enrich)
  components/providers/http/decoders/ammo/raw_ammo.go + decoders/raw/decoder.go : http.ReadRequest + Enrich
  components/guns/http/base.go : BaseGun.Shoot (scheme by ssl, Host defaulting, URL.Host := TargetResolved)
  components/guns/http/client.go : getHostWithoutPort
  net/textproto : CanonicalMIMEHeaderKey, http.Header Get/Set/Add/Del (library, modelled; tied by direct comparison)

`mergeUri` is the REPAIRED merge (fixes/C09-uri-header-precedence.diff): configured headers are added only where
the ammo file does not define the header. `mergeUriOld` is the code of the unrepaired tree (configured headers
`Set` over the file's), kept for the counterexample theorem.

Go strings are byte strings: `Str = List Nat` (one Nat per byte).
http.Header (map[string][]string) is an association list with `hget/hput` (= m[k], m[k] = vs); Go's random map
iteration order is a list order here, and every theorem is stated through `hget`, so it holds for every order.
-/
namespace Pandora.Model.C09

abbrev Str := List Nat

def str (s : String) : Str := s.toUTF8.toList.map UInt8.toNat

/-! ## net/textproto.CanonicalMIMEHeaderKey -/

def isLower (c : Nat) : Bool := decide (97 ≤ c) && decide (c ≤ 122)
def isUpper (c : Nat) : Bool := decide (65 ≤ c) && decide (c ≤ 90)
def isDigit (c : Nat) : Bool := decide (48 ≤ c) && decide (c ≤ 57)

/-- the non-alphanumeric RFC 7230 tchar bytes: ! # $ % & ' * + - . ^ _ ` | ~ -/
def isTcharPunct (c : Nat) : Bool :=
  c == 33 || c == 35 || c == 36 || c == 37 || c == 38 || c == 39 || c == 42 || c == 43 || c == 45 || c == 46 ||
  c == 94 || c == 95 || c == 96 || c == 124 || c == 126

/-- textproto.validHeaderFieldByte = httpguts.IsTokenRune on bytes -/
def isTokenByte (c : Nat) : Bool := isLower c || isUpper c || isDigit c || isTcharPunct c

/-- the second loop of canonicalMIMEHeaderKey: upper-case the first letter and every letter after '-' -/
def caseMap : Bool → Str → Str
  | _, [] => []
  | up, c :: cs =>
    let c' := if up && isLower c then c - 32 else if !up && isUpper c then c + 32 else c
    c' :: caseMap (c' == 45) cs

/-- textproto.CanonicalMIMEHeaderKey: keys with a byte that is neither tchar nor space, and keys with a space,
are returned unchanged -/
def canon (k : Str) : Str :=
  if k.all (fun c => isTokenByte c || c == 32) then
    if k.any (· == 32) then k else caseMap true k
  else k

/-! ## http.Header -/

abbrev Hdr := List (Str × List Str)

/-- `h[k]` -/
def hget : Hdr → Str → Option (List Str)
  | [], _ => none
  | (k', vs) :: t, k => if k' = k then some vs else hget t k

/-- `h[k] = vs` -/
def hput : Hdr → Str → List Str → Hdr
  | [], k, vs => [(k, vs)]
  | (k', vs') :: t, k, vs => if k' = k then (k', vs) :: t else (k', vs') :: hput t k vs

/-- `delete(h, k)` -/
def hdel : Hdr → Str → Hdr
  | [], _ => []
  | (k', vs') :: t, k => if k' = k then hdel t k else (k', vs') :: hdel t k

/-- `h.Set(k, v)` -/
def hset (h : Hdr) (k v : Str) : Hdr := hput h (canon k) [v]

/-- `h.Add(k, v)` -/
def hadd (h : Hdr) (k v : Str) : Hdr := hput h (canon k) ((hget h (canon k)).getD [] ++ [v])

/-- "Host" -/
def hostKey : Str := [72, 111, 115, 116]

/-! ## util.DecodeHeader / DecodeHTTPConfigHeaders -/

/-- ASCII part of unicode.IsSpace (strings.TrimSpace); U+0085/U+00A0 and wider are outside the tie's alphabet -/
def isSpace (c : Nat) : Bool := c == 32 || (decide (9 ≤ c) && decide (c ≤ 13))

def trimBy (p : Nat → Bool) (s : Str) : Str := ((s.dropWhile p).reverse.dropWhile p).reverse

def trim (s : Str) : Str := trimBy isSpace s

/-- textproto.TrimString: optional whitespace around an HTTP field value -/
def trimHTTP (s : Str) : Str := trimBy (fun c => c == 32 || c == 9) s

/-- strings.Cut(s, sep) for a one-byte separator -/
def cut : Str → Nat → Option (Str × Str)
  | [], _ => none
  | c :: cs, sep =>
    if c = sep then some ([], cs)
    else match cut cs sep with
      | some (a, b) => some (c :: a, b)
      | none => none

inductive HdrErr where
  | format | emptyKey
  deriving DecidableEq, Repr

/-- util.DecodeHeader : `[key: value]` -/
def decodeHeader (h : Str) : Except HdrErr (Str × Str) :=
  if h.length < 3 ∨ h.head? ≠ some 91 ∨ h.getLast? ≠ some 93 then .error .format
  else match cut ((h.drop 1).dropLast) 58 with
    | none => .error .format
    | some (k, v) =>
      let k := trim k
      if k = [] then .error .emptyKey else .ok (k, trim v)

/-- the loop of util.DecodeHTTPConfigHeaders: stop at the first bad string -/
def decodeAll : List Str → Except HdrErr (List (Str × Str))
  | [] => .ok []
  | s :: rest =>
    match decodeHeader s with
    | .error e => .error e
    | .ok kv => match decodeAll rest with
      | .error e => .error e
      | .ok kvs => .ok (kv :: kvs)

/-- `configHTTPHeaders.Add(key, value)` for every decoded option string -/
def confHdr (conf : List (Str × Str)) : Hdr := conf.foldl (fun h kv => hadd h kv.1 kv.2) []

/-! ## requests -/

structure Req where
  method : Str
  /-- `req.URL.RequestURI()` : what the transport writes into the request line -/
  uri : Str
  /-- `req.Host` -/
  host : Str
  header : Hdr
  body : Str
  deriving DecidableEq, Repr

/-- "GET" -/
def GET : Str := [71, 69, 84]
/-- "POST" -/
def POST : Str := [80, 79, 83, 84]

/-- "http://" -/
def httpPfx : Str := [104, 116, 116, 112, 58, 47, 47]
/-- "https://" -/
def httpsPfx : Str := [104, 116, 116, 112, 115, 58, 47, 47]

def stripPrefix? : Str → Str → Option Str
  | [], s => some s
  | _ :: _, [] => none
  | p :: ps, c :: cs => if p = c then stripPrefix? ps cs else none

/-- '/', '?', '#' end the authority of a URL -/
def isAuthEnd (c : Nat) : Bool := c == 47 || c == 63 || c == 35

/-- (URL.Host, URL.RequestURI()) of net/url.Parse for the grammar of the tie:
`[http://authority | https://authority] [/path] [?query]`, no fragment, no userinfo, valid escapes. -/
def splitURL (u : Str) : Str × Str :=
  let rest? := match stripPrefix? httpPfx u with
    | some r => some r
    | none => stripPrefix? httpsPfx u
  match rest? with
  | none => ([], if u = [] then [47] else u)
  | some r =>
    let tail := r.dropWhile (fun c => !isAuthEnd c)
    (r.takeWhile (fun c => !isAuthEnd c),
      match tail with
      | [] => [47]
      | 63 :: _ => 47 :: tail
      | _ => tail)

/-- http.NewRequest(method, url, body): empty header, Host from the URL -/
def newRequest (method url body : Str) : Req :=
  { method := if method = [] then GET else method
    uri := (splitURL url).2, host := (splitURL url).1, header := [], body := body }

/-- util.EnrichRequestWithHeaders. `none` = the Go code panics (`values[0]` of an empty slice). -/
def enrich (r : Req) : Hdr → Option Req
  | [] => some r
  | (k, vs) :: rest =>
    let key := canon k
    match hget r.header key with
    | some _ => enrich r rest
    | none =>
      if key = hostKey then
        if r.host = [] then
          match vs with
          | [] => none
          | v :: _ => enrich { r with host := v } rest
        else enrich r rest
      else enrich { r with header := hput r.header key vs } rest

/-- ammo.Ammo.BuildRequest -/
def buildAmmo (method url body : Str) (header : Hdr) : Option Req :=
  enrich (newRequest method url body) header

/-! ## the per-decoder merge of in-file and configured headers -/

/-- uri.go readLine / uripost.go readBlock, repaired: clone of the file's common header, configured headers
only where the file has none -/
def mergeUri (common conf : Hdr) : Hdr :=
  conf.foldl (fun h kv => match hget h (canon kv.1) with
    | some _ => h
    | none => hput h (canon kv.1) kv.2) common

/-- the unrepaired tree: `for k, vv := range conf { for _, v := range vv { header.Set(k, v) } }` -/
def mergeUriOld (common conf : Hdr) : Hdr :=
  conf.foldl (fun h kv => kv.2.foldl (fun h v => hset h kv.1 v) h) common

/-- jsonline.go: `header := conf.Clone(); for k, v := range da.Headers { header.Set(k, v) }` -/
def mergeJson (conf : Hdr) (lines : List (Str × Str)) : Hdr :=
  lines.foldl (fun h kv => hset h kv.1 kv.2) conf

/-- the common header of the uri/uripost decoders after the header lines `lines` -/
def commonOf (common : Hdr) (lines : List (Str × Str)) : Hdr :=
  lines.foldl (fun h kv => hset h kv.1 kv.2) common

/-- http.ReadRequest for `method target HTTP/1.1`, header lines with token names, body delimited by
Content-Length; followed by raw.DecodeRequest's `RequestURI = ""` (not observable). -/
def readRequest (method target : Str) (lines : List (Str × Str)) (body : Str) : Req :=
  let hdr : Hdr := lines.foldl (fun h kv => hadd h kv.1 (trimHTTP kv.2)) []
  let uh := (splitURL target).1
  { method := method, uri := (splitURL target).2
    host := if uh ≠ [] then uh else match hget hdr hostKey with
      | some (v :: _) => v
      | _ => []
    header := hdel hdr hostKey, body := body }

inductive Format where
  | uri | uripost | jsonline | jsonarr | raw
  deriving DecidableEq, Repr

/-- the part of an entry that is not a header line -/
structure Entry where
  method : Str
  uri : Str
  /-- jsonline `host` field; unused by the other formats -/
  host : Str
  body : Str
  deriving DecidableEq, Repr


/-- the URL handed to `Ammo.Setup` / the request target -/
def urlOf (f : Format) (e : Entry) : Str :=
  match f with
  | .jsonline | .jsonarr => httpPfx ++ e.host ++ e.uri
  | _ => e.uri

def methodOf (f : Format) (e : Entry) : Str :=
  match f with
  | .uri => GET
  | .uripost => POST
  | .jsonline | .jsonarr => if e.method = [] then GET else e.method
  | .raw => e.method

def bodyOf (f : Format) (e : Entry) : Str :=
  match f with
  | .uri => []
  | _ => e.body

/-- decoder + BuildRequest for one entry: `lines` are the decoded header lines in effect for it (uri/uripost:
every `[k: v]` line of this pass so far; jsonline: the entity's `headers`; raw: the request's header lines),
`conf` the decoded `headers` option as http.Header. -/
def buildReq (f : Format) (conf : Hdr) (lines : List (Str × Str)) (e : Entry) : Option Req :=
  match f with
  | .uri => buildAmmo GET e.uri [] (mergeUri (commonOf [] lines) conf)
  | .uripost => buildAmmo POST e.uri e.body (mergeUri (commonOf [] lines) conf)
  | .jsonline | .jsonarr => buildAmmo e.method (httpPfx ++ e.host ++ e.uri) e.body (mergeJson conf lines)
  | .raw => enrich (readRequest e.method e.uri lines e.body) conf

/-! ## BaseGun.Shoot -/

structure Gun where
  ssl : Bool
  /-- `Config.Target` -/
  target : Str
  /-- `Config.TargetResolved` (PreResolveTargetAddr) -/
  targetResolved : Str
  deriving DecidableEq, Repr

inductive Scheme where
  | http | https
  deriving DecidableEq, Repr

/-- what `Client.Do` is called with -/
structure Shot where
  scheme : Scheme
  /-- `req.URL.Host`: the address the transport dials -/
  dial : Str
  method : Str
  uri : Str
  host : Str
  header : Hdr
  body : Str
  deriving DecidableEq, Repr

def splitLast (s : Str) (sep : Nat) : Option (Str × Str) :=
  match cut s.reverse sep with
  | some (b, a) => some (a.reverse, b.reverse)
  | none => none

/-- client.go getHostWithoutPort = net.SplitHostPort's host, the whole target when that fails -/
def hostWithoutPort (t : Str) : Str :=
  match splitLast t 58 with
  | none => t
  | some (h, _) =>
    match h with
    | 91 :: inner =>
      if inner.getLast? = some 93 ∧ ¬ (inner.dropLast.contains 91 ∨ inner.dropLast.contains 93) then inner.dropLast else t
    | _ => if h.contains 58 ∨ h.contains 91 ∨ h.contains 93 then t else h

def shoot (g : Gun) (r : Req) : Shot :=
  { scheme := if g.ssl then .https else .http
    dial := g.targetResolved
    method := r.method, uri := r.uri
    host := if r.host = [] then hostWithoutPort g.target else r.host
    header := r.header, body := r.body }

/-! ## one pass of a decoder over the file -/

inductive Status where
  | ok | err | panic
  deriving DecidableEq, Repr

/-- an entry as rendered into the file: raw (undecoded) header lines followed by the entry -/
structure Item where
  hdrs : List (Str × Str)
  ent : Entry
  deriving DecidableEq, Repr

/-- the rendered `[k:v]` line as readLine sees it (TrimSpace'd) -/
def headerLine (kv : Str × Str) : Str := trim ([91] ++ kv.1 ++ [58] ++ kv.2 ++ [93])

/-- readLine/readBlock on the header lines of one item: `commonHeader.Set(key, val)`; `none` = decode error -/
def readHeaderLines : Hdr → List (Str × Str) → Option Hdr
  | common, [] => some common
  | common, kv :: rest =>
    match decodeHeader (headerLine kv) with
    | .error _ => none
    | .ok (k, v) => readHeaderLines (hset common k v) rest

/-- netutil.ValidHTTPMethod -/
def validMethod (m : Str) : Bool := m = [] || m.all isTokenByte

/-- uriDecoder.Scan / uripostDecoder.Scan over one pass of the file (`post` selects uripost) -/
def scanUri (post : Bool) (conf : Hdr) : Hdr → List Item → List Req × Status
  | _, [] => ([], .ok)
  | common, it :: rest =>
    match readHeaderLines common it.hdrs with
    | none => ([], .err)
    | some common' =>
      match buildAmmo (if post then POST else GET) it.ent.uri (if post then it.ent.body else [])
          (mergeUri common' conf) with
      | none => ([], .panic)
      | some r => let (rs, st) := scanUri post conf common' rest; (r :: rs, st)

/-- jsonlineDecoder.Scan / readArray -/
def scanJson (conf : Hdr) : List Item → List Req × Status
  | [] => ([], .ok)
  | it :: rest =>
    if !validMethod it.ent.method then ([], .err)
    else match buildAmmo it.ent.method (httpPfx ++ it.ent.host ++ it.ent.uri) it.ent.body
        (mergeJson conf it.hdrs) with
      | none => ([], .panic)
      | some r => let (rs, st) := scanJson conf rest; (r :: rs, st)

/-- rawDecoder.Scan + RawAmmo.BuildRequest -/
def scanRaw (conf : Hdr) : List Item → List Req × Status
  | [] => ([], .ok)
  | it :: rest =>
    match enrich (readRequest it.ent.method it.ent.uri it.hdrs it.ent.body) conf with
    | none => ([], .panic)
    | some r => let (rs, st) := scanRaw conf rest; (r :: rs, st)

def scanPass (f : Format) (conf : Hdr) (items : List Item) : List Req × Status :=
  match f with
  | .uri => scanUri false conf [] items
  | .uripost => scanUri true conf [] items
  | .jsonline | .jsonarr => scanJson conf items
  | .raw => scanRaw conf items

/-- `passes` passes over the file; the common header starts empty in every pass; stop at the first failure -/
def scanAll (f : Format) (conf : Hdr) (items : List Item) : Nat → List Req × Status
  | 0 => ([], .ok)
  | n + 1 =>
    match scanPass f conf items with
    | (rs, .ok) => let (rs', st) := scanAll f conf items n; (rs ++ rs', st)
    | other => other

/-! ## connections (per-instance clients, requests shot round-robin one at a time) -/

def countTrue : List Bool → Nat
  | [] => 0
  | b :: bs => (if b then 1 else 0) + countTrue bs

/-- does gun `g` of `inst` carry at least one of the arrived requests (request j is shot by gun j mod inst) -/
def gunUsed (inst g : Nat) : Nat → List Bool → Bool
  | _, [] => false
  | j, a :: as => (a && j % inst == g) || gunUsed inst g (j + 1) as

/-- the one-line model: with keep-alive every gun that sends anything uses one connection for all of it;
without, every request has its own -/
def connsOf (ka : Bool) (inst : Nat) (arrived : List Bool) : Nat :=
  if ka then ((List.range inst).filter fun g => gunUsed inst g 0 arrived).length
  else countTrue arrived

/-! ## transport + server (net/http; observed, not proved) -/

def validValueByte (c : Nat) : Bool := (decide (32 ≤ c) && c != 127) || c == 9

/-- Transport.roundTrip's validateHeaders -/
def sendable (s : Shot) : Bool :=
  s.header.all fun kv => (kv.1 != [] && kv.1.all isTokenByte) && kv.2.all fun v => v.all validValueByte

/-- "User-Agent" -/
def userAgentKey : Str := [85, 115, 101, 114, 45, 65, 103, 101, 110, 116]

/-- header fields as the server's handler sees them, transport-managed names left out -/
def arrivedHeader (h : Hdr) : Hdr :=
  h.filterMap fun kv =>
    if kv.1 = str "Content-Length" ∨ kv.1 = str "Transfer-Encoding" ∨ kv.1 = str "Connection" ∨ kv.1 = str "Trailer"
       ∨ kv.1 = hostKey then none
    else if kv.1 = userAgentKey then
      match kv.2 with
      | v :: _ => if trimHTTP v = [] then none else some (kv.1, [trimHTTP v])
      | [] => none
    else some (kv.1, kv.2.map trimHTTP)

end Pandora.Model.C09
