/-
C03 — the pool's own bookkeeping: `runAwaitHandle.awaitRun` (core/engine/engine.go), the loop that decides WHEN A POOL
IS OVER, when the start of further instances is cancelled and when the run context of the instances is cancelled.

    for ah.toWait > 0 { select {
      case err := <-ah.providerErr:    ah.providerErr = nil;  ah.toWait--; if !IsCtxError(runCtx, err) { onErrAwaited }
      case err := <-ah.aggregatorErr:  ah.aggregatorErr = nil; ah.toWait--; if !IsCtxError(runCtx, err) { onErrAwaited }
      case res := <-ah.startRes:       ah.startRes = nil; ah.toWait--; ah.startedInstances = res.Started
                                       if !IsCtxError(instanceStartCtx, res.Err) { onErrAwaited }
                                       ah.checkAllInstancesAreFinished()
      case res := <-ah.runRes:         ah.awaitedInstances++
                                       if res.Err == outOfAmmoErr { if !ah.isStartFinished() { ah.instanceStartCancel() } }
                                       else if !IsCtxError(runCtx, res.Err) { onErrAwaited }
                                       ah.checkAllInstancesAreFinished()
    } }
    checkAllInstancesAreFinished:  if !(isStartFinished() && awaitedInstances >= startedInstances) { return }
                                   close(runRes); …; ah.runRes = nil; ah.toWait--; ah.runCancel()

The results arrive in ANY order (the run results of instances that end before the last one is started come before the
start result, the provider may end before or after the instances …): a run is a list of `Res`.

Two things live here:
* the model `astep` / `arun` the theorems are about, and
* a tiny flat statement language `AInstr` with its interpreter `execA`: `/verif/gen -area instloop` re-extracts the four
  `case` bodies, the body of `checkAllInstancesAreFinished`, its condition and the initial counters from the current
  source; `Pandora.Bridge.C03Await` proves that executing the REGENERATED statements is `astep`, for every state and
  result (not for samples).
-/
namespace Pandora.Model.C03Await

inductive Chan where
  | provider | aggregator | start | run
deriving DecidableEq, Repr

/-- which context an error is compared with in `errutil.IsCtxError` -/
inductive Ctx where
  | run | start
deriving DecidableEq, Repr

/-- a received result, as far as `awaitRun` looks at it -/
structure Res where
  chan : Chan
  badRun : Bool := false     -- the error is non-nil and not the cancellation error of `runCtx`
  badStart : Bool := false   -- … not the cancellation error of `instanceStartCtx`
  outOfAmmo : Bool := false  -- `res.Err == outOfAmmoErr` (run results only)
  started : Nat := 0         -- `res.Started` (start result only)
deriving DecidableEq, Repr

structure ASt where
  toWait : Nat
  provOpen : Bool            -- `ah.providerErr != nil`
  aggrOpen : Bool
  startOpen : Bool           -- `ah.startRes != nil`, i.e. `!isStartFinished()`
  runOpen : Bool             -- `ah.runRes != nil` (not closed)
  started : Int              -- `ah.startedInstances` (-1 = undefined until the start result)
  awaited : Nat              -- `ah.awaitedInstances`
  startCancels : Nat := 0    -- calls of `instanceStartCancel()`
  runCancels : Nat := 0      -- calls of `runCancel()`
  errs : Nat := 0            -- calls of `onErrAwaited(…)`
deriving DecidableEq, Repr

def ainit : ASt :=
  { toWait := 4, provOpen := true, aggrOpen := true, startOpen := true, runOpen := true, started := -1, awaited := 0 }

/-- `checkAllInstancesAreFinished` -/
def checkAll (s : ASt) : ASt :=
  if !s.startOpen && s.started ≤ (s.awaited : Int) then
    { s with runOpen := false, toWait := s.toWait - 1, runCancels := s.runCancels + 1 }
  else s

def bump (b : Bool) (n : Nat) : Nat := if b then n + 1 else n

/-- one received result; `none` = it cannot be received (that channel is nil / closed: a second provider result, or a
run result after `close(runRes)` — the sending instance would panic with "send on closed channel") -/
def astep (s : ASt) (r : Res) : Option ASt :=
  match r.chan with
  | .provider =>
    if s.provOpen then some { s with provOpen := false, toWait := s.toWait - 1, errs := bump r.badRun s.errs } else none
  | .aggregator =>
    if s.aggrOpen then some { s with aggrOpen := false, toWait := s.toWait - 1, errs := bump r.badRun s.errs } else none
  | .start =>
    if s.startOpen then
      some (checkAll { s with startOpen := false, toWait := s.toWait - 1, started := r.started, errs := bump r.badStart s.errs })
    else none
  | .run =>
    if s.runOpen then
      let s1 := { s with awaited := s.awaited + 1 }
      let s2 := if r.outOfAmmo then { s1 with startCancels := bump s1.startOpen s1.startCancels }
                else { s1 with errs := bump r.badRun s1.errs }
      some (checkAll s2)
    else none

def arun : ASt → List Res → Option ASt
  | s, [] => some s
  | s, r :: rs => match astep s r with
    | some s' => arun s' rs
    | none => none

/-- the loop `for ah.toWait > 0` has ended -/
def ASt.over (s : ASt) : Bool := s.toWait == 0

/-! ### the statement language of the regenerated `case` bodies -/

inductive AInstr where
  | closeChan (c : Chan)   -- `ah.<chan> = nil`
  | decToWait              -- `ah.toWait--`
  | setStarted             -- `ah.startedInstances = res.Started`
  | incAwaited             -- `ah.awaitedInstances++`
  | ifBad (c : Ctx)        -- `if !errutil.IsCtxError(ah.<ctx>, <the received error>) {`
  | ifOutOfAmmo            -- `if res.Err == outOfAmmoErr {`
  | elseIfBad (c : Ctx)    -- `} else if !errutil.IsCtxError(ah.<ctx>, res.Err) {`
  | ifStartOpen            -- `if !ah.isStartFinished() {`
  | orElse                 -- `} else {`
  | endIf                  -- `}`
  | onErr                  -- `ah.onErrAwaited(…)`
  | startCancel            -- `ah.instanceStartCancel()`
  | runCancel              -- `ah.runCancel()`
  | closeRunRes            -- `close(ah.runRes)` + the assertion that nothing is left in it
  | checkAll               -- `ah.checkAllInstancesAreFinished()`
  | other (src : String)   -- anything else: not a statement of the model
deriving DecidableEq, Repr

/-- interpreter state: the handle, whether a statement outside the language was met, how `checkAll` is to be run -/
structure XSt where
  s : ASt
  bad : Bool := false

/-- skipping to the matching `orElse` / `elseIfBad` / `endIf` of an `if` whose condition was false (depth = nested ifs
opened while skipping); `taken` = a branch of the current if-chain has already run, skip the rest of the chain -/
inductive Mode where
  | run
  | skipElse (depth : Nat)   -- condition false: look for the else part
  | skipEnd (depth : Nat)    -- a branch has run: skip to the end of the chain
deriving DecidableEq

def isIf : AInstr → Bool
  | .ifBad _ | .ifOutOfAmmo | .ifStartOpen => true
  | _ => false

def badFor (r : Res) : Ctx → Bool
  | .run => r.badRun
  | .start => r.badStart

/-- `check` = what `ah.checkAllInstancesAreFinished()` does (the regenerated body, run by `execCheck`) -/
def execA (check : ASt → ASt × Bool) : List AInstr → Res → Mode → XSt → XSt
  | [], _, _, x => x
  | i :: rest, r, .skipElse d, x =>
    match i with
    | .endIf => if d = 0 then execA check rest r .run x else execA check rest r (.skipElse (d - 1)) x
    | .orElse => if d = 0 then execA check rest r .run x else execA check rest r (.skipElse d) x
    | .elseIfBad c =>
      if d = 0 then (if badFor r c then execA check rest r .run x else execA check rest r (.skipElse 0) x)
      else execA check rest r (.skipElse d) x
    | i => if isIf i then execA check rest r (.skipElse (d + 1)) x else execA check rest r (.skipElse d) x
  | i :: rest, r, .skipEnd d, x =>
    match i with
    | .endIf => if d = 0 then execA check rest r .run x else execA check rest r (.skipEnd (d - 1)) x
    | i => if isIf i then execA check rest r (.skipEnd (d + 1)) x else execA check rest r (.skipEnd d) x
  | i :: rest, r, .run, x =>
    match i with
    | .closeChan c =>
      let s := x.s
      let s' := match c with
        | .provider => { s with provOpen := false }
        | .aggregator => { s with aggrOpen := false }
        | .start => { s with startOpen := false }
        | .run => { s with runOpen := false }
      execA check rest r .run { x with s := s' }
    | .decToWait => execA check rest r .run { x with s := { x.s with toWait := x.s.toWait - 1 } }
    | .setStarted => execA check rest r .run { x with s := { x.s with started := r.started } }
    | .incAwaited => execA check rest r .run { x with s := { x.s with awaited := x.s.awaited + 1 } }
    | .ifBad c => if badFor r c then execA check rest r .run x else execA check rest r (.skipElse 0) x
    | .ifOutOfAmmo => if r.outOfAmmo then execA check rest r .run x else execA check rest r (.skipElse 0) x
    | .ifStartOpen => if x.s.startOpen then execA check rest r .run x else execA check rest r (.skipElse 0) x
    | .elseIfBad _ => execA check rest r (.skipEnd 0) x
    | .orElse => execA check rest r (.skipEnd 0) x
    | .endIf => execA check rest r .run x
    | .onErr => execA check rest r .run { x with s := { x.s with errs := x.s.errs + 1 } }
    | .startCancel => execA check rest r .run { x with s := { x.s with startCancels := x.s.startCancels + 1 } }
    | .runCancel => execA check rest r .run { x with s := { x.s with runCancels := x.s.runCancels + 1 } }
    | .closeRunRes => execA check rest r .run x
    | .checkAll =>
      let (s', b) := check x.s
      execA check rest r .run { s := s', bad := x.bad || b }
    | .other _ => execA check rest r .run { x with bad := true }

/-- the regenerated `checkAllInstancesAreFinished`: `cond startFinished awaited started` is its (regenerated) test,
`body` the statements after the early return -/
def execCheck (cond : Bool → Int → Int → Bool) (body : List AInstr) (s : ASt) : ASt × Bool :=
  if cond (!s.startOpen) (s.awaited : Int) s.started then
    let x := execA (fun s => (s, true)) body { chan := .run } .run { s := s }   -- no nested checkAll
    (x.s, x.bad)
  else (s, false)

/-- one received result, by the regenerated statements: the channel must be open (the `select` only receives from
non-nil channels), then the case body runs -/
def stepBy (cases : Chan → List AInstr) (cond : Bool → Int → Int → Bool) (body : List AInstr) (s : ASt) (r : Res) :
    Option (ASt × Bool) :=
  let open_ := match r.chan with
    | .provider => s.provOpen
    | .aggregator => s.aggrOpen
    | .start => s.startOpen
    | .run => s.runOpen
  if open_ then
    let x := execA (execCheck cond body) (cases r.chan) r .run { s := s }
    some (x.s, x.bad)
  else none

end Pandora.Model.C03Await
