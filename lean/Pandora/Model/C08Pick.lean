/-
C08 (round 4) — three input dimensions the earlier models left out.

1. **chosencases** (http kinds, grpc/json).  "entries" of the property are the entries a pass DELIVERS: with a
   chosencases option the entries of the file whose tag is listed.  The loops of `Model.C08` already carry the filter
   (`fullScan`, `httpRun`, `grpcLoop` take `chosen`); `Model.C08.runFuel` runs grpc/json without one.  `runFuelPick` /
   `runPick` run every kind that has the option with it; a file is `List.range n`, the option the list of the ids whose
   tag it names.

2. **data sources of the generic JSON provider** (core/datasource/{file,std}.go; core/provider/decoder.go
   `DecodeProvider.Run` → lib/ioutil2 `NewMultiPassReader`).  What `OpenSource` returns can or cannot `Seek`; a source that
   cannot is read ONCE whatever `passes` says (`NewMultiPassReader` returns it as it is).  `SrcKind`, `OpenRes`,
   `opensOf`, `SrcKind.seekable`, `effPasses`, `genericRunSrc`.

3. **machine integers**.  The counters and bounds of the replay loops are `uint` in Go (modular arithmetic); the models
   use `Nat`.  `replayStepU` is the loop body of runPreloaded / scenario `Run` over `UInt64`; `Proofs/C08Pick.lean` proves
   it equal to the `Nat` step for EVERY 64-bit value of limit, passes, length and every counter that has not itself
   wrapped, and that the variant with a precomputed product `passes * length` is not.
-/
import Pandora.Model.C08
import Pandora.Model.C08Mach
import Pandora.Model.C08Scan

namespace Pandora.Model.C08

/-! ## chosencases -/

/-- kinds whose config has a `chosencases` option -/
def Kind.hasFilter : Kind → Bool
  | .uri | .uripost | .raw | .jsonLines | .jsonArray | .grpcJson => true
  | _ => false

/-- the predicate of a chosencases option that lists the tags of the entries `pick` -/
def pickPred (pick : List Nat) : Nat → Bool := fun i => pick.contains i

/-- as `runFuel`, and grpc/json with its filter too -/
def runFuelPick {α : Type} (inp : Input) (file : List α) (chosen : α → Bool) (fuel : Nat) : Option (Outcome α) :=
  match inp.kind with
  | .grpcJson => grpcRun file chosen inp.b inp.cancelAt fuel
  | _ => runFuel inp file chosen fuel

/-- the entries one pass delivers -/
def chosenOf (n : Nat) (pick : List Nat) : List Nat := (List.range n).filter (pickPred pick)

/-- a cell with a chosencases option: file = the entries 0..n-1, listed = `pick` -/
def runPick (inp : Input) (n : Nat) (pick : List Nat) : Option (Outcome Nat) :=
  match target inp.b.limit inp.b.passes (chosenOf n pick).length inp.cancelAt with
  | none => none
  | some t => runFuelPick inp (List.range n) (pickPred pick) (fuelFor t n (chosenOf n pick).length)

/-! ## data sources of the generic JSON provider -/

/-- the data sources of core/datasource a `DecodeProvider` can be given -/
inductive SrcKind where
  | file            -- datasource.NewFile: fs.Open
  | inline          -- datasource.NewInline / NewString (`type: inline`)
  | readSeeker      -- datasource.NewReader over an io.ReadSeeker that is no io.Closer
  | readSeekCloser  -- datasource.NewReader over an io.ReadSeeker that is an io.Closer
  | readCloser      -- datasource.NewReader over an io.ReadCloser that cannot Seek (a pipe, a response body)
  | reader          -- datasource.NewReader over a plain io.Reader
  | buffer          -- datasource.NewBuffer
  deriving DecidableEq, Repr, Inhabited

/-- what one `return` of an `OpenSource` method hands out -/
inductive OpenRes where
  | same      -- the reader the source was built from, as it is (keeps whatever it can do)
  | seekable  -- a value whose static type has `Seek`
  | plain     -- a value whose static type has no `Seek` (e.g. ioutil.NopCloser(…): hides it)
  deriving DecidableEq, Repr, Inhabited

/-- which `return` of `OpenSource` a source kind takes: `readerSource.OpenSource` returns an io.ReadCloser as it is,
wraps an io.ReadSeeker keeping `Seek`, and hides everything else behind NopCloser; the other sources have one return. -/
def opensOf : SrcKind → OpenRes
  | .file => .seekable
  | .inline => .seekable
  | .readSeekCloser => .same
  | .readSeeker => .seekable
  | .readCloser => .same
  | .reader => .plain
  | .buffer => .plain

/-- can what the source was built from be rewound? -/
def SrcKind.rewindable : SrcKind → Bool
  | .readCloser | .reader | .buffer => false
  | _ => true

/-- can the provider rewind what `OpenSource` gave it? -/
def SrcKind.seekable (k : SrcKind) : Bool :=
  match opensOf k with
  | .same => k.rewindable
  | .seekable => true
  | .plain => false

/-- `NewMultiPassReader`: `passes == 1` or a source without `Seek` ⇒ the source itself, i.e. one pass -/
def effPasses (seekable : Bool) (passes : Nat) : Nat := if seekable then passes else 1

/-- `DecodeProvider.Run` over a source of kind `k` -/
def genericRunSrc {α : Type} (k : SrcKind) (file : List α) (b : Bounds) (cancelAt : Option Nat) (fuel : Nat) : Option (Outcome α) :=
  genericRun file { b with passes := effPasses k.seekable b.passes } cancelAt fuel

/-- a generic JSON cell over a source of kind `k` -/
def runSrc (k : SrcKind) (inp : Input) (n : Nat) : Option (Outcome Nat) :=
  run { inp with kind := .genericJson, b := { inp.b with passes := effPasses k.seekable inp.b.passes } } n

/-! ## scenario weights

The scenario providers (http/scenario, grpc/scenario) replay the list their decoder builds from the `scenarios:` of the
file: scenario `i`, in file order, `weight_i / g` times in a row, `g` = the greatest common divisor of all weights, a weight
0 counting as 1 (config.SpreadNames + decodeAmmo).  These are the "entries" of a pass. -/

/-- the weights as SpreadNames reads them: 0 = 1 -/
def normWeights (ws : List Nat) : List Nat := ws.map (fun w => if w = 0 then 1 else w)

/-- greatest common divisor of a list (0 for the empty list) -/
def gcdList (ws : List Nat) : Nat := ws.foldr Nat.gcd 0

/-- how many times each scenario occurs in a pass -/
def spreadCounts (ws : List Nat) : List Nat := (normWeights ws).map (· / gcdList (normWeights ws))

/-- scenario `i` repeated `cs[i]` times, in file order -/
def spreadFrom : Nat → List Nat → List Nat
  | _, [] => []
  | i, c :: cs => List.replicate c i ++ spreadFrom (i + 1) cs

/-- the entries of one pass of a scenario file with the weights `ws`: the identity (index of the scenario) of each -/
def spread (ws : List Nat) : List Nat := spreadFrom 0 (spreadCounts ws)

/-- a scenario cell with weights: the provider's loop over `(spread ws).length` entries; the ammo delivered at position `j` of a
pass is scenario `(spread ws)[j]` -/
def runWeights (inp : Input) (ws : List Nat) : Option (Outcome Nat) :=
  (run inp (spread ws).length).map fun o => { o with delivered := o.delivered.map fun j => (spread ws).getD j 0 }

/-- the Go type of an option or a counter -/
inductive GoNum where
  | uint   -- uint / uint64: 0 .. 2^64 - 1
  | int    -- int / int64, validated min=0: 0 .. 2^63 - 1
  | other
  deriving DecidableEq, Repr, Inhabited

/-- the values an option of that type can take -/
def GoNum.fits : GoNum → Nat → Bool
  | .uint, x => decide (x < 2 ^ 64)
  | .int, x => decide (x < 2 ^ 63)
  | .other, _ => false

/-- the type of the `limit` and `passes` options of each provider kind -/
def Kind.boundTy : Kind → GoNum
  | .uri | .uripost | .raw | .jsonLines | .jsonArray | .httpScenario | .grpcScenario => .uint
  | .grpcJson | .genericJson => .int

/-! ## machine integers -/

/-- the body of the `for` loop of runPreloaded / scenario `Provider.Run` with Go's `uint` arithmetic (64 bit):
`i := ammoNum % length; passNum = ammoNum / length; if Passes != 0 && passNum >= Passes {…}; if Limit != 0 &&
ammoNum >= Limit {…}; ammoNum++; select { send ammos[i] }` — state = ammoNum, passNum -/
def replayStepU (passes limit length : UInt64) (c : Bool) (ammoNum : UInt64) : Act (UInt64 × UInt64) :=
  if c then .ret .canceled
  else
    let i := ammoNum % length
    let passNum := ammoNum / length
    if passes ≠ 0 ∧ passNum ≥ passes then .ret .errPasses
    else if limit ≠ 0 ∧ ammoNum ≥ limit then .ret .errLimit
    else .offer i.toNat (ammoNum + 1, passNum)

/-- the same loop with the pass bound precomputed as a number of ammo, `passLimit := Passes * length` — one
multiplication instead of a division per ammo, and WRONG: the product wraps -/
def replayStepProductU (passes limit length : UInt64) (c : Bool) (ammoNum : UInt64) : Act (UInt64 × UInt64) :=
  if c then .ret .canceled
  else
    let i := ammoNum % length
    if passes ≠ 0 ∧ ammoNum ≥ passes * length then .ret .errPasses
    else if limit ≠ 0 ∧ ammoNum ≥ limit then .ret .errLimit
    else .offer i.toNat (ammoNum + 1, ammoNum / length)

/-- an `Act` over machine integers read as one over `Nat` -/
def actToNat : Act (UInt64 × UInt64) → Act (Nat × Nat)
  | .ret r => .ret r
  | .tau s => .tau (s.1.toNat, s.2.toNat)
  | .offer i s => .offer i (s.1.toNat, s.2.toNat)

/-- one round of the reading loop of uri / uripost / raw `Scan` (`Model.C08.roundEof`, bridged to the regenerated rounds) with
the decoder's counters `d.ammoNum`, `d.passNum` and the option as Go `uint`s -/
def roundEofU (passes : UInt64) (c : Bool) (rd : Rd) (ammoNum passNum : UInt64) : ScanAct :=
  if c then .ret .canceled ammoNum.toNat passNum.toNat
  else match rd with
    | .entry => .ret .ammo (ammoNum + 1).toNat passNum.toNat
    | .skip => .next ammoNum.toNat passNum.toNat
    | .bad => .ret .failed ammoNum.toNat passNum.toNat
    | .eof =>
      if passes ≠ 0 ∧ passNum + 1 ≥ passes then .ret .errPass ammoNum.toNat (passNum + 1).toNat
      else if ammoNum = 0 then .ret .errNoAmmo ammoNum.toNat (passNum + 1).toNat
      else .rewind ammoNum.toNat (passNum + 1).toNat

/-- … of jsonline `Scan` (`Model.C08.roundTop`) -/
def roundTopU (passes : UInt64) (_c : Bool) (rd : Rd) (ammoNum passNum : UInt64) : ScanAct :=
  if passes ≠ 0 ∧ passNum ≥ passes then .ret .errPass ammoNum.toNat passNum.toNat
  else match rd with
    | .entry => .ret .ammo (ammoNum + 1).toNat passNum.toNat
    | .skip => .next ammoNum.toNat passNum.toNat
    | .bad => .ret .failed ammoNum.toNat passNum.toNat
    | .eof =>
      if ammoNum = 0 then .ret .errNoAmmo ammoNum.toNat passNum.toNat
      else .rewind ammoNum.toNat (passNum + 1).toNat

/-- the limit check that opens every `Scan` and every iteration of runFullScan, over `uint` -/
def limitReachedU (limit ammoNum : UInt64) : Bool := decide (limit ≠ 0 ∧ ammoNum ≥ limit)

end Pandora.Model.C08
