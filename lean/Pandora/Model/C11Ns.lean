/-
Core-only anchor for the regenerated lock-facts table (`Pandora/Gen/Locks.lean`, area `locks` of /verif/gen):
the translator opens the namespaces `Pandora` and `Pandora.Go` in every regenerated file, and
`Pandora.Go.Real` (which declares them) imports Mathlib and cannot be linked into a `lean_exe`.
The row types of the table live here.
-/
namespace Pandora.Go

/-- how an access to a field / package variable is protected in the Go source -/
inductive C11Guard where
  /-- between `X.Lock()` (or `RLock`) and the matching `Unlock` / deferred `Unlock` of mutex `X` -/
  | mutex (name : String)
  /-- between `X.RLock()` and `X.RUnlock()` of a `sync.RWMutex`: protects reads only -/
  | rmutex (name : String)
  /-- inside the function passed to `X.Do` of a `sync.Once`, or after that call in the same function (the completion of
  the function synchronizes before the return of every `Do`) -/
  | once (name : String)
  /-- the field is a `sync/atomic` value, accessed through its methods -/
  | atomic
  /-- `sync.Map` -/
  | syncMap
  /-- `sync.Pool` -/
  | syncPool
  /-- channel operation -/
  | chan
  /-- read of a field that is written only by constructors / set-up methods that run before instances start -/
  | frozen
  /-- none of the above -/
  | none
  deriving DecidableEq, Repr

/-- one access site: numeric object id (rank of the object name in the table), object `pkg.Type.field` (or
`pkg.var`), the function it occurs in, write?, guard -/
structure C11LockRow where
  oid : Nat
  obj : String
  method : String
  write : Bool
  guard : C11Guard
  deriving Repr

def C11LockRow.guarded (r : C11LockRow) : Bool :=
  match r.guard with
  | .none => false
  | _ => true

/-- a read lock does not protect a write -/
def C11LockRow.modeOk (r : C11LockRow) : Bool :=
  match r.guard with
  | .rmutex _ => !r.write
  | _ => true

def C11LockRow.frozen (r : C11LockRow) : Bool :=
  match r.guard with
  | .frozen => true
  | _ => false

/-- some access site of object `o` relies on the object being frozen after set-up -/
def c11ObjFrozen (tbl : List C11LockRow) (o : Nat) : Bool := tbl.any fun r => r.oid == o && r.frozen

/-- the row is consistent with ONE sharing class for its object: it is guarded (a write not merely by a read lock); and if any site of the object relies
on it being frozen, then this site is a read (the object is `sharedRO`), else this site is synchronised -/
def c11RowOk (tbl : List C11LockRow) (r : C11LockRow) : Bool :=
  (r.guarded && r.modeOk) && (if c11ObjFrozen tbl r.oid then !r.write else !r.frozen)

def c11TableOk (tbl : List C11LockRow) : Bool := tbl.all (c11RowOk tbl)

/-- one function literal of the source (regenerated, `Gen.Locks.closures`): its canonical name
`<package>:<function>.func<N>`, the captured variables it assigns outside a mutex section of its own (`writes`: the
closure object is mutable state), the literals with such writes that its captured variables may hold (`holds`: a
wrapper), and the places where its value — or a value that holds it — may be stored so that other goroutines find it
(a struct field, a map / slice element, a sync.Map, sync.Pool or atomic.Value, a channel, a package variable) -/
structure C11Closure where
  key : String
  writes : List String
  holds : List String
  stored : List String
  deriving Repr

/-- calling the closure changes state that lives in the closure object -/
def C11Closure.stateful (c : C11Closure) : Bool := !c.writes.isEmpty || !c.holds.isEmpty

/-- a stateful closure is created, called and dropped by one goroutine: it is stored nowhere, except at the listed
(closure, place) pairs that are known to stay with one goroutine -/
def c11ClosureOk (confined : List (String × String)) (c : C11Closure) : Bool :=
  !c.stateful || c.stored.all fun site => confined.contains (c.key, site)

def c11ClosuresOk (confined : List (String × String)) (cs : List C11Closure) : Bool := cs.all (c11ClosureOk confined)

/-! ### fixed-width integers (round 4: the index arithmetic behind the shared counters, `Gen.Locks.calcIndexBody` …) -/

/-- 2 ^ bits for the widths Go has (numerals, so that `omega` sees them) -/
def goPow (bits : Nat) : Int :=
  match bits with
  | 8 => 256
  | 16 => 65536
  | 32 => 4294967296
  | _ => 18446744073709551616

/-- the value of an integer after conversion to (or arithmetic in) a Go integer type of `bits` bits: reduced modulo
2 ^ bits into `[0, 2^bits)` for an unsigned type, into `[-2^(bits-1), 2^(bits-1))` for a signed one -/
def goWrap (bits : Nat) (signed : Bool) (x : Int) : Int :=
  let r := x % goPow bits
  if signed && 2 * r ≥ goPow bits then r - goPow bits else r

end Pandora.Go
