/-
C13, round 4 — three pieces of option handling around the decoders.

* `ccMulti` / `ccRunAll` / `jlArrayLoopCC`: the `chosen_cases` filter of the http provider
  (components/providers/http/provider/provider.go `runFullScan`, `loadAmmo`, `runPreloaded`) on top of the one-pass
  `Run` of a file: the decoder counts what it READS (`read`, `passNum`), the provider what it DELIVERS (`done`).
  `guarded = true` is the provider of /repo: `if ammoNum == 0 && passes != nil && passes.PassNum() > 0 { return ErrNoAmmo }`
  with a decoder that answers the `passCounter` assertion; `guarded = false` is the provider without that test (or with
  a decoder whose `PassNum` no longer has the asserted signature): a filter that matches nothing makes it read the
  file for ever.
* `parseConfName` / `registryNew`: what `core/plugin/pluginconfig.parseConf` makes of the values found under the `type`
  key of a plugin config, and the `expect(name != "", "empty name")` of `Registry.New` / `NewFactory` behind it (a panic,
  meant for programming errors). `tested` / `returned` are the two functions of the raw value that the source applies:
  the one whose result is compared with `""` and the one whose result is handed on as the name (both the identity in
  /repo).
* `csvComma`: the field separator `vs.readCsv` gives its `csv.Reader` (`delimiter[0]` is a partial operation).

Core Lean only.
-/
import Pandora.Model.C13Jsonline

namespace Pandora.Model.C13

/-! ### `chosen_cases` -/

def selOf (chosen : Bytes → Bool) (es : List Entry) : List Entry := es.filter fun e => chosen e.tag

/-- `runFullScan` over a decoder whose single pass is `one`, `sel` = the entries of a pass that pass the filter.
`passNum` passes are done, the decoder has read `read` entries, `done` were delivered. -/
def ccMulti (guarded : Bool) (one : Run) (sel : List Entry) (passes limit : Nat) : Nat → Nat → Nat → Nat → Run
  | 0, _, _, _ => ⟨[], .fuel, []⟩
  | fuel + 1, passNum, read, done =>
    if limit ≠ 0 ∧ done + sel.length ≥ limit then ⟨sel.take (limit - done), .ok, []⟩
    else if one.end_ ≠ .ok then ⟨sel, one.end_, one.rest⟩
    else match httpPassEnd passes (passNum + 1) (read + one.entries.length) with
      -- `if ammoNum == 0 && errors.Is(err, decoders.ErrPassLimit) { return decoders.ErrNoAmmo }`
      | .stop e => ⟨sel, if done + sel.length = 0 then .err "noammo" else e, []⟩
      | .again =>
        -- the decoder went on to the next pass; the test in front of the next `Scan`: a complete pass delivered nothing
        if guarded ∧ done + sel.length = 0 then ⟨[], .err "noammo", []⟩
        else (ccMulti guarded one sel passes limit fuel (passNum + 1) (read + one.entries.length) (done + sel.length)).prepend sel

/-- passes that can be needed: with a limit every repeated pass delivers an entry; with a pass limit `passes` -/
def ccFuel (passes limit : Nat) : Nat := (if limit ≠ 0 then limit else passes) + 2

/-- the http provider with `chosen_cases` (`pre` = preload: `loadAmmo` reads one pass and keeps the chosen entries,
`runPreloaded` hands them out again and again) -/
def ccRunAll (guarded : Bool) (one : Run) (chosen : Bytes → Bool) (pre : Bool) (passes limit : Nat) : Run :=
  let sel := selOf chosen one.entries
  if pre then
    if one.end_ ≠ .ok then ⟨[], one.end_, one.rest⟩
    else if sel.length = 0 then ⟨[], .err "noammo", []⟩
    else multiRunAll ⟨sel, .ok, []⟩ passes limit
  else ccMulti guarded one sel passes limit (ccFuel passes limit) 0 0 0

/-- `runFullScan` over `scanAmmos` (a jsonline file that is one JSON array), with the filter: `n` ammo delivered so far -/
def jlArrayLoopCC (guarded : Bool) (chosen : Bytes → Bool) (elems : List Bytes) (passes limit : Nat) :
    Nat → JlArr → Nat → List Entry → Run
  | 0, _, _, acc => ⟨acc.reverse, .fuel, []⟩
  | fuel + 1, s, n, acc =>
    if limit ≠ 0 ∧ n ≥ limit then ⟨acc.reverse, .ok, []⟩
    else if guarded ∧ n = 0 ∧ s.passNum > 0 then ⟨acc.reverse, .err "noammo", []⟩
    else match scanAmmos elems passes s with
      | (.ammo t, s') =>
        if chosen t then jlArrayLoopCC guarded chosen elems passes limit fuel s' (n + 1) (⟨t, [], []⟩ :: acc)
        else jlArrayLoopCC guarded chosen elems passes limit fuel s' n acc
      | (.passLimit, _) => ⟨acc.reverse, if n = 0 then .err "noammo" else .ok, []⟩
      | (.noAmmo, _) => ⟨acc.reverse, .err "noammo", []⟩
      | (.panic, _) => ⟨acc.reverse, .panic, []⟩

/-- scans that can be needed: every pass (`length` scans) delivers an entry, or the first one ends the run -/
def jlArrayFuelCC (len passes limit : Nat) : Nat := (if limit ≠ 0 then limit * len else passes * len) + len + 2

def jlArrayRunCC (guarded : Bool) (chosen : Bytes → Bool) (elems : List Bytes) (pre : Bool) (passes limit : Nat) : Run :=
  if pre then
    let sel := (elems.filter chosen).map fun t => (⟨t, [], []⟩ : Entry)
    if sel.length = 0 then ⟨[], .err "noammo", []⟩ else multiRunAll ⟨sel, .ok, []⟩ passes limit
  else jlArrayLoopCC guarded chosen elems passes limit (jlArrayFuelCC elems.length passes limit) ⟨0, 0⟩ 0 []

/-- the http provider over a jsonline file, with the filter -/
def jsonlineRunCC (guarded : Bool) (src : JSrc) (chosen : Bytes → Bool) (pre : Bool) (passes limit : Nat) : Run :=
  match src with
  | .refused => ctorErr
  | .array none _ => ctorErr
  | .array (some elems) trailing => if trailing then ctorErr else jlArrayRunCC guarded chosen elems pre passes limit
  | .stream items => ccRunAll guarded (jlItems items) chosen pre passes limit

/-! ### the `type` of a plugin -/

/-- a value found under a `type` key (in any letter case) of a plugin's config mapping -/
inductive TypeVal where
  | str (s : Bytes)
  | other            -- a number, a list, a mapping, null
  deriving Repr, DecidableEq

def TypeVal.isStr : TypeVal → Bool
  | .str _ => true
  | .other => false

/-- `parseConf`, the name it hands on: `tested s` is what is compared with `""`, `returned s` what becomes the name -/
def parseConfName (tested returned : Bytes → Bytes) (vals : List TypeVal) : Res Bytes :=
  if vals.any (fun v => !v.isStr) then .err "nonstring"
  else match vals with
    | [] => .err "expected"
    | [.str s] => if tested s = [] then .err "empty" else .ok (returned s)
    | _ => .err "toomany"

/-- `Registry.New` / `Registry.NewFactory` up to the lookup: `expect(name != "", "empty name")` is a panic -/
def registryNew (registered : Bytes → Bool) (name : Bytes) : Res Unit :=
  if name = [] then .panic "expectation failed: empty name"
  else if registered name then .ok () else .err "noplugin"

/-- `pluginconfig.Hook` / `FactoryHook` on the config mapping of a plugin -/
def pluginFromConf (tested returned : Bytes → Bytes) (registered : Bytes → Bool) (vals : List TypeVal) : Res Unit :=
  (parseConfName tested returned vals).bind (registryNew registered)

/-! ### the separator of a csv variable source -/

/-- `readCsv`: `if delimiter != "" { reader.Comma = rune(delimiter[0]) }`; `guarded = false`: the assignment without the test.
The answer is the separator byte (`,` = 44 is `csv.NewReader`'s default). -/
def csvComma (guarded : Bool) (delimiter : Bytes) : Res UInt8 :=
  if guarded ∧ delimiter = [] then .ok 44 else indexC delimiter 0

/-- `encoding/csv` `validDelim` on a rune below 256 -/
def csvDelimValid (c : UInt8) : Bool := c != 0 && c != 34 && c != 13 && c != 10

/-- the separator is fit for `csv.Reader.Read` (else: its error `csv: invalid field or comment delimiter`) -/
def csvOpen (guarded : Bool) (delimiter : Bytes) : Res UInt8 :=
  (csvComma guarded delimiter).bind fun c => if csvDelimValid c then .ok c else .err "delim"

end Pandora.Model.C13
