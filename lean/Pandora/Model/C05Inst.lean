/-
C05 — the shooting loop of one instance (`instance.Run`, core/engine/instance.go) over `coreutil.Waiter`
(core/coreutil/waiter.go), in the detail that decides HOW an instance ends:

    for !waiter.IsFinished(ctx) {            -- ctx done, or schedule.Left() == 0
        ammo, ok := provider.Acquire()       -- !ok: return outOfAmmoErr
        defer provider.Release(ammo)
        if !waiter.Wait(ctx) { return nil }  -- ctx done at entry | schedule.Next() !ok | token taken, then sleep: timer / ctx
        if !discardOverflow || !waiter.IsSlowDown(ctx) { gun.Shoot(ammo) } else { aggregator.Report(discarded) }
    }
    return ctx.Err()

Everything the environment decides in one pass of the loop is a field of `Pass` (when the context gets cancelled, what
`Acquire` says, how many tokens OTHER instances took from a shared schedule in the meantime, whether the token is due,
who wins the sleep, whether the waiter is overdue, whether the shot panics).  The context latches: once done it stays done.
A schedule is its number of tokens left; an unlimited schedule behaves on a pass list of length n like one with more
than n tokens (plus what the others take), and the theorems hold for every number.

`Model.C05.instRun` (C05Pool.lean) is the abstraction of this loop the pool model uses: the same four result classes
(`Proofs/C05Inst.lean`: `run_ok`, `run_ooa`, `run_ctx`, `run_err` say when each of them comes out).
-/
import Pandora.Model.C05Pool

namespace Pandora.Model.C05.Inst
open Pandora.Model.C05

structure Pass where
  /-- tokens other instances took from the (shared) schedule since this instance last looked -/
  stolen : Nat := 0
  /-- the context gets cancelled before `IsFinished` looks at it -/
  cancel1 : Bool := false
  /-- `provider.Acquire` returned `ok` -/
  ammoOk : Bool := true
  /-- … before the entry check of `Wait` -/
  cancel2 : Bool := false
  /-- tokens the others took between this instance's `Left()` and its `Next()` -/
  stolen2 : Nat := 0
  /-- the time of the token has come: `Wait` returns at once (else it sleeps) -/
  due : Bool := true
  /-- the sleep is ended by the timer (else by the context, which is done then) -/
  timerWins : Bool := true
  /-- `overdueDuration ≥ MaxOverdueDuration` after a due token -/
  overdue : Bool := false
  /-- … before `IsSlowDown` looks -/
  cancel3 : Bool := false
  /-- the value `gun.Shoot` panics with -/
  panics : Option ErrId := none
  /-- … before the final `ctx.Err()` is read -/
  cancel4 : Bool := false
  deriving Repr, DecidableEq

structure St where
  left : Nat                 -- tokens left in the schedule
  ctx : Bool := false        -- the run context is done
  acq : Nat := 0             -- ammo acquired
  rel : Nat := 0             -- ammo released
  taken : Nat := 0           -- tokens this instance took (`Next` returned ok)
  shots : Nat := 0
  disc : Nat := 0            -- shots discarded (`discard_overflow`)
  deriving Repr, DecidableEq

/-- `Waiter.IsFinished(ctx)` -/
def isFinished (ctxDone : Bool) (left : Nat) : Bool := ctxDone || left == 0

/-- `Waiter.IsSlowDown(ctx)`: never after the context is done; the overdue reading is positive only for a due token
(after a sleep `Wait` sets it to 0) -/
def isSlowDown (ctxDone due overdue : Bool) : Bool := !ctxDone && due && overdue

/-- the ways through `Waiter.Wait(ctx)` -/
inductive WaitOut
  | ctxAtEntry   -- the context is done at entry: nothing is asked of the schedule
  | noToken      -- `sched.Next()` said !ok
  | due          -- a token whose time has come: returns at once
  | timer        -- a token, a sleep, the timer fired
  | ctxAsleep    -- a token, a sleep, `ctx.Done()` won
  deriving DecidableEq, Repr

/-- what `Wait` returns -/
def WaitOut.ok : WaitOut → Bool
  | .due | .timer => true
  | _ => false

/-- a token was taken from the schedule -/
def WaitOut.takes : WaitOut → Bool
  | .ctxAtEntry | .noToken => false
  | _ => true

def waitOut (ctxDone : Bool) (left : Nat) (due timerWins : Bool) : WaitOut :=
  if ctxDone then .ctxAtEntry else if left == 0 then .noToken else if due then .due
  else if timerWins then .timer else .ctxAsleep

/-- one pass of the loop; `some r`: `Run` returns `r` (the deferred `recover` has turned a panic into an error).
Written without `let`s so that case splits see every branch; in source order:
`IsFinished` → return `ctx.Err()` | `Acquire` !ok | (the deferred `Release` runs however the iteration ends) `Wait`: context
done at entry | `Next()` !ok | token taken, asleep, `ctx.Done()` won | fire (or panic) | discard -/
def pass (discard : Bool) (s : St) (p : Pass) : St × Option Ret :=
  if isFinished (s.ctx || p.cancel1) (s.left - p.stolen) then
    ({ s with left := s.left - p.stolen, ctx := s.ctx || p.cancel1 || p.cancel4 },
     some (if s.ctx || p.cancel1 || p.cancel4 then .ctx else .ok))
  else if !p.ammoOk then
    ({ s with left := s.left - p.stolen, ctx := s.ctx || p.cancel1 }, some .ooa)
  else if s.ctx || p.cancel1 || p.cancel2 then
    ({ s with left := s.left - p.stolen - p.stolen2, ctx := true, acq := s.acq + 1, rel := s.rel + 1 }, none)
  else if s.left - p.stolen - p.stolen2 == 0 then
    ({ s with left := 0, acq := s.acq + 1, rel := s.rel + 1 }, none)
  else if !p.due && !p.timerWins then
    ({ s with left := s.left - p.stolen - p.stolen2 - 1, ctx := true, acq := s.acq + 1, rel := s.rel + 1,
              taken := s.taken + 1 }, none)
  else if !discard || !isSlowDown p.cancel3 p.due p.overdue then
    ({ s with left := s.left - p.stolen - p.stolen2 - 1, ctx := p.cancel3, acq := s.acq + 1, rel := s.rel + 1,
              taken := s.taken + 1, shots := s.shots + 1 }, p.panics.map Ret.err)
  else
    ({ s with left := s.left - p.stolen - p.stolen2 - 1, ctx := p.cancel3, acq := s.acq + 1, rel := s.rel + 1,
              taken := s.taken + 1, disc := s.disc + 1 }, none)

/-- `instance.Run` over the passes the environment offers; `none`: still in the loop when they are used up -/
def loop (discard : Bool) : St → List Pass → St × Option Ret
  | s, [] => (s, none)
  | s, p :: ps =>
    match pass discard s p with
    | (s', some r) => (s', some r)
    | (s', none) => loop discard s' ps

/-- a pass in which nothing interferes: nobody else takes tokens, no cancel, a sleep ends by the timer -/
def Pass.quiet (p : Pass) : Prop :=
  p.stolen = 0 ∧ p.stolen2 = 0 ∧ p.cancel1 = false ∧ p.cancel2 = false ∧ p.cancel3 = false ∧ (p.due = true ∨ p.timerWins = true)

end Pandora.Model.C05.Inst
