/-
C07 — the scanners: what `uriDecoder.Scan`, `uripostDecoder.Scan`/`readBlock`, `rawDecoder.Scan` and the
`jsonlineDecoder` do with the bytes of an ammo file, one pass at a time.

Reading primitives (all on the remaining bytes of the file):
* `bufio.Scanner` with `ScanLines`: token = bytes up to `\n` (or to EOF when non-empty), one trailing `\r`
  dropped, `ErrTooLong` when the line without its `\n` has 65536 bytes or more;
* `bufio.Reader.ReadString('\n')`: the line including `\n`, or (data, io.EOF) when there is no `\n` left;
* `io.ReadFull`: exactly n bytes or an error.

Every pass starts from a reset decoder (`Seek(0)`, fresh reader, `header = {}`), therefore a pass is a
function of the file bytes alone; `deliver` (C07Base) turns it into what `Acquire` hands out under `Limit`.

`uripostPass` takes a flag: `true` = `readBlock` as it is in /repo (data returned together with io.EOF is
processed, commit df9a0d4), `false` = the code before that repair (kept to state what the repair changed).
Announced sizes go through `readSized` (commit 8bca4e3): negative = error, larger than the rest of the file = short read.
The provider's `headers` option is applied per delivered ammo (`withCfgRes`, commit 1aacb94: the file has priority).
The provider counts what it delivers (`deliver`, commit 8ec6c57: the decoder itself runs with Limit = 0).
-/
import Pandora.Model.C07Base

namespace Pandora.Go
/-- makes `open Pandora Pandora.Go` (written by the translator /verif/gen into `Gen/AmmoDec.lean`) resolve without Mathlib -/
def c07NamespaceAnchor : Unit := ()
end Pandora.Go

namespace Pandora.Model.C07

/-- `bufio.MaxScanTokenSize`: the token limit of a Scanner with its default buffer (the uri decoder before /repo 66b1841) -/
def maxTok : Nat := 65536

/-- `math.MaxInt` (64-bit): the `max` that `newLineScanner` gives to `Scanner.Buffer` since /repo 66b1841 -/
def maxIntGo : Nat := 9223372036854775807

/-- the token limit a Scanner configured with `Buffer(nil, max)` really has: a `max` of 2^62 or more is beyond what the
Scanner itself can buffer (`len(buf) > maxInt/2` is its own give-up point) and beyond any line that exists: no limit -/
def scanLimit (max : Nat) : Option Nat := if 4611686018427387904 ≤ max then none else some max

/-- a line (without its `\n`) of `n` bytes is `bufio.ErrTooLong` for a Scanner with token limit `lim` -/
def tooLong (lim : Option Nat) (n : Nat) : Bool :=
  match lim with
  | some l => decide (l ≤ n)
  | none => false

/-- how a decoder obtains the lines of the ammo file (the vocabulary of the regenerated facts `Pandora.Gen.AmmoDec`) -/
inductive LineReader where
  | scanner (limit : Nat)        -- `bufio.Scanner`, default split (`ScanLines`): `Scan`/`Text`; `limit` = bufio.MaxScanTokenSize with the default buffer, the `max` of `Buffer(nil, max)` otherwise (`scanLimit`: what that means for a line)
  | readString (delim : Nat)     -- `bufio.Reader.ReadString(delim)`: the line including the delimiter, any length
  | other (what : String)        -- anything else (ReadLine, ReadBytes, ReadSlice, a Scanner with its own buffer …): not what this model describes
deriving DecidableEq, Repr

/-- the read primitives the three pass functions below describe -/
def uriReaderM : LineReader := .scanner maxIntGo
/-- the uri decoder's line limit: none (/repo 66b1841; before: `some maxTok`) -/
def uriLimitM : Option Nat := scanLimit maxIntGo
def uripostReaderM : LineReader := .readString LF.toNat
def rawReaderM : LineReader := .readString LF.toNat

def dropCR (s : Bytes) : Bytes :=
  match s.getLast? with
  | some 13 => s.dropLast
  | _ => s

/-- every line of the file (without its `\n`) fits a token of a Scanner with limit `lim` -/
def linesFitL (lim : Option Nat) (file : Bytes) : Bool := (splitOn LF file).all fun l => !tooLong lim l.length

/-- … of a Scanner with the default buffer (the decoder before /repo 66b1841) -/
def linesFit (file : Bytes) : Bool := linesFitL (some maxTok) file

theorem cut_rest_le (sep : UInt8) (s : Bytes) : (cut sep s).2.1.length ≤ s.length := by
  induction s with
  | nil => simp [cut]
  | cons b r ih => unfold cut; split <;> simp <;> omega

theorem cut_rest_lt (sep : UInt8) (b : UInt8) (r : Bytes) : (cut sep (b :: r)).2.1.length < (b :: r).length := by
  have := cut_rest_le sep r
  unfold cut; split <;> simp <;> omega

/-- `util.DecodeHeader` -/
def decodeHeader (h : Bytes) : Except Err (Bytes × Bytes) :=
  if h.length < 3 || h.head? != some LBR || h.getLast? != some RBR then .error .hdrformat
  else
    let p := cut COLON (h.drop 1).dropLast
    if !p.2.2 then .error .hdrformat
    else
      let key := trimSpace p.1
      if key.isEmpty then .error .emptykey else .ok (key, trimSpace p.2.1)

/-- result of looking at one (trimmed) line -/
inductive LineRes where
  | skip (h : Hdrs)      -- blank line, or a header line that updated the accumulator
  | ammo (a : Ammo)
  | err (e : Err)
deriving Repr

/-! ### uri -/

/-- `uriDecoder.readLine` (the `url.Parse` checks are outside: see `parseURL`) -/
def uriLine (tok : Bytes) (h : Hdrs) : LineRes :=
  match trimSpace tok with
  | [] => .skip h
  | b :: r =>
    if b = LBR then
      match decodeHeader (b :: r) with
      | .ok kv => .skip (hset h kv.1 kv.2)
      | .error e => .err e
    else
      let p := cut SP (b :: r)
      .ammo { method := getBytes, url := p.1, body := [], tag := p.2.1, hdrs := h }

/-- one pass of `uriDecoder.Scan` over the remaining bytes `bs` with header accumulator `h`, the Scanner having token
limit `lim` -/
def uriPassLim (lim : Option Nat) (bs : Bytes) (h : Hdrs) : List Ammo × Stop :=
  match bs with
  | [] => ([], .eof)
  | b :: r =>
    let p := cut LF (b :: r)
    if tooLong lim p.1.length then ([], .err .toolong)
    else
      match uriLine (dropCR p.1) h with
      | .skip h' => uriPassLim lim p.2.1 h'
      | .ammo a => let q := uriPassLim lim p.2.1 h; (a :: q.1, q.2)
      | .err e => ([], .err e)
termination_by bs.length
decreasing_by
  all_goals exact cut_rest_lt LF b r

/-- the uri decoder of /repo (since 66b1841: `newLineScanner`, no line limit) -/
abbrev uriPass (bs : Bytes) (h : Hdrs) : List Ammo × Stop := uriPassLim none bs h

/-- the uri decoder before that repair: a default `bufio.Scanner`, lines of 64 KiB and more are `token too long` -/
abbrev uriPassOld (bs : Bytes) (h : Hdrs) : List Ammo × Stop := uriPassLim (some maxTok) bs h

/-! ### uripost -/

/-- `uripost.DecodeURI` -/
def decodeURI (s : Bytes) : Except Err (Int × Bytes × Bytes) :=
  match splitOn SP s with
  | sz :: uri :: rest =>
    match atoi sz with
    | none => .error .wrongsize
    | some n => .ok (n, uri, join SP rest)
  | _ => .error .ammoformat

/-- `readBlock` calls `url.Parse(uri)` before `readSized`: an error of `readSized` is only reached when the
target parses; outside the class where the model knows `url.Parse` the outcome is not predicted -/
def sizeErr (uri : Bytes) (e : Err) : Err := if (parseURL uri).isSome then e else .urlclass

/-- one pass of `uripostDecoder.Scan`/`readBlock` (`readSized`: a negative announced size is an error, a size
larger than what is left in the file ends in (unexpected) EOF, however large it is) -/
def uripostPass (fixed : Bool) (bs : Bytes) (h : Hdrs) : List Ammo × Stop :=
  match bs with
  | [] => ([], .eof)            -- ReadString: "", io.EOF
  | b :: r =>
    let p := cut LF (b :: r)
    if !p.2.2 && !fixed then ([], .eof)     -- before the repair: data that comes with io.EOF is dropped
    else
      match trimSpace (if p.2.2 then p.1 ++ [LF] else p.1) with
      | [] => uripostPass fixed p.2.1 h
      | c :: d =>
        if c = LBR then
          match decodeHeader (c :: d) with
          | .ok kv => uripostPass fixed p.2.1 (hset h kv.1 kv.2)
          | .error e => ([], .err e)
        else
          match decodeURI (c :: d) with
          | .error e => ([], .err e)
          | .ok (n, uri, tag) =>
            if n < 0 then ([], .err (sizeErr uri .negsize))          -- readSized: ErrNegativeSize
            else if p.2.1.length < n.toNat then ([], .err (sizeErr uri .shortread))   -- readSized: io.ReadFull fails
            else
              let q := uripostPass fixed (p.2.1.drop n.toNat) h
              ({ method := postBytes, url := uri, body := p.2.1.take n.toNat, tag := tag, hdrs := h } :: q.1, q.2)
termination_by bs.length
decreasing_by
  all_goals first
    | exact cut_rest_lt LF b r
    | (have := cut_rest_lt LF b r; simp only [List.length_drop]; omega)

/-! ### raw -/

/-- `raw.DecodeHeader` -/
def rawDecodeHeader (s : Bytes) : Option (Int × Bytes) :=
  let p := cut SP s
  match atoi p.1 with
  | none => none
  | some n => some (n, p.2.1)

/-- one pass of `rawDecoder.Scan`. `fixed = true`: the decoder of /repo (since dbbf16d a last size line that lacks its
newline - `ReadString` returns it together with io.EOF - is decoded like every other size line, so an entry cut short
is an error); `fixed = false`: the decoder before that repair (whatever came with io.EOF was dropped) -/
def rawPassF (fixed : Bool) (bs : Bytes) : List RawAmmo × Stop :=
  match bs with
  | [] => ([], .eof)            -- ReadString: "", io.EOF
  | b :: r =>
    let p := cut LF (b :: r)
    if !p.2.2 && !fixed then ([], .eof)      -- before the repair: data that comes with io.EOF is dropped
    else
      match trimSpace (if p.2.2 then p.1 ++ [LF] else p.1) with
      | [] => rawPassF fixed p.2.1
      | c :: d =>
        match rawDecodeHeader (c :: d) with
        | none => ([], .err .rawsize)
        | some (n, tag) =>
          if n < 0 then ([], .err .negsize)             -- readSized: ErrNegativeSize
          else if n = 0 then
            let q := rawPassF fixed p.2.1
            ({ frame := [], tag := [] } :: q.1, q.2)
          else if p.2.1.length < n.toNat then ([], .err .shortread)
          else
            let q := rawPassF fixed (p.2.1.drop n.toNat)
            ({ frame := p.2.1.take n.toNat, tag := tag } :: q.1, q.2)
termination_by bs.length
decreasing_by
  all_goals first
    | exact cut_rest_lt LF b r
    | (have := cut_rest_lt LF b r; simp only [List.length_drop]; omega)

/-- the raw decoder of /repo -/
abbrev rawPass (bs : Bytes) : List RawAmmo × Stop := rawPassF true bs

/-- the raw decoder before /repo dbbf16d -/
abbrev rawPassOld (bs : Bytes) : List RawAmmo × Stop := rawPassF false bs

/-! ### http/json (after encoding/json) -/

/-- `decoders.entity` as produced by `encoding/json` -/
structure Entity where
  host : Bytes
  method : Bytes
  uri : Bytes
  tag : Bytes
  body : Bytes
  headers : List (Bytes × Bytes)    -- the JSON object `headers`; keys distinct after canonicalisation
deriving DecidableEq, Repr, Inhabited

/-- `netutil.ValidHTTPMethod` -/
def validMethod (m : Bytes) : Bool := m.isEmpty || m.all isTokByte

/-- entity → `Ammo.Setup(method, "http://"+host+uri, body, headers, tag)` -/
def entityAmmo (e : Entity) : Except Err Ammo :=
  if validMethod e.method then
    .ok { method := e.method, url := httpPrefix ++ e.host ++ e.uri, body := e.body, tag := e.tag
          hdrs := e.headers.foldl (fun h kv => hset h kv.1 kv.2) [] }
  else .error .badmethod

/-- the entity stays inside the class where the model knows `net/url`, and its header keys are distinct as HTTP header
names (otherwise the code itself is not deterministic: map iteration order decides which value is kept) -/
def entityKnown (e : Entity) : Bool :=
  uriOK e.uri && (e.host.isEmpty || hostOK e.host) && validMethod e.method
    && cfgDistinct e.headers   -- Go ranges over the `headers` MAP: two keys with one canonical form are set in random order

/-- one pass of the streaming `jsonlineDecoder.Scan` over the decoded entities -/
def jsonPass : List Entity → List Ammo × Stop
  | [] => ([], .eof)
  | e :: r =>
    match entityAmmo e with
    | .ok a => let q := jsonPass r; (a :: q.1, q.2)
    | .error err => ([], .err err)

/-- array mode: `readArray` converts everything in the constructor (an error fails `NewProvider`),
`scanAmmos` then indexes `ammoNum % len` -/
def jsonDeliver (array : Bool) (ents : List Entity) (k : Nat) (preload : Bool) : List Ammo × Stop :=
  let p := jsonPass ents
  if array then
    match p.2 with
    | .eof => deliver p k preload
    | s => ([], s)
  else deliver p k preload

/-! ### whole decoders -/

/-- the `headers` option applied to every delivered ammo (each decoder clones its accumulator and fills in the
configured headers the file did not define, entry by entry: a function of the entry's own header set) -/
def withCfgRes (cfg : Hdrs) (r : List Ammo × Stop) : List Ammo × Stop := (r.1.map (Ammo.withCfg cfg), r.2)

/-- `DecodeHTTPConfigHeaders`: the strings of the `headers` option, `[key: value]` each; an error fails `NewProvider` -/
def decodeCfg : List Bytes → Except Err Hdrs
  | [] => .ok []
  | s :: r =>
    match decodeHeader s with
    | .error e => .error e
    | .ok kv =>
      match decodeCfg r with
      | .error e => .error e
      | .ok t => .ok (kv :: t)

def uriDeliverLim (lim : Option Nat) (file : Bytes) (k : Nat) (preload : Bool) : List Ammo × Stop :=
  deliver (uriPassLim lim file []) k preload

abbrev uriDeliver (file : Bytes) (k : Nat) (preload : Bool) : List Ammo × Stop := uriDeliverLim none file k preload

def uripostDeliver (fixed : Bool) (file : Bytes) (k : Nat) (preload : Bool) : List Ammo × Stop :=
  deliver (uripostPass fixed file []) k preload

def rawDeliver (file : Bytes) (k : Nat) (preload : Bool) : List RawAmmo × Stop :=
  deliver (rawPass file) k preload

end Pandora.Model.C07
