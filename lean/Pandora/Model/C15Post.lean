/-
C15 — the postprocessors whose logic is pandora's own (core Lean, executable):

  http/postprocessor/assert_response.go  AssertResponse.Process          → `assertResponse`, `sizeFails`, `readsBody`
  http/postprocessor/var_header.go       VarHeaderPostprocessor.Process  → `varHeader`, `parseHSpec`, `parseHMod`,
                                          parseValue / parseModifier / substr   `applyMod`, `substrBounds`, `replaceAll`

A response is seen through `RespView`: status code, header lookup (`http.Header.Get`: canonical, i.e. case-insensitive,
name ↦ first value, "" when absent) and the body as a list of bytes (the harness generates ASCII only, so bytes =
characters: `strings.ToLower/ToUpper`, `in[start:end]` and `len` act on bytes in Go).

`var/jsonpath` (PaesslerAG/jsonpath + encoding/json) stays a parameter of the theorems (`World.post`).

REPAIRED behaviour (fixes/C15-assert-size-without-body.diff): the size assertion measures the response body also when
no `body` pattern is configured (`readsBody`); before, `b` stayed empty in that case and every size was compared
with 0.
-/
import Pandora.Model.C15

namespace Pandora.Model.C15

/-- `strings.Contains` / `bytes.Contains` -/
def isSub (needle hay : List Char) : Bool :=
  match hay with
  | [] => needle.isEmpty
  | _ :: t => needle.isPrefixOf hay || isSub needle t

/-! ## assert/response -/

structure SizeCond where
  val : Int
  op : String
deriving Repr, DecidableEq

structure AssertCfg where
  headers : List (List Char × List Char)   -- header name ↦ text its value must contain
  body : List (List Char)                  -- texts the body must contain
  status : Int                             -- 0 = not checked
  size : Option SizeCond
deriving Repr, DecidableEq

structure RespView where
  status : Int
  header : List Char → List Char
  body : List Char

/-- the `switch a.Size.Op`: `some true` = the assertion fails, `none` = `unknown op` (an error as well) -/
def sizeFails (op : String) (val len : Int) : Option Bool :=
  if op == "eq" || op == "=" then some (val != len)
  else if op == "lt" || op == "<" then some (val < len)
  else if op == "gt" || op == ">" then some (val > len)
  else none

/-- when `Process` reads the body into `b` (the reader handed over by the gun is never nil when the step has
postprocessors) -/
def readsBody (a : AssertCfg) : Bool := a.body.length > 0 || a.size.isSome

/-- `AssertResponse.Process`: `true` = no error -/
def assertResponse (a : AssertCfg) (r : RespView) : Bool :=
  let b := if readsBody a then r.body else []
  a.body.all (fun p => isSub p b) &&
  a.headers.all (fun (k, v) => isSub v (r.header k)) &&
  (a.status == 0 || a.status == r.status) &&
  (match a.size with
   | none => true
   | some s => sizeFails s.op s.val b.length == some false)

/-! ## var/header -/

inductive HMod where
  | lower
  | upper
  | substr (start stop : Int)
  | replace (old new : List Char)
deriving Repr, DecidableEq

/-- the index arithmetic of the `substr` modifier for an input of `l` bytes: the pair handed to `in[start:end]` -/
def substrBounds (start stop l : Int) : Int × Int :=
  let start := if start < 0 then l + start else start
  let stop := if stop ≤ 0 then l + stop else stop
  let start := if start < 0 then 0 else start
  let start := if start > l then l else start
  let stop := if stop < 0 then 0 else stop
  let stop := if stop > l then l else stop
  if start > stop then (stop, start) else (start, stop)

def lowerC (c : Char) : Char := if 'A' ≤ c ∧ c ≤ 'Z' then Char.ofNat (c.toNat + 32) else c
def upperC (c : Char) : Char := if 'a' ≤ c ∧ c ≤ 'z' then Char.ofNat (c.toNat - 32) else c

/-- `strings.ReplaceAll(s, old, new)` for a non-empty `old` (fuel = length + 1) -/
def replaceAllF (old new : List Char) : Nat → List Char → List Char
  | 0, s => s
  | _, [] => []
  | f + 1, c :: cs =>
    if old.isPrefixOf (c :: cs) then new ++ replaceAllF old new f ((c :: cs).drop old.length)
    else c :: replaceAllF old new f cs

def replaceAll (old new s : List Char) : List Char := replaceAllF old new (s.length + 1) s

def applyMod (m : HMod) (s : List Char) : List Char :=
  match m with
  | .lower => s.map lowerC
  | .upper => s.map upperC
  | .substr a b =>
    let (x, y) := substrBounds a b s.length
    (s.take y.toNat).drop x.toNat
  | .replace o n => replaceAll o n s

/-- `parseModifier` -/
def parseHMod (s : List Char) : Except String HMod :=
  match parseStringFunc s with
  | .error e => .error e
  | .ok (name, args) =>
    let a := args.getD []
    if name == "lower".toList then .ok .lower
    else if name == "upper".toList then .ok .upper
    else if name == "substr".toList then
      match a with
      | [x] => match atoi x with
        | some v => .ok (.substr v 0)
        | none => .error "substr modifier requires integer as first argument"
      | [x, y] => match atoi x, atoi y with
        | some v, some w => .ok (.substr v w)
        | none, _ => .error "substr modifier requires integer as first argument"
        | _, none => .error "substr modifier requires integer as second argument"
      | _ => .error "substr modifier requires one or two arguments"
    else if name == "replace".toList then
      match a with
      | [x, y] => .ok (.replace x y)
      | _ => .error "replace modifier requires 2 arguments"
    else .error "unknown modifier"

def parseHMods : List (List Char) → Except String (List HMod)
  | [] => .ok []
  | m :: rest =>
    match parseHMod m with
    | .error e => .error e
    | .ok x => match parseHMods rest with
      | .error e => .error e
      | .ok xs => .ok (x :: xs)

/-- `parseValue`: `Header|mod|mod…` -/
def parseHSpec (v : List Char) : Except String (List Char × List HMod) :=
  match splitOnC '|' v with
  | [] => .ok ([], [])
  | h :: mods => (parseHMods mods).map fun ms => (h, ms)

/-- `VarHeaderPostprocessor.Process`: a header that is absent / empty sets no variable; a mapping value that does not
parse is an error of the step (whatever the map order: every entry is visited unless an earlier one failed) -/
def varHeader (mapping : List (String × List Char)) (r : RespView) : Except String (List (String × Val)) :=
  mapping.foldlM (fun acc (kv : String × List Char) =>
    match parseHSpec kv.2 with
    | .error e => .error e
    | .ok (h, mods) =>
      let val := r.header h
      if val.isEmpty then .ok acc
      else .ok (setKey kv.1 (.str (String.ofList (mods.foldl (fun s m => applyMod m s) val))) acc)) []

end Pandora.Model.C15
