/-
C02 — schedules whose finite parts are DESCRIBED (a token count and a function from the token index to its offset)
instead of written out: const parts of realistic size, 10^4 … 10^6 tokens at rates whose period is not a whole number
of nanoseconds, which the driver drains completely (`mode=seq big=1`).

* `F64`, `f64round`, `fmul`, `ftrunc`: the float64 operations of `NewConst` / `constDoAt` (core/schedule/const.go)
  — `1e9 / ops`, `float64(i) * billionDivOps`, `float64(duration) / 1e9`, `ops * xn`, the conversions to an integer —
  carried out in exact integer arithmetic: a positive float64 is `m · 2^e`, every operation computes the exact rational
  result and rounds it to 53 significant bits, ties to even (IEEE 754 round-to-nearest-even; no subnormals, no
  overflow: the values here lie between 10^-9 and 10^19).  `Gen/Schedule.lean` (`NewConst_fl`, `constDoAt_fl`) is the
  source re-translated with every float operation passed through a rounding function, `Bridge/C02Const.lean` shows that
  for a rounding function that rounds as these operations do it is `constCount` / `constOff`.
* `BLeaf`: the leaf over a described part (`off i` instead of `offs[i]?`, `n` instead of `offs.length`); the composite
  is the SAME generic `compOps` / `newComposite` of `Model/C02Sched.lean`, iterated over `BLvl d`.
  `Proofs/C02Big.lean` shows that this is the list model on the expanded offsets `(List.range n).map off`.
-/
import Pandora.Model.C02Huge

namespace Pandora.Model.C02

/-! ### float64 in integers -/

/-- the non-negative float64 value `m · 2^e` -/
structure F64 where
  m : Nat
  e : Int
deriving Repr, DecidableEq

/-- `⌊N / D⌉`, ties to even -/
def divRoundEven (N D : Nat) : Nat :=
  let q := N / D
  let r := N % D
  if 2 * r > D || (2 * r == D && q % 2 == 1) then q + 1 else q

/-- quotient of `num / den` scaled by `2^(-e)`, rounded to nearest, ties to even -/
def scaledRound (num den : Nat) (e : Int) : Nat :=
  if e ≥ 0 then divRoundEven num (den <<< e.toNat) else divRoundEven (num <<< (-e).toNat) den

/-- `⌊num / den · 2^(-e)⌋` -/
def scaledFloor (num den : Nat) (e : Int) : Nat :=
  if e ≥ 0 then num / (den <<< e.toNat) else (num <<< (-e).toNat) / den

/-- the float64 nearest to the rational `num / den` (ties to even) -/
def f64round (num den : Nat) : F64 :=
  if num == 0 || den == 0 then ⟨0, 0⟩ else
  -- ⌊log2 (num/den)⌋ is l or l - 1
  let l : Int := (Nat.log2 num : Int) - (Nat.log2 den : Int)
  let e : Int := if scaledFloor num den (l - 52) < 2 ^ 52 then l - 53 else l - 52
  ⟨scaledRound num den e, e⟩

def F64.ofNat (n : Nat) : F64 := f64round n 1

/-- the float64 with the exact value `num / den` (the caller passes the exact value of a float64) -/
def F64.ofRat (num den : Nat) : F64 := f64round num den

def fmul (a b : F64) : F64 :=
  let e := a.e + b.e
  if e ≥ 0 then f64round ((a.m * b.m) <<< e.toNat) 1 else f64round (a.m * b.m) (1 <<< (-e).toNat)

/-- `a / b` for the exact values -/
def fdiv (a b : F64) : F64 :=
  -- a.m·2^a.e / (b.m·2^b.e)
  let e := a.e - b.e
  if e ≥ 0 then f64round (a.m <<< e.toNat) b.m else f64round a.m (b.m <<< (-e).toNat)

/-- conversion to an integer: truncation (the values are non-negative) -/
def ftrunc (a : F64) : Int :=
  if a.e ≥ 0 then ((a.m <<< a.e.toNat : Nat) : Int) else ((a.m >>> (-a.e).toNat : Nat) : Int)

def billionF : F64 := F64.ofNat 1000000000

/-- `NewConst`: `xn := float64(duration) / 1e9; n := int64(ops * xn)` (ops ≥ 0) -/
def constCount (ops : F64) (dur : Int) : Int :=
  ftrunc (fmul ops (fdiv (F64.ofNat dur.toNat) billionF))

/-- `constDoAt(ops)(i)`: `billionDivOps := 1e9 / ops; time.Duration(float64(i) * billionDivOps)` -/
def constOff (ops : F64) (i : Int) : Int :=
  ftrunc (fmul (F64.ofNat i.toNat) (fdiv billionF ops))

/-! ### leaves over described parts -/

inductive BLeaf where
  | fin (n : Nat) (off : Nat → Int) (dur : Int) (i : Nat) (start : Option Int)
  | unl (dur : Int) (finish : Option Int)

def BLeaf.start : BLeaf → Int → Except String BLeaf
  | .fin n off dur i none, t => .ok (.fin n off dur i (some t))
  | .fin _ _ _ _ (some _), _ => .error alreadyStarted
  | .unl dur none, t => .ok (.unl dur (some (t + dur)))
  | .unl _ (some _), _ => .error alreadyStarted

def BLeaf.next : BLeaf → Int → NextR BLeaf
  | .fin n off dur i st, now =>
      let s := st.getD now
      let st' := BLeaf.fin n off dur (i + 1) (some s)
      if i < n then .ok (st', s + off i, true) else .ok (st', s + dur, false)
  | .unl dur fi, now =>
      let f := fi.getD (now + dur)
      if now < f then .ok (.unl dur (some f), max now (f - dur), true) else .ok (.unl dur (some f), f, false)

def BLeaf.left : BLeaf → Int → LeftR BLeaf
  | .fin n off dur i st, _ => .ok (.fin n off dur i st, ((n - i : Nat) : Int))
  | .unl dur none, _ => .ok (.unl dur none, -1)
  | .unl dur (some f), now => .ok (.unl dur (some f), if now < f then -1 else 0)

def bleafOps : Ops BLeaf := ⟨BLeaf.start, BLeaf.next, BLeaf.left, .fin 0 (fun _ => 0) 0 0 none⟩

/-- the offsets a described part stands for -/
def expandOffs (n : Nat) (off : Nat → Int) : List Int := (List.range n).map off

/-- the list leaf a described leaf stands for -/
def BLeaf.expand : BLeaf → Leaf
  | .fin n off dur i st => .fin (expandOffs n off) dur i st
  | .unl dur fi => .unl dur fi

def BLvl : Nat → Type
  | 0 => BLeaf
  | d + 1 => BLvl d ⊕ Comp (BLvl d)

def blvlOps : (d : Nat) → Ops (BLvl d)
  | 0 => bleafOps
  | d + 1 => sumOps (blvlOps d) (compOps (blvlOps d))

inductive BTree where
  | fin (n : Nat) (off : Nat → Int) (dur : Int)
  | unl (dur : Int)
  | comp (cs : List BTree)

mutual
def BTree.depth : BTree → Nat
  | .fin _ _ _ => 0
  | .unl _ => 0
  | .comp cs => bdepthList cs + 1
def bdepthList : List BTree → Nat
  | [] => 0
  | t :: ts => max t.depth (bdepthList ts)
end

mutual
/-- the list tree a described tree stands for -/
def BTree.expand : BTree → Tree
  | .fin n off dur => .fin (expandOffs n off) dur
  | .unl dur => .unl dur
  | .comp cs => .comp (bexpandList cs)
def bexpandList : List BTree → List Tree
  | [] => []
  | t :: ts => t.expand :: bexpandList ts
end

mutual
def bbuild (now : Int) : (d : Nat) → BTree → Except String (BLvl d)
  | 0, .fin n off dur => pure (BLeaf.fin n off dur 0 none)
  | 0, .unl dur => pure (BLeaf.unl dur none)
  | 0, .comp _ => throw "depth"
  | d + 1, .comp cs => do
      let kids ← bbuildList now d cs
      newComposite (blvlOps d) now kids
  | d + 1, t => do
      let x ← bbuild now d t
      pure (.inl x)
def bbuildList (now : Int) : (d : Nat) → List BTree → Except String (List (BLvl d))
  | _, [] => pure []
  | d, t :: ts => do
      let x ← bbuild now d t
      let xs ← bbuildList now d ts
      pure (x :: xs)
end

/-- a const part `NewConst(ops, dur)`, described: `constCount` tokens, the i-th at `constOff ops i` -/
def BTree.const (ops : F64) (dur : Int) : BTree :=
  .fin (constCount ops dur).toNat (fun i => constOff ops (i : Int)) dur

/-- a run-length encoded part (`Model/C02Huge.lean`), described -/
def BTree.ofRuns (runs : List Run) (dur : Int) : BTree :=
  .fin (runsLen runs) (fun i => (runsAt runs i).getD 0) dur

/-- `instance_step` with `once(n)` described (n tokens at offset 0) -/
def binstanceStepLoop (to step : Nat) (dur : Int) : Nat → Nat → List BTree
  | 0, _ => []
  | fuel + 1, i =>
    if i ≤ to then BTree.fin 0 (fun _ => 0) dur :: BTree.fin step (fun _ => 0) 0 :: binstanceStepLoop to step dur fuel (i + step)
    else []

def binstanceStepTree (frm to step : Nat) (dur : Int) : BTree :=
  BTree.comp (BTree.fin frm (fun _ => 0) 0 :: binstanceStepLoop to step dur (to + 1) (frm + step))

end Pandora.Model.C02
