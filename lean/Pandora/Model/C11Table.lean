/-
C11 — from lock facts to a sharing classification (core Lean only).

A table of access sites (`C11LockRow`, regenerated from the Go source as `Pandora.Gen.Locks.table`) induces a
classification of the objects it mentions: an object some site of which relies on "frozen after set-up" is
`sharedRO`; every other object is `sharedSync` under its own lock (a mutex section, or the internal synchronisation of
an atomic / `sync.Map` / `sync.Pool` / channel — a `sync.RWMutex` is abstracted to an exclusive lock, which only
removes reader/reader overlaps, and those never conflict). `c11TableOk` (Model/C11Ns) is the decidable condition under
which every site respects that classification.
-/
import Pandora.Model.C11Sharing
import Pandora.Model.C11Ns

namespace Pandora.Model.C11
open Pandora.Go

/-- the classification induced by a lock-facts table -/
def clsT (tbl : List C11LockRow) : Nat → Class :=
  fun o => if c11ObjFrozen tbl o then .sharedRO else .sharedSync o

/-- the access performed at a site -/
def rowOp (r : C11LockRow) : Op := { obj := r.oid, write := r.write, val := 0 }

/-- what the code at an access site does: the bare access if the source shows no protection, else lock‥unlock
around it (frozen objects are read bare: nobody writes them) -/
def siteEvents (tbl : List C11LockRow) (t : Nat) (r : C11LockRow) : List Ev :=
  if r.guarded then expand (clsT tbl) t (rowOp r) else [.acc t r.oid r.write 0]

end Pandora.Model.C11
