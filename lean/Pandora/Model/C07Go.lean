/-
C07 — vocabulary of the string helpers regenerated statement by statement from the Go source
(`Pandora.Gen.AmmoDec.decodeHeaderG`, `decodeURIG`, `rawDecodeHeaderG`; translator: /verif/gen/area_ammodec_fn.go).
Partial Go operations are partial here: an index or slice expression out of range is `none` (the generated text turns it
into the outcome `.error "panic: …"`).  Core Lean only.
-/
import Pandora.Model.C07

namespace Pandora.Model.C07

/-- `x[i]` (Go `int` index): `none` = the run-time panic `index out of range` -/
def goIdx {α : Type} (x : List α) (i : Int) : Option α :=
  if 0 ≤ i ∧ i < (x.length : Int) then x[i.toNat]? else none

/-- `x[a:b]`: `none` = the run-time panic `slice bounds out of range` -/
def goSlice {α : Type} (x : List α) (a b : Int) : Option (List α) :=
  if 0 ≤ a ∧ a ≤ b ∧ b ≤ (x.length : Int) then some ((x.drop a.toNat).take (b - a).toNat) else none

/-- `strconv.Atoi`: the value and the error (the value is 0 when there is an error … for out-of-range input the real
function returns the nearest bound: the callers only use the value when the error is nil) -/
def goAtoi (s : Bytes) : Int × Option String :=
  match atoi s with
  | some n => (n, none)
  | none => (0, some "strconv.Atoi")

end Pandora.Model.C07
