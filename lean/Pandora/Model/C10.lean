/-
C10 — model of sample result coding (core Lean only, executable).

Mirrors, as small total functions:
* `core/aggregator/netsample/sample.go`  `getErrno`, `AddTag`
* `components/guns/http/base.go`         `autotag`, `Shoot` (decision tree; every `Report` call is an element of the result list)
* `components/guns/http_scenario/gun.go` `shoot` / `shootStep` / `reportErr`
* `components/guns/grpc/core.go`         `shoot`, `ConvertGrpcStatus`
* `components/guns/grpc/scenario/core.go` `shoot` / `shootStep`
* `components/providers/base/provider.go` `NextID` (atomic fetch-add)

The literal constants of this file are tied to the current source by `Pandora/Bridge/GrpcStatus.lean`
(regenerated `Pandora/Gen/GrpcStatus.lean`).
-/
namespace Pandora.Model.C10

/-! ## error chains and `getErrno` -/

/-- The SHAPE of a Go error value as far as `getErrno` can distinguish it. -/
inductive Err where
  /-- `*net.OpError{Err: e}` -/
  | opError (e : Err)
  /-- `*os.SyscallError{Err: e}` -/
  | syscallError (e : Err)
  /-- `*url.Error{Err: e}` -/
  | urlError (e : Err)
  /-- a value with an `Underlying() error` method (stackerr style) -/
  | underlying (e : Err)
  /-- a value with a `Cause() error` method (github.com/pkg/errors withStack / withMessage) -/
  | causer (e : Err)
  /-- `syscall.Errno(n)` -/
  | errno (n : Nat)
  /-- leaf that is a `net.Error` whose `Timeout()` is true -/
  | timeout
  /-- leaf with a `Timeout() bool` method returning true that is NOT a `net.Error` (no `Temporary`) -/
  | tmoOnly
  /-- every other leaf (also a nil inner error) -/
  | other
  deriving Repr, DecidableEq, Inhabited

def protoCodeError : Nat := 999
def timeoutErrno : Nat := 110
def emptyTag : String := "__EMPTY__"

/-- "the dynamic value has a `Timeout() bool` method and it returns true".
`*net.OpError`, `*os.SyscallError`, `*url.Error` delegate to their `Err`; `syscall.Errno.Timeout` is
`e == EAGAIN || e == EWOULDBLOCK || e == ETIMEDOUT` (11, 11, 110 on linux). -/
def hasTimeout : Err → Bool
  | .timeout => true
  | .tmoOnly => true
  | .errno n => n == 11 || n == 110
  | .opError e => hasTimeout e
  | .syscallError e => hasTimeout e
  | .urlError e => hasTimeout e
  | .underlying _ => false
  | .causer _ => false
  | .other => false

/-- "the dynamic type implements `net.Error`" (`Error`, `Timeout`, `Temporary`).
`*os.SyscallError` has no `Temporary` method. -/
def isNetError : Err → Bool
  | .opError _ => true
  | .urlError _ => true
  | .errno _ => true
  | .timeout => true
  | _ => false

/-- `for { typed, ok := err.(hasUnderlying); if !ok {break}; err = typed.Underlying() }` -/
def stripUnderlying : Err → Err
  | .underlying e => stripUnderlying e
  | e => e

/-- `errors.Cause` of github.com/pkg/errors -/
def cause : Err → Err
  | .causer e => cause e
  | e => e

/-- the final `for { switch typed := err.(type) … }` of `getErrno` -/
def unwrapLoop : Err → Nat
  | .opError e => unwrapLoop e
  | .syscallError e => unwrapLoop e
  | .urlError e => unwrapLoop e
  | .errno n => n
  | _ => protoCodeError

/-- `netsample.getErrno` -/
def getErrno (e : Err) : Nat :=
  if isNetError e && hasTimeout e then timeoutErrno
  else unwrapLoop (cause (stripUnderlying e))

/-! ## samples and tags -/

structure Sample where
  tags : String
  id : Nat
  proto : Nat
  net : Nat
  deriving Repr, DecidableEq, Inhabited

/-- `(*Sample).AddTag` -/
def addTag (tags tag : String) : String :=
  if tags = "" then tag else tags ++ "|" ++ tag

/-- `autotag(depth, URL)` of guns/http/base.go on the characters of `URL.Path`
(`'/'` is ASCII, so byte positions and character positions of the cut coincide). -/
def autotagChars : Nat → List Char → List Char
  | _, [] => []
  | d, c :: cs =>
    if c = '/' then
      match d with
      | 0 => []
      | d' + 1 => c :: autotagChars d' cs
    else c :: autotagChars d cs

def autotag (depth : Nat) (path : String) : String :=
  String.ofList (autotagChars depth path.toList)

/-! ## the http gun (`BaseGun.Shoot`) -/

structure AutoTagCfg where
  enabled : Bool
  uriElements : Nat
  noTagOnly : Bool
  deriving Repr, DecidableEq, Inhabited

/-- what the exchange with the target turned out to be, as seen by `Shoot` -/
inductive HttpOutcome where
  /-- `Client.Do` returned an error (refused, reset, timeout, malformed response …) -/
  | doErr (e : Err)
  /-- a response with this status was received; reading its body succeeded (`none`) or failed -/
  | response (status : Nat) (bodyErr : Option Err)
  /-- `Client.Do` panicked (the http2 client against a target without HTTP/2: documented fatal) -/
  | doPanic
  deriving Repr, DecidableEq, Inhabited

structure HttpShot where
  /-- `BaseGun.Connect`: `none` = hook not set (the only case in the repo, see Bridge), `some ok` = result of the hook -/
  connectHook : Option Bool := none
  invalid : Bool := false
  ammoTag : String
  id : Nat
  /-- `req.URL.Path` -/
  path : String
  outcome : HttpOutcome
  deriving Repr, Inhabited

/-- result of one `Shoot`: the samples handed to `Aggregator.Report` in order, and whether the call panicked -/
structure ShotResult where
  reports : List Sample
  panicked : Bool := false
  deriving Repr, DecidableEq, Inhabited

/-- tag of the sample after the auto-tag / `__EMPTY__` block of `Shoot` -/
def httpTag (cfg : AutoTagCfg) (ammoTag path : String) : String :=
  let t1 := if cfg.enabled && (!cfg.noTagOnly || ammoTag = "") then addTag ammoTag (autotag cfg.uriElements path) else ammoTag
  if t1 = "" then addTag t1 emptyTag else t1

def shootHttp (cfg : AutoTagCfg) (s : HttpShot) : ShotResult :=
  match s.connectHook with
  | some false => { reports := [] }                         -- "Connect fail": return before a sample exists
  | _ =>
    if s.invalid then
      { reports := [{ tags := addTag s.ammoTag emptyTag, id := s.id, proto := 0, net := 0 }] }
    else
      let tag := httpTag cfg s.ammoTag s.path
      match s.outcome with
      | .doErr e => { reports := [{ tags := tag, id := s.id, proto := 0, net := getErrno e }] }
      | .response st none => { reports := [{ tags := tag, id := s.id, proto := st, net := 0 }] }
      | .response st (some e) => { reports := [{ tags := tag, id := s.id, proto := st, net := getErrno e }] }
      | .doPanic => { reports := [{ tags := tag, id := s.id, proto := 0, net := 0 }], panicked := true }

/-! ## the http scenario gun -/

/-- result of a postprocessor chain on a received response -/
inductive PostRes where
  | ok
  /-- some postprocessor / assertion returned an error -/
  | err
  /-- some postprocessor panicked -/
  | panic
  deriving Repr, DecidableEq, Inhabited

inductive StepOutcome where
  /-- preprocessor, templater or `http.NewRequest` failed: nothing was sent -/
  | prepErr
  | doErr (e : Err)
  | bodyErr (status : Nat) (e : Err)
  /-- response received and read; then the postprocessors ran -/
  | received (status : Nat) (post : PostRes)
  deriving Repr, DecidableEq, Inhabited

structure Step where
  name : String
  outcome : StepOutcome
  deriving Repr, Inhabited

def stepTag (scn step : String) : String := scn ++ "." ++ step

/-- `reportErr`: the error handed to `SetErr` is always an `fmt.Errorf("… %w", err)` value (`*fmt.wrapError`),
which `getErrno` sees as an unrecognised leaf. -/
def errSample (scn step : String) : Sample :=
  { tags := addTag (stepTag scn step) emptyTag, id := 0, proto := 0, net := getErrno .other }

def okSample (scn step : String) (status : Nat) : Sample :=
  { tags := stepTag scn step, id := 0, proto := status, net := 0 }

/-- samples reported by one step, whether the scenario goes on, whether it panicked -/
def stepHttp (scn : String) (s : Step) : List Sample × Bool × Bool :=
  match s.outcome with
  | .prepErr => ([errSample scn s.name], false, false)
  | .doErr _ => ([errSample scn s.name], false, false)
  | .bodyErr _ _ => ([errSample scn s.name], false, false)
  | .received _ .err => ([errSample scn s.name], false, false)
  | .received _ .panic => ([], false, true)
  | .received st .ok => ([okSample scn s.name st], true, false)

/-- `ScenarioGun.shoot`: the step loop -/
def shootScenario (scn : String) : List Step → ShotResult
  | [] => { reports := [] }
  | s :: rest =>
    match stepHttp scn s with
    | (rs, true, _) => let r := shootScenario scn rest; { r with reports := rs ++ r.reports }
    | (rs, false, p) => { reports := rs, panicked := p }

/-- number of steps the loop enters -/
def executedSteps : List Step → Nat
  | [] => 0
  | s :: rest =>
    match s.outcome with
    | .received _ .ok => 1 + executedSteps rest
    | _ => 1


/-! ## which client does the exchange: `NewRedirectingClient` (components/guns/http/client.go)

`redirect: false` gives `noRedirectClient`, whose `Do` IS `Transport.RoundTrip`: one exchange, the answer handed back as it
came. `redirect: true` gives an `*http.Client` with the default policy: it follows 301 / 302 / 303 / 307 / 308 answers that
carry a `Location`, sends at most ten requests, and gives up with a `*url.Error` of its own when the `Location` cannot be
parsed or the limit is reached (net/http's documented behaviour: trusted, observed in the correspondence runs). -/

/-- what the `Location` header of an answer says -/
inductive Loc where
  | absent
  | leadsOn
  | unparsable
  | loops
  deriving Repr, DecidableEq, Inhabited

/-- one element of the chain of exchanges a shot may run through -/
inductive Hop where
  /-- `RoundTrip` returned a complete answer with this status and this `Location` -/
  | answer (status : Nat) (loc : Loc)
  /-- the exchange the chain ends with, as `RoundTrip` saw it -/
  | last (o : HttpOutcome)
  deriving Repr, DecidableEq, Inhabited

/-- `redirectBehavior` of net/http for a request without a body -/
def isRedirectStatus (st : Nat) : Bool := st == 301 || st == 302 || st == 303 || st == 307 || st == 308

/-- `http.Client` gives up: `(nil | closed response, *url.Error{Err: errors.New(…)})` -/
def clientGaveUp : HttpOutcome := .doErr (.urlError .other)

/-- `noRedirectClient.Do`: `return c.Transport.RoundTrip(req)` -/
def bareDo : List Hop → HttpOutcome
  | [] => .doErr .other
  | .answer st _ :: _ => .response st none
  | .last o :: _ => o

/-- `(*http.Client).Do` with the default `CheckRedirect`; `n`: requests it may still send, this one included -/
def followDo : Nat → List Hop → HttpOutcome
  | _, [] => .doErr .other
  | _, .last o :: _ => o
  | n, .answer st loc :: rest =>
    if isRedirectStatus st then
      match loc with
      | .absent => .response st none
      | .unparsable => clientGaveUp
      | .loops => clientGaveUp
      | .leadsOn => if n ≤ 1 then clientGaveUp else followDo (n - 1) rest
    else .response st none

/-- `defaultCheckRedirect`: "stopped after 10 redirects" -/
def maxRequests : Nat := 10

/-- `NewRedirectingClient(tr, redirect).Do` -/
def clientDo (redirect : Bool) (hops : List Hop) : HttpOutcome :=
  if redirect then followDo maxRequests hops else bareDo hops

/-- NOT the code: an `*http.Client` whose `CheckRedirect` returns `http.ErrUseLastResponse`, used for `redirect: false`.
`http.Client` parses the `Location` of a redirecting answer BEFORE it asks `CheckRedirect`, and gives up when that fails. -/
def checkRedirectDo : List Hop → HttpOutcome
  | [] => .doErr .other
  | .last o :: _ => o
  | .answer st loc :: _ =>
    if isRedirectStatus st && loc == .unparsable then clientGaveUp else .response st none

/-! ## pauses of a scenario step, and an instance cancelled during one

`shootStep` reports the step's sample and THEN sleeps (`time.Sleep(step.Sleep)`): the pause cannot be interrupted and
the step loop never looks at the instance's context, so a cancellation that arrives during a pause changes nothing about
the samples of the shot. Two other designs of the pause are modelled for comparison. -/

inductive PauseMode where
  /-- the code: `time.Sleep` -/
  | sleeps
  /-- an interruptible pause that ends the shot quietly when the instance is cancelled -/
  | stopsQuietly
  /-- an interruptible pause that makes `shootStep` return an error when the instance is cancelled; the step loop hands
  every error of `shootStep` to `reportErr` -/
  | returnsError
  deriving Repr, DecidableEq, Inhabited

/-- The step loop with a cancellation arriving during the pause after step number `cancelAt` (`none`: never; the count
runs down as the loop advances). -/
def shootScenarioPaused (mode : PauseMode) (scn : String) : Option Nat → List Step → ShotResult
  | _, [] => { reports := [] }
  | c, s :: rest =>
    match stepHttp scn s with
    | (rs, true, _) =>
      if c = some 0 then
        match mode with
        | .sleeps => let r := shootScenarioPaused mode scn none rest; { r with reports := rs ++ r.reports }
        | .stopsQuietly => { reports := rs }
        | .returnsError => { reports := rs ++ [errSample scn s.name] }
      else
        let r := shootScenarioPaused mode scn (c.map (· - 1)) rest
        { r with reports := rs ++ r.reports }
    | (rs, false, p) => { reports := rs, panicked := p }

/-! ## the gRPC guns -/

/-- `ConvertGrpcStatus` (the model's own copy; `Bridge.GrpcStatus` proves it equal to the regenerated switch) -/
def grpcToHttp (c : Nat) : Nat :=
  if c = 0 then 200 else if c = 1 then 499 else if c = 3 then 400 else if c = 4 then 504
  else if c = 5 then 404 else if c = 6 then 409 else if c = 7 then 403 else if c = 8 then 429
  else if c = 9 then 400 else if c = 10 then 409 else if c = 11 then 400 else if c = 12 then 501
  else if c = 14 then 503 else if c = 16 then 401 else 500

inductive GrpcOutcome where
  /-- the provider flagged the ammo invalid (a line it could not decode, `continueonerror`): nothing is sent -/
  | invalidAmmo
  /-- `ammo.Call` is not among the reflected methods -/
  | unknownMethod
  /-- `json.Marshal(ammo.Payload)` failed -/
  | marshalErr
  /-- the payload does not fit the method's input message -/
  | badPayload
  /-- the call was made; `code` is `status.Convert(grpcErr).Code()` -/
  | invoked (code : Nat)
  deriving Repr, DecidableEq, Inhabited

def grpcProto : GrpcOutcome → Nat
  | .invalidAmmo => 0
  | .unknownMethod => 0
  | .marshalErr => 0
  | .badPayload => 400
  | .invoked c => grpcToHttp c

/-- `grpc.Gun.shoot`: one deferred `Report` on every path; the tag is the ammo's tag verbatim -/
def shootGrpc (ammoTag : String) (o : GrpcOutcome) : ShotResult :=
  { reports := [{ tags := ammoTag, id := 0, proto := grpcProto o, net := 0 }] }

inductive GrpcStepOutcome where
  /-- preprocessor or templater failed -/
  | prepErr
  | unknownMethod
  | badPayload
  /-- the call was made; afterwards postprocessors / response conversion succeeded or not -/
  | invoked (code : Nat) (post : PostRes)
  deriving Repr, DecidableEq, Inhabited

structure GrpcStep where
  /-- `call.Tag` -/
  tag : String
  outcome : GrpcStepOutcome
  deriving Repr, Inhabited

def grpcStepProto : GrpcStepOutcome → Nat
  | .prepErr => 0
  | .unknownMethod => 0
  | .badPayload => 400
  | .invoked c _ => grpcToHttp c

/-- `scenario.Gun.shootStep`: the deferred `Report` fires on every path (also when a postprocessor panics) -/
def stepGrpc (scn : String) (s : GrpcStep) : List Sample × Bool × Bool :=
  let smp : Sample := { tags := stepTag scn s.tag, id := 0, proto := grpcStepProto s.outcome, net := 0 }
  match s.outcome with
  | .invoked _ .ok => ([smp], true, false)
  | .invoked _ .panic => ([smp], false, true)
  | _ => ([smp], false, false)

def shootGrpcScenario (scn : String) : List GrpcStep → ShotResult
  | [] => { reports := [] }
  | s :: rest =>
    match stepGrpc scn s with
    | (rs, true, _) => let r := shootGrpcScenario scn rest; { r with reports := rs ++ r.reports }
    | (rs, false, p) => { reports := rs, panicked := p }

def executedGrpcSteps : List GrpcStep → Nat
  | [] => 0
  | s :: rest =>
    match s.outcome with
    | .invoked _ .ok => 1 + executedGrpcSteps rest
    | _ => 1

/-! ## ammo ids: `ProviderBase.NextID` = `idCounter.Add(1)` on an `atomic.Uint64` -/

/-- 2^64: `atomic.Uint64.Add` wraps around -/
def idModulus : Nat := 18446744073709551616

/-- one atomic fetch-add: new counter value and the id handed out -/
def nextID (c : Nat) : Nat × Nat := ((c + 1) % idModulus, (c + 1) % idModulus)

/-- A run of the shared counter under a schedule: the i-th element names the instance whose `Acquire`
performs the next atomic `Add(1)`.  Returns who got which id. Any number of instances, any order. -/
def runIds {ι : Type} : Nat → List ι → List (ι × Nat)
  | _, [] => []
  | c, i :: rest => (i, (nextID c).2) :: runIds (nextID c).1 rest

/-! ## round 4: who dials, and what a failed dial looks like to `getErrno`

A failed dial is a `*net.OpError{Op: "dial"}` around `*os.SyscallError{"connect", errno}` (refused, unreachable, …) or around
a timeout error (the dialer's `Timeout` expired). Between `net.Dialer` and `Shoot` sit, depending on the gun and its options:
`netutil.NewDNSCachingDialer` (when `dns-cache` is on and the target could not be pre-resolved), the CONNECT gun's
`newConnectDialFunc` (wraps every error with `errors.WithStack`), `http.Transport.RoundTrip` (hands a dial error back as it
is) and, with `redirect: true`, `http.Client.Do` (wraps every error in `*url.Error`). -/

inductive DialFail where
  /-- `connect(2)` failed with this errno (111 refused, 113 no route, …) -/
  | refused (errno : Nat)
  /-- no answer before the dialer's timeout -/
  | timedOut
  deriving Repr, DecidableEq, Inhabited

/-- what `(*net.Dialer).DialContext` returns -/
def dialErr : DialFail → Err
  | .refused n => .opError (.syscallError (.errno n))
  | .timedOut => .opError .timeout

/-- `netutil.NewDNSCachingDialer`: with the address in the cache (`cached`) it returns what `DialContext` of the resolved
address returns; without, `conn, err = dialer.DialContext(…); if err != nil { return }` — the error as it is. -/
def cachingDial (_cached : Bool) (e : Err) : Err := e

/-- NOT the code: a caching dialer that decorates the error of the first dial of an address that is not cached yet
(`errors.Wrapf`: a `withStack` around a `withMessage`) -/
def cachingDialWrapping (cached : Bool) (e : Err) : Err := if cached then e else .causer (.causer e)

inductive GunKind where
  | http
  | http2
  | connect
  deriving Repr, DecidableEq, Inhabited

/-- `newConnectDialFunc`: `conn, err = dialer.DialContext(ctx, "tcp", target); if err != nil { err = errors.WithStack(err) }` -/
def connectDial (e : Err) : Err := .causer e

/-- the error the gun's transport gets from its `DialContext` -/
def transportDialErr (dialer : Bool → Err → Err) (g : GunKind) (dnsCache cached : Bool) (d : DialFail) : Err :=
  let e := if dnsCache then dialer cached (dialErr d) else dialErr d
  match g with
  | .connect => connectDial e
  | _ => e

/-- `noRedirectClient.Do` = `RoundTrip`: the dial error as it is; `http.Client.Do`: `&url.Error{Op, URL, Err: err}` -/
def clientErr (redirect : Bool) (e : Err) : Err := if redirect then .urlError e else e

/-- the error `Shoot` hands to `SetErr` when the dial fails -/
def dialFailure (g : GunKind) (dnsCache cached redirect : Bool) (d : DialFail) : Err :=
  clientErr redirect (transportDialErr cachingDial g dnsCache cached d)

/-- every wrapper taken off, wherever it sits -/
def leaf : Err → Err
  | .opError e => leaf e
  | .syscallError e => leaf e
  | .urlError e => leaf e
  | .underlying e => leaf e
  | .causer e => leaf e
  | e => e

/-! ## round 4: the ammo objects of the grpc/json provider

`decodeAmmo(line, am)`: `am` comes from a `sync.Pool` the instances `Release` their ammo into, so it may still carry an
earlier entry (tag, call, metadata, payload, id, the invalid flag). The line is decoded into a FRESH value; then
`am.Reset(tag, call, metadata, payload)` overwrites the whole object. -/

/-- one line of a grpc/json file: every key is optional -/
structure Entry where
  tag : Option String := none
  call : Option String := none
  metadata : Option (List (String × String)) := none
  payload : Option (List (String × String)) := none
  /-- the line is a JSON object the decoder accepts -/
  decodable : Bool := true
  deriving Repr, DecidableEq, Inhabited

/-- `ammo.Ammo` -/
structure AmmoObj where
  tag : String := ""
  call : String := ""
  metadata : List (String × String) := []
  payload : List (String × String) := []
  id : Nat := 0
  invalid : Bool := false
  deriving Repr, DecidableEq, Inhabited

/-- `var a ammo.Ammo; json.Unmarshal(line, &a)`: what the line does not mention stays zero -/
def decodeFresh (e : Entry) : AmmoObj :=
  { tag := e.tag.getD "", call := e.call.getD "", metadata := e.metadata.getD [], payload := e.payload.getD [] }

/-- `(*Ammo).Reset`: `*a = Ammo{tag, call, metadata, payload, 0, false}` -/
def AmmoObj.reset (_a : AmmoObj) (tag call : String) (md pl : List (String × String)) : AmmoObj :=
  { tag := tag, call := call, metadata := md, payload := pl, id := 0, invalid := false }

/-- `decodeAmmo` + the `Invalidate` of `start` (`continueonerror`) for a line that cannot be decoded -/
def deliver (pooled : AmmoObj) (e : Entry) : AmmoObj :=
  if e.decodable then
    let a := decodeFresh e
    pooled.reset a.tag a.call a.metadata a.payload
  else { pooled.reset "" "" [] [] with invalid := true }

/-- a JSON decoder writing into an existing map: keys of the document replace, other keys stay -/
def mergeKeys (old new : List (String × String)) : List (String × String) :=
  new ++ old.filter fun kv => !(new.any fun n => n.1 == kv.1)

/-- NOT the code: the line is decoded straight into the pooled object (no fresh value, no `Reset`): what the line does not
mention keeps what the object carried, maps are merged, the unexported fields are not touched -/
def deliverInto (pooled : AmmoObj) (e : Entry) : AmmoObj :=
  if e.decodable then
    { pooled with
      tag := e.tag.getD pooled.tag, call := e.call.getD pooled.call,
      metadata := match e.metadata with | some m => mergeKeys pooled.metadata m | none => pooled.metadata,
      payload := match e.payload with | some m => mergeKeys pooled.payload m | none => pooled.payload }
  else { pooled.reset "" "" [] [] with invalid := true }

/-- The provider's loop with the instances' `Release`s: for every line an object is taken from the pool (`choose`: any
policy, `none` = a new one) and filled by `dlv`; the ammo is shot and released, i.e. the object goes back to the pool as
it is. Returns the ammo delivered, in file order. -/
def runAmmoPool (dlv : AmmoObj → Entry → AmmoObj) (choose : List AmmoObj → Option Nat) :
    List AmmoObj → List Entry → List AmmoObj
  | _, [] => []
  | pool, e :: rest =>
    let pooled := ((choose pool).bind (pool[·]?)).getD {}
    let pool' := match choose pool with
      | some i => pool.eraseIdx i
      | none => pool
    let a := dlv pooled e
    a :: runAmmoPool dlv choose (a :: pool') rest

/-- what the scripted gRPC target of the harness makes of an ammo: the method must be the one it serves, the payload may
only carry the field `name`, the metadata key `x-code` selects the status it answers -/
def scriptedOutcome (a : AmmoObj) : GrpcOutcome :=
  if a.invalid then .invalidAmmo
  else if a.call != "target.TargetService.Hello" then .unknownMethod
  else if a.payload.any (fun kv => kv.1 != "name") then .badPayload
  else match a.metadata.find? (fun kv => kv.1 == "x-code") with
    | some kv => .invoked (kv.2.toNat?.getD 0)
    | none => .invoked 0

/-- the samples of a run of the plain gRPC gun over the ammo a provider delivers -/
def shootAmmo (ammo : List AmmoObj) : List Sample :=
  ammo.flatMap fun a => (shootGrpc a.tag (scriptedOutcome a)).reports

/-! ## round 4: a counter of any width, standing anywhere -/

/-- one atomic `Add(1)` on a counter of `bits` bits, widened to the `uint64` the id is -/
def nextIDw (bits : Nat) (c : Nat) : Nat × Nat := ((c + 1) % 2 ^ bits, (c + 1) % 2 ^ bits)

def runIdsW {ι : Type} (bits : Nat) : Nat → List ι → List (ι × Nat)
  | _, [] => []
  | c, i :: rest => (i, (nextIDw bits c).2) :: runIdsW bits (nextIDw bits c).1 rest

/-! ## a whole pool run of a plain http gun: acquire (id) then shoot -/

/-- what happens to one acquired ammo: its tag and path, and how the exchange turns out -/
structure ShotPlan where
  ammoTag : String
  path : String
  outcome : HttpOutcome
  invalid : Bool := false
  /-- `false`: the instance acquired the ammo (an id was consumed) but never fired it (schedule over or run cancelled
  while waiting, or the shot was discarded on overflow): no `Shoot`, so no sample carries that id -/
  fired : Bool := true
  deriving Repr, Inhabited

/-- `Provider.Acquire`: `NewGunAmmo(req, ammo.Tag(), p.NextID())`; `GunAmmo.Request`: `sample.SetID(g.id)` -/
def ShotPlan.toShot (p : ShotPlan) (id : Nat) : HttpShot :=
  { ammoTag := p.ammoTag, id := id, path := p.path, outcome := p.outcome, invalid := p.invalid }

/-- The samples of one pool run. The list is ordered by ACQUISITION (the order of the atomic `Add`s, whoever the
acquiring instance `ι` is); the order in which the samples reach the aggregator is some permutation of it. -/
def runPool {ι : Type} (cfg : AutoTagCfg) : Nat → List (ι × ShotPlan) → List Sample
  | _, [] => []
  | c, (_, p) :: rest =>
    (if p.fired then (shootHttp cfg (p.toShot (nextID c).2)).reports else []) ++ runPool cfg (nextID c).1 rest

/-! ## closed forms of the scenario loops (one sample per step) -/

/-- the one sample a (non-panicking) http scenario step reports -/
def stepSample (scn : String) (s : Step) : Sample :=
  match s.outcome with
  | .received st .ok => okSample scn s.name st
  | _ => errSample scn s.name

/-- the one sample a gRPC scenario step reports -/
def grpcStepSample (scn : String) (s : GrpcStep) : Sample :=
  { tags := stepTag scn s.tag, id := 0, proto := grpcStepProto s.outcome, net := 0 }


/-! ## the sample at setter level, and netsample's sample pool

The guns never build a sample value: they `Acquire` one from a process-wide pool (`sync.Pool`; the phout aggregator puts
every sample back after writing its line) and call setters on it. What a RECYCLED sample carried must not show. -/

/-- the setter calls of the guns -/
inductive SampleOp where
  /-- `AddTag(t)` -/
  | addTag (t : String)
  /-- `if sample.Tags() == "" { sample.AddTag(t) }` -/
  | addTagIfEmpty (t : String)
  /-- `SetID(n)` -/
  | setID (n : Nat)
  /-- `SetProtoCode(c)` -/
  | setProto (c : Nat)
  /-- `SetErr(e)`: stores `getErrno(e)` as the net code -/
  | setErr (e : Err)
  deriving Repr, DecidableEq, Inhabited

def applyOp (s : Sample) : SampleOp → Sample
  | .addTag t => { s with tags := addTag s.tags t }
  | .addTagIfEmpty t => if s.tags = "" then { s with tags := addTag s.tags t } else s
  | .setID n => { s with id := n }
  | .setProto c => { s with proto := c }
  | .setErr e => { s with net := getErrno e }

def applyOps (s : Sample) (ops : List SampleOp) : Sample := ops.foldl applyOp s

/-- a sample nobody has touched: `Sample{timeStamp: now, tags: tag}` -/
def fresh (tag : String) : Sample := { tags := tag, id := 0, proto := 0, net := 0 }

/-- `netsample.Acquire(tag)`: `s := samplePool.Get(); *s = Sample{timeStamp: time.Now(), tags: tag}` — whatever the
recycled sample carried (`some stale`) is overwritten as a whole. -/
def acquire (_recycled : Option Sample) (tag : String) : Sample := fresh tag

/-- an `Acquire` that only sets the tag of a recycled sample (the defect the whole-struct assignment excludes) -/
def acquireKeeping (recycled : Option Sample) (tag : String) : Sample :=
  match recycled with
  | some s => { s with tags := tag }
  | none => fresh tag

/-- the auto-tag / `__EMPTY__` block of `Shoot` as setter calls -/
def tagOps (cfg : AutoTagCfg) (ammoTag path : String) : List SampleOp :=
  (if cfg.enabled && (!cfg.noTagOnly || ammoTag = "") then [SampleOp.addTag (autotag cfg.uriElements path)] else []) ++
    [.addTagIfEmpty emptyTag]

/-- what `Shoot` does to the sample once the exchange is over -/
def outcomeOps : HttpOutcome → List SampleOp
  | .doErr e => [.setErr e]
  | .response st none => [.setProto st]
  | .response st (some e) => [.setProto st, .setErr e]
  | .doPanic => []

/-- setter calls of `GunAmmo.Request` + `BaseGun.Shoot` for one shot, in program order -/
def httpOps (cfg : AutoTagCfg) (s : HttpShot) : List SampleOp :=
  .setID s.id ::
    (if s.invalid then [.addTag emptyTag, .setProto 0]
     else tagOps cfg s.ammoTag s.path ++ outcomeOps s.outcome)

/-- A run against an aggregator that RELEASES samples: each request acquires a sample — `choose` (any policy: `sync.Pool`
promises none) says which pooled one is recycled, if any — applies its setter calls, reports it (its line is written
as it is then) and the sample goes back to the pool carrying what it carried. `acq` is the `Acquire` under study. -/
def runRecycling (acq : Option Sample → String → Sample) (choose : List Sample → Option Nat) :
    List Sample → List (String × List SampleOp) → List Sample
  | _, [] => []
  | pool, (tag, ops) :: rest =>
    let recycled := (choose pool).bind (pool[·]?)
    let pool' := match choose pool with
      | some i => pool.eraseIdx i
      | none => pool
    let s := applyOps (acq recycled tag) ops
    s :: runRecycling acq choose (s :: pool') rest

/-! ## a gRPC target that goes away in the middle of a run -/

/-- what a request meets once the target is gone: a call that is made fails on the client side with status Unavailable
(14); a request that is never sent (unknown method, bad payload) does not notice -/
def afterGone : GrpcOutcome → GrpcOutcome
  | .invoked _ => .invoked 14
  | o => o

def isInvoked : GrpcOutcome → Bool
  | .invoked _ => true
  | _ => false

/-- A run of the plain gRPC gun. Each request: tag, outcome against a healthy target, and whether the target goes away
while this call is in flight (`kill`; only a call that is made can be in flight). -/
def runGrpcGone : Bool → List (String × GrpcOutcome × Bool) → List Sample
  | _, [] => []
  | gone, (tag, o, kill) :: rest =>
    let gone' := gone || (kill && isInvoked o)
    (shootGrpc tag (if gone' then afterGone o else o)).reports ++ runGrpcGone gone' rest

/-- the outcomes the requests of such a run meet, one by one -/
def effectiveOutcomes : Bool → List (String × GrpcOutcome × Bool) → List (String × GrpcOutcome)
  | _, [] => []
  | gone, (tag, o, kill) :: rest =>
    let gone' := gone || (kill && isInvoked o)
    (tag, if gone' then afterGone o else o) :: effectiveOutcomes gone' rest

/-! ## what the harness knows about a request (ground truth handed to the Spec) -/

/-- gRPC: the status code of the call, when the call was made -/
def grpcTruth : GrpcOutcome → Option Nat
  | .invoked c => some c
  | _ => none

/-- gRPC scenario step: its tag `scenario.tag` and the status code of the call, when it was made -/
def grpcStepTruth (scn : String) (s : GrpcStep) : String × Option Nat :=
  (scn ++ "." ++ s.tag, match s.outcome with | .invoked c _ => some c | _ => none)

end Pandora.Model.C10
