/-
C14, round 6 — a cancellation that lands while the decoder is INSIDE `Scan` (reading the ammo file).

Until round 5 the model knew one kind of cancellation: "after c acquisitions" (`cancelAt`), seen by the provider's own
checks (top of the loops of runFullScan / runPreloaded, the `select` around the send).  A context that is cancelled
while `Decoder.Scan` is reading the file is seen somewhere else:

  streaming   by the reading loop of THAT Scan call, if it goes round once more (a header line, a blank line:
              `if ctx.Err() != nil { return nil, ctx.Err() }` of uri.go / uripost.go / raw.go) — runFullScan then hands
              the decoder's error on AS IT IS (`return err`); otherwise Scan returns its ammo and runFullScan sees the
              cancellation itself (Done branch of the `select` or — the send being ready too — the check at the top of
              its loop after the send);
  preload     by that Scan call or the next one inside `Decoder.LoadAmmo`; `Provider.loadAmmo` turns a cancel that ended
              the load into the context's own error (cf3451c); a decoder that never looks at the context (http/json)
              loads the whole file and `runPreloaded` sees the cancellation at the top of its loop.

How the run ENDS is what core/engine makes of the error `Run` returned: `errutil.IsCtxError(ctx, err)` — the error's
pkg/errors.Cause IS ctx.Err() — means "stopped", anything else "provider failed".  An error in which errors.Is finds
context.Canceled but that is wrapped with `%w` (fmt.Errorf / xerrors.Errorf) is NOT recognised.  `MidEnd.recognised`
is that bit; `CtxRet` is how a decoder hands on the cancelled context it notices (regenerated: Gen.C14Hdr.*ScanCtxBare).
-/
import Pandora.Model.C14Fin

namespace Pandora.Model.C14
open Pandora.Model.C08 hiding fullScan httpRun runFuel run

/-- how `Scan` returns the cancelled context it notices in its reading loop -/
inductive CtxRet where
  | bare      -- `return nil, ctx.Err()` (or a pkg/errors wrapper: Cause finds the context's error)
  | wrapped   -- wrapped with `%w`: errors.Is finds context.Canceled, errutil.IsCtxError does not
  deriving DecidableEq, Repr, Inhabited

/-- how a run ends, as core/engine sees the error `Run` returned -/
structure MidEnd where
  run : RunRes          -- the class errors.Is finds
  recognised : Bool     -- `run = .canceled`: errutil.IsCtxError holds (the engine reports a stopped run); other classes: true
  deriving DecidableEq, Repr, Inhabited

/-- where the cancellation lands and how the two races it opens are decided -/
structure MidPlan where
  j : Nat            -- the context is cancelled while Scan call number `j` (0-based) of the run is reading the file
  notices : Bool     -- that call goes round its reading loop once more (header line, blank line) and sees the cancelled context
  sendWins : Bool    -- that call returns a chosen ammo: the `select` of runFullScan (Done and send both ready) takes the send
  deriving DecidableEq, Repr, Inhabited

/-- the error of a Scan call that noticed the cancelled context, handed on by runFullScan as it is -/
def scanCtxEnd (ret : CtxRet) : MidEnd := ⟨.canceled, ret == .bare⟩

/-- a cancellation the provider's own checks see: `return err` with `err = ctx.Err()` (runFullScanDone / runPreloadedDone) -/
def ownCtxEnd : MidEnd := ⟨.canceled, true⟩

/-- `runFullScan` (Model.C14.fullScan without `cancelAt`) in which the context is cancelled inside Scan call `j`;
`checks` = the decoder's reading loop looks at the context at all (`scanChecksCtx`) -/
def fullScanMid {σ α : Type} (scan : σ → ScanRes × σ) (passNum : σ → Nat) (file : List α) (chosen : α → Bool)
    (limit : Nat) (ret : CtxRet) (checks notices sendWins : Bool) : Nat → Nat → σ → List α → Option (List α × MidEnd)
  | 0, _, _, _ => none
  | fuel + 1, j, s, out =>
    if limit ≠ 0 ∧ limit ≤ out.length then some (out, ⟨.nil, true⟩)
    else if out.length = 0 ∧ 0 < passNum s then some (out, ⟨.errNoAmmo, true⟩)
    else match j with
      | 0 =>
        if checks && notices then some (out, scanCtxEnd ret)
        else match scan s with
          | (.ammo i, _) =>
            match file[i]? with
            | some a => if chosen a && sendWins then some (out ++ [a], ownCtxEnd) else some (out, ownCtxEnd)
            | none => some (out, ⟨.errOther, true⟩)
          | (.errPass, _) => if out.length = 0 then some (out, ⟨.errNoAmmo, true⟩) else some (out, ⟨.nil, true⟩)
          | (.errLimit, _) => some (out, ⟨.nil, true⟩)
          | (.errNoAmmo, _) => some (out, ⟨.errNoAmmo, true⟩)
          | (.unexpected, _) => some (out, ⟨.errOther, true⟩)
      | j' + 1 =>
        match scan s with
        | (.ammo i, s') =>
          match file[i]? with
          | some a =>
            if chosen a then fullScanMid scan passNum file chosen limit ret checks notices sendWins fuel j' s' (out ++ [a])
            else fullScanMid scan passNum file chosen limit ret checks notices sendWins fuel j' s' out
          | none => some (out, ⟨.errOther, true⟩)
        | (.errPass, _) => if out.length = 0 then some (out, ⟨.errNoAmmo, true⟩) else some (out, ⟨.nil, true⟩)
        | (.errLimit, _) => some (out, ⟨.nil, true⟩)
        | (.errNoAmmo, _) => some (out, ⟨.errNoAmmo, true⟩)
        | (.unexpected, _) => some (out, ⟨.errOther, true⟩)

/-- what `Decoder.LoadAmmo` ends with when the context is cancelled inside one of its Scan calls -/
inductive LoadMid (α : Type) where
  | cancelSeen               -- a Scan call returned the cancelled context's error
  | failed (e : RunRes)      -- another error of the decoder
  | loaded (l : List α)      -- the whole file: nobody looked at the context
  deriving Repr

/-- `protoDecoder.LoadAmmo` (Model.C08.loadAmmo) in which the context is cancelled inside Scan call `j`: that call
notices it, or — for a decoder whose reading loop looks at the context — the NEXT call does before it reads anything -/
def loadAmmoMid {σ α : Type} (scan : Bounds → σ → ScanRes × σ) (file : List α) (checks notices : Bool) :
    Nat → Nat → σ → List α → Option (LoadMid α)
  | 0, _, _, _ => none
  | fuel + 1, j, s, acc =>
    match j with
    | 0 =>
      if checks && notices then some .cancelSeen
      else match scan ⟨0, 1⟩ s with
        | (.ammo i, s') =>
          match file[i]? with
          | some a =>
            if checks then some .cancelSeen
            else match loadAmmo scan file fuel s' (acc ++ [a]) with
              | none => none
              | some (.ok l) => some (.loaded l)
              | some (.error e) => some (.failed e)
          | none => some (.failed .errOther)
        | (.errPass, _) => some (.loaded acc)
        | (.errLimit, _) => some (.failed .errLimit)
        | (.errNoAmmo, _) => some (.failed .errNoAmmo)
        | (.unexpected, _) => some (.failed .errOther)
    | j' + 1 =>
      match scan ⟨0, 1⟩ s with
      | (.ammo i, s') =>
        match file[i]? with
        | some a => loadAmmoMid scan file checks notices fuel j' s' (acc ++ [a])
        | none => some (.failed .errOther)
      | (.errPass, _) => some (.loaded acc)
      | (.errLimit, _) => some (.failed .errLimit)
      | (.errNoAmmo, _) => some (.failed .errNoAmmo)
      | (.unexpected, _) => some (.failed .errOther)

/-- the error branch of `Provider.loadAmmo` for a load that a cancel ended: `normalises` = it returns the context's own
error (`return ctxErr`, regenerated: Gen.ChosenCases.loadAmmoFailBare), otherwise the decoder's error wrapped with `%w` -/
def loadCancelEnd (normalises : Bool) : MidEnd := ⟨.canceled, normalises⟩

/-- the preloaded path with the cancellation inside the loading pass: nothing is ever delivered -/
def preloadMid {σ α : Type} (scan : Bounds → σ → ScanRes × σ) (init : σ) (file : List α) (chosen : α → Bool)
    (b : Bounds) (normalises checks : Bool) (plan : MidPlan) (fuel : Nat) : Option (List α × MidEnd) :=
  match loadAmmoMid scan file checks plan.notices fuel plan.j init [] with
  | none => none
  | some .cancelSeen => some ([], loadCancelEnd normalises)
  | some (.failed e) => some ([], ⟨loadFail true e, true⟩)
  | some (.loaded l) =>
    -- the context is cancelled when runPreloaded starts (`cancelAt = some 0`)
    match runPreloaded (l.filter chosen) b (some 0) fuel with
    | none => none
    | some (out, e) => some (out, ⟨mapSentinel e, true⟩)

def midScanOf {α : Type} (k : Fmt) (file : List α) : (Σ σ : Type, (Bounds → σ → ScanRes × σ) × (σ → Nat) × σ) :=
  match k with
  | .uri | .uripost | .raw => ⟨Dec, (fun b => scanStream .eofCheck b file.length), (·.passNum), Dec.init⟩
  | .jsonLines => ⟨Dec, (fun b => scanStream .topCheck b file.length), (·.passNum), Dec.init⟩
  | .jsonArray => ⟨ArrDec, (fun b => scanArr b file.length), (·.passNum), ArrDec.init⟩

/-- `Provider.Run` of format `k` with the context cancelled inside Scan call `plan.j` -/
def runMid {α : Type} (k : Fmt) (preload : Bool) (file : List α) (chosen : α → Bool) (b : Bounds)
    (ret : CtxRet) (normalises : Bool) (plan : MidPlan) (fuel : Nat) : Option (List α × MidEnd) :=
  let m := midScanOf k file
  if preload then preloadMid m.2.1 m.2.2.2 file chosen b normalises (scanChecksCtx k) plan fuel
  else fullScanMid (m.2.1 ⟨0, b.passes⟩) m.2.2.1 file chosen b.limit ret (scanChecksCtx k) plan.notices plan.sendWins
    fuel plan.j m.2.2.2 []

/-! ## where the code asks whether it is preloading -/

/-- the functions of components/providers/http{,/provider,/decoders} that read the config field `Preload`: `Run` (which
path: `httpRun`'s `if preload`) and `Release` (`releasesToPool`).  NewProvider, the decoders, Acquire, loadAmmo and the
two loops never ask — whatever else differs between the modes follows from the path Run takes. -/
def preloadSites : List String := ["provider.Provider.Release", "provider.Provider.Run"]

/-- `Provider.Release`: an ammo is handed back to the decoder (its pool) only when the provider is NOT preloading — a
preloaded ammo is delivered again on the next pass and must not be recycled -/
def releasesToPool (preload : Bool) : Bool := !preload

/-- the token of the harness for such an end (`classifyRun`) -/
def MidEnd.token (e : MidEnd) : String :=
  if e.run == .canceled && !e.recognised then "canceledw" else runName e.run

end Pandora.Model.C14
