/-
Model C16, round 6: the TEXT of a file between `io.ReadAll` and the parser, and how a file is SAVED.

`ParseHCLFile` (config/hcl.go) hands the bytes of the file to `hclparse` after

    bytes = []byte(strings.ReplaceAll(string(bytes), "\r\n", "\n"))

(hcl keeps the carriage returns of a file saved with CRLF line terminators inside heredoc templates; yaml.v2 reads every
line break of a block scalar as LF).  `ParseAmmoConfig` hands the bytes to `DecodeMap` as they are.  Both chains are
regenerated (`Gen.HclYaml.hclTextSteps`, `yamlTextSteps`: callee + constant arguments of every call the text goes
through) and translated to `TextStep`s by `stepsOf`, which refuses anything it does not know.

* `replaceAll old new` is `strings.ReplaceAll` for a non-empty `old` (leftmost, non-overlapping; structural: a counter
  skips the rest of a match);
* `crlfToLf` is its instance for CR LF ↦ LF in closed form (`Proofs/C16Text.lean`: the two agree);
* `saveMixed flags` is an editor saving a text: the i-th line terminator becomes CR LF when the i-th flag says so
  (`toCrlf`: all of them).

Core Lean only.
-/
import Pandora.Model.C16Read

namespace Pandora.Model.C16

/-- `strings.ReplaceAll s old new`, `old` non-empty: `skip` characters still belong to the match replaced last -/
def replaceAllAux (old new : List Char) : Nat → List Char → List Char
  | _, [] => []
  | skip + 1, _ :: cs => replaceAllAux old new skip cs
  | 0, c :: cs =>
    if old.isPrefixOf (c :: cs) then new ++ replaceAllAux old new (old.length - 1) cs
    else c :: replaceAllAux old new 0 cs

/-- `strings.ReplaceAll` (an empty `old` — Go inserts `new` between all characters — is not a step `stepsOf` admits) -/
def replaceAll (old new : List Char) (s : List Char) : List Char :=
  if old.isEmpty then s else replaceAllAux old new 0 s

/-- CR LF ↦ LF, closed form -/
def crlfToLf : List Char → List Char
  | [] => []
  | '\r' :: '\n' :: cs => '\n' :: crlfToLf cs
  | c :: cs => c :: crlfToLf cs

/-- a text saved by an editor: the i-th LF is written as CR LF when the i-th flag is set (no flag left: as it is) -/
def saveMixed : List Bool → List Char → List Char
  | _, [] => []
  | fl, c :: cs =>
    if c = '\n' then
      match fl with
      | true :: fl' => '\r' :: '\n' :: saveMixed fl' cs
      | false :: fl' => '\n' :: saveMixed fl' cs
      | [] => '\n' :: saveMixed [] cs
    else c :: saveMixed fl cs

/-- a text saved with CR LF line terminators throughout -/
def toCrlf : List Char → List Char
  | [] => []
  | c :: cs => if c = '\n' then '\r' :: '\n' :: toCrlf cs else c :: toCrlf cs

/-- one thing done to the text of a file before it is parsed -/
inductive TextStep where
  | replaceAll (old new : String)
  deriving Repr, DecidableEq

def applyStep : TextStep → List Char → List Char
  | .replaceAll old new, s => replaceAll old.toList new.toList s

def applySteps : List TextStep → List Char → List Char
  | [], s => s
  | st :: rest, s => applySteps rest (applyStep st s)

def stepOf (row : String × List String) : Option TextStep :=
  match row with
  | (callee, [old, new]) =>
    if (callee == "strings.ReplaceAll" || callee == "bytes.ReplaceAll") && old != "" then some (.replaceAll old new) else none
  | _ => none

def stepsOfRest : List (String × List String) → Option (List TextStep)
  | [] => some []
  | r :: rest =>
    match stepOf r, stepsOfRest rest with
    | some s, some ss => some (s :: ss)
    | _, _ => none

/-- the regenerated chain as steps: it must start at `io.ReadAll` of the function's own parameter (the WHOLE file: no
`io.LimitReader`, no wrapper); `none` = a call the model does not know -/
def stepsOf : List (String × List String) → Option (List TextStep)
  | ("io.ReadAll", ["param:0"]) :: rest => stepsOfRest rest
  | _ => none

/-- a front-end as a function of the text of the file: the steps, then the parser (`lex`: what hcl / yaml.v2 and the
rest of the front-end make of the text they are handed) -/
def frontOnText {α : Type} (steps : List TextStep) (lex : List Char → Option α) (text : List Char) : Option α :=
  lex (applySteps steps text)

end Pandora.Model.C16
