/-
C17 — model of pandora's configuration decoding (core Lean only, executable, structurally recursive).

What is mirrored (file → definition):
* core/config/config.go `newDecoderConfig`                      → `Flags` (`errorUnused`, `zeroFields`; the model covers
                                                                  `WeaklyTypedInput = false` only, see Bridge/Config.lean)
* core/config/hooks.go `DefaultHooks`, `VariableInjectHook`, `WholeNumberHook`
                                                                 → `Flags.resolveFirst`, `Flags.wholeNumbers`, `decodeScalarWith`, `injectOther`
* lib/confutil/custom_tag_resolver.go `findTags`, `ResolveCustomTags`, `cast`, `castBool/Int/Uint/Float`
                                                                 → `scan`, `resolve`, `castTo`, `parseBoolLit`, `parseIntLit` …
* lib/confutil/env_var_resolver.go, property_var_resolver.go     → `lookupEnv`, `lookupProp`, `findProp`, `lineKV` (the file's lines)
* mitchellh/mapstructure `decode*` (struct with ErrorUnused, squash, ptr, slice, map, basic kinds; errors are
  accumulated, never dropped)                                    → `decode`, `decodeFlat`
* core/plugin/pluginconfig/hooks.go `parseConf`, core/import sink/schedule shortcuts, core/plugin `New`/`NewFactory`
  (a factory made from a component constructor fills its config at the first factory call) → the `plugin` case, `R.later`
* core/config/validator.go + validator.v9 field traversal for the tags the repo uses → `tagsFail`, `R.vfail`
* cli/cli.go `readConfig` discard_overflow defaulting (after viper's key folding) → `lowerKeys`, `defaultDiscard`, `cliRead`

Strings are `List Char` so that every definition reduces in the kernel.
-/
namespace Pandora.Model.C17

abbrev Str := List Char

/-! ## characters and strings -/

def lowerC (c : Char) : Char :=
  if 65 ≤ c.toNat ∧ c.toNat ≤ 90 then Char.ofNat (c.toNat + 32) else c

def lower (s : Str) : Str := s.map lowerC

/-- `strings.EqualFold` on ASCII -/
def eqFold (a b : Str) : Bool := lower a == lower b

def isSpaceC (c : Char) : Bool := c == ' ' || c == '\t' || c == '\n' || c == '\r'

def trimLeft (s : Str) : Str := s.dropWhile isSpaceC
def trim (s : Str) : Str := (trimLeft (trimLeft s).reverse).reverse

def isDigitC (c : Char) : Bool := 48 ≤ c.toNat && c.toNat ≤ 57

def digitsVal : Str → Nat → Nat
  | [], acc => acc
  | c :: cs, acc => digitsVal cs (acc * 10 + (c.toNat - 48))

def allDigits (s : Str) : Bool := !s.isEmpty && s.all isDigitC

/-! ## decimal numbers (the float values the model can name) -/

/-- `± mant / 10^exp` -/
structure Dec where
  neg : Bool
  mant : Nat
  exp : Nat
  deriving DecidableEq, Repr

def Dec.ofInt (i : Int) : Dec := ⟨i < 0, i.natAbs, 0⟩

/-- numerator over `10^exp` -/
def Dec.num (d : Dec) : Int := if d.neg then - (d.mant : Int) else d.mant

/-- `d ≥ n` -/
def Dec.geInt (d : Dec) (n : Int) : Bool := decide (d.num ≥ n * (10 ^ d.exp : Nat))

def Dec.isZero (d : Dec) : Bool := d.mant == 0

/-- no fractional part (`v == math.Trunc(v)`) -/
def Dec.isWhole (d : Dec) : Bool := d.mant % 10 ^ d.exp == 0

/-- truncation toward zero (Go's `int64(f)`) -/
def Dec.trunc (d : Dec) : Int :=
  let q : Int := (d.mant / 10 ^ d.exp : Nat)
  if d.neg then -q else q

/-! ## literals accepted by the casts (strconv)

`strconv.ParseInt(v, 0, bits)` / `ParseUint(v, 0, bits)`: optional sign (ParseInt only), base prefix `0x` / `0o` /
`0b` (either letter case; needs at least one more character), a leading `0` alone means octal, `_` may separate digits
(`underscoreOK`).  `strconv.ParseFloat`: decimal mantissa with an optional fraction (`.5`, `5.` allowed) and an
optional decimal exponent, or `0x` hexadecimal mantissa with a binary exponent, `_` between digits; `inf` / `nan` are
outside the model. -/

/-- plain decimal without leading zeros (ports in the Spec, durations) -/
def decimalNat (s : Str) : Option Nat :=
  match s with
  | [] => none
  | ['0'] => some 0
  | c :: _ => if c == '0' then none else if allDigits s then some (digitsVal s 0) else none

/-- value of a digit / letter as strconv reads it (`a` = 10 … `z` = 35, either case) -/
def digitVal (c : Char) : Option Nat :=
  if isDigitC c then some (c.toNat - 48)
  else
    let l := lowerC c
    if 97 ≤ l.toNat ∧ l.toNat ≤ 122 then some (l.toNat - 97 + 10) else none

/-- the digit loop of `ParseUint` with `base == 0` given: `_` is skipped, every other character must be a digit below `base` -/
def digitsBase (base : Nat) : Str → Nat → Option Nat
  | [], acc => some acc
  | c :: cs, acc =>
    if c == '_' then digitsBase base cs acc
    else
      match digitVal c with
      | some d => if d < base then digitsBase base cs (acc * base + d) else none
      | none => none

def isHexLetterC (c : Char) : Bool := 97 ≤ (lowerC c).toNat && (lowerC c).toNat ≤ 102

/-- `strconv.underscoreOK` after sign and base prefix; `saw`: `'0'` digit, `'_'` underscore, `'!'` other, `'^'` start -/
def underscoreLoop (hex : Bool) : Str → Char → Bool
  | [], saw => saw != '_'
  | c :: cs, saw =>
    if isDigitC c || (hex && isHexLetterC c) then underscoreLoop hex cs '0'
    else if c == '_' then (if saw != '0' then false else underscoreLoop hex cs '_')
    else if saw == '_' then false
    else underscoreLoop hex cs '!'

/-- `strconv.underscoreOK` on an unsigned text: `_` only between digits or between a base prefix and a digit -/
def underscoreOK (s : Str) : Bool :=
  match s with
  | '0' :: p :: r =>
    let l := lowerC p
    if l == 'b' || l == 'o' || l == 'x' then underscoreLoop (l == 'x') r '0' else underscoreLoop false s '^'
  | _ => underscoreLoop false s '^'

/-- `strconv.ParseUint(s, 0, _)` without the range check (the callers check the width) -/
def parseUintLit (s : Str) : Option Nat :=
  match s with
  | [] => none
  | '0' :: rest =>
    let (base, body) : Nat × Str :=
      match rest with
      | p :: q :: r =>
        let l := lowerC p
        if l == 'b' then (2, q :: r) else if l == 'o' then (8, q :: r) else if l == 'x' then (16, q :: r) else (8, rest)
      | _ => (8, rest)
    (digitsBase base body 0).bind fun n => if body.contains '_' && !underscoreOK s then none else some n
  | _ => (digitsBase 10 s 0).bind fun n => if s.contains '_' && !underscoreOK s then none else some n

/-- `strconv.ParseInt(s, 0, _)` without the range check -/
def parseIntLit (s : Str) : Option Int :=
  match s with
  | '-' :: r => (parseUintLit r).map fun n => - (n : Int)
  | '+' :: r => (parseUintLit r).map fun n => (n : Int)
  | _ => (parseUintLit s).map fun n => (n : Int)

/-- `strconv.Atoi`: base 10, optional sign, digits only (leading zeros allowed, no `_`, no prefix) -/
def atoi (s : Str) : Option Int :=
  match s with
  | '-' :: r => if allDigits r then some (- (digitsVal r 0 : Int)) else none
  | '+' :: r => if allDigits r then some (digitsVal r 0 : Int) else none
  | _ => if allDigits s then some (digitsVal s 0 : Int) else none

def intFits (bits : Nat) (i : Int) : Bool :=
  decide (- (2 ^ (bits - 1) : Nat) ≤ i) && decide (i < (2 ^ (bits - 1) : Nat))

def uintFits (bits : Nat) (n : Nat) : Bool := decide (n < 2 ^ bits)

/-- `strconv.ParseBool` -/
def parseBoolLit (s : Str) : Option Bool :=
  if s == ['1'] || s == ['t'] || s == ['T'] || s == "TRUE".toList || s == "true".toList || s == "True".toList then some true
  else if s == ['0'] || s == ['f'] || s == ['F'] || s == "FALSE".toList || s == "false".toList || s == "False".toList then some false
  else none

/-- digits with an optional fraction -/
def splitDot : Str → Str → Str × Option Str
  | [], acc => (acc.reverse, none)
  | c :: cs, acc => if c == '.' then (acc.reverse, some cs) else splitDot cs (c :: acc)

/-- text before / after the first `e` or `E` -/
def splitExp : Str → Str → Str × Option Str
  | [], acc => (acc.reverse, none)
  | c :: cs, acc => if c == 'e' || c == 'E' then (acc.reverse, some cs) else splitExp cs (c :: acc)

def digitsOrEmpty (s : Str) : Bool := s.all isDigitC

/-- mantissa `digits[.digits]` with at least one digit: (all digits as a number, number of fraction digits) -/
def parseMantissa (s : Str) : Option (Nat × Nat) :=
  match splitDot s [] with
  | (ip, none) => if allDigits ip then some (digitsVal ip 0, 0) else none
  | (ip, some fp) =>
    if digitsOrEmpty ip && digitsOrEmpty fp && !(ip.isEmpty && fp.isEmpty) then some (digitsVal (ip ++ fp) 0, fp.length)
    else none

/-- exponent `[+-]digits` -/
def parseExponent (s : Str) : Option Int :=
  match s with
  | '-' :: r => if allDigits r then some (- (digitsVal r 0 : Int)) else none
  | '+' :: r => if allDigits r then some (digitsVal r 0 : Int) else none
  | _ => if allDigits s then some (digitsVal s 0 : Int) else none

/-- (mantissa, decimal places) of an unsigned decimal literal with optional exponent -/
def parseDecAbs (s : Str) : Option (Nat × Nat) :=
  match splitExp s [] with
  | (m, none) => parseMantissa m
  | (m, some e) =>
    match parseMantissa m, parseExponent e with
    | some (mant, places), some ex =>
      if ex ≥ 0 then some (mant * 10 ^ ex.toNat, places) else some (mant, places + ex.natAbs)
    | _, _ => none

/-- hexadecimal digits of a mantissa (underscores already removed) -/
def hexDigitsVal : Str → Nat → Option Nat
  | [], acc => some acc
  | c :: cs, acc =>
    match digitVal c with
    | some d => if d < 16 then hexDigitsVal cs (acc * 16 + d) else none
    | none => none

/-- text before / after the first `p` or `P` -/
def splitP : Str → Str → Str × Option Str
  | [], acc => (acc.reverse, none)
  | c :: cs, acc => if c == 'p' || c == 'P' then (acc.reverse, some cs) else splitP cs (c :: acc)

/-- the hexadecimal form of `strconv.ParseFloat` after `0x`: hex mantissa with an optional fraction, then a MANDATORY
binary exponent `p[+-]digits`; the value `mant · 2^(exp − 4·fractionDigits)` as (mantissa, decimal places) -/
def parseHexAbs (body : Str) : Option (Nat × Nat) :=
  match splitP body [] with
  | (_, none) => none
  | (m, some e) =>
    match splitDot m [] with
    | (ip, fp?) =>
      let fp := fp?.getD []
      if ip.isEmpty && fp.isEmpty then none else
      match hexDigitsVal (ip ++ fp) 0, parseExponent e with
      | some mant, some ex =>
        let e2 : Int := ex - 4 * (fp.length : Int)
        if e2 ≥ 0 then some (mant * 2 ^ e2.toNat, 0) else some (mant * 5 ^ e2.natAbs, e2.natAbs)
      | _, _ => none

/-- an unsigned float literal as `strconv.readFloat` reads it: decimal or hexadecimal; `_` may separate digits
(`underscoreOK` on the whole text), also in the exponent -/
def parseFloatAbs (s : Str) : Option (Nat × Nat) :=
  if s.contains '_' && !underscoreOK s then none else
  let t := s.filter (· != '_')
  match t with
  | '0' :: x :: r => if x == 'x' || x == 'X' then parseHexAbs r else parseDecAbs t
  | _ => parseDecAbs t

/-- `strconv.ParseFloat` on decimal and hexadecimal literals (`inf` / `infinity` / `nan`: outside the model, "cannot
cast" here) -/
def parseDecLit (s : Str) : Option Dec :=
  match s with
  | '-' :: r => (parseFloatAbs r).map fun (m, e) => ⟨true, m, e⟩
  | '+' :: r => (parseFloatAbs r).map fun (m, e) => ⟨false, m, e⟩
  | _ => (parseFloatAbs s).map fun (m, e) => ⟨false, m, e⟩

/-! ## `time.ParseDuration`: `[-+]?([0-9]*(\.[0-9]*)?unit)+`, or `0`

Units ns, us (also written with either micro sign), ms, s, m, h.  Every component may have a fraction (`1.5s`, `.5m`,
`1.s`; not `.s`).  Overflow is an error: an integer part above 2⁶³, a component or a running total above 2⁶³
nanoseconds, a positive total of 2⁶³.  The fraction of a component is `⌊fraction · unit⌋` — Go computes it as
`float64(f) * (float64(unit) / scale)`, which is that number whenever `10^digits` divides the unit (up to 9 digits for
seconds, 6 for ms, 3 for µs, none but zeros for ns) or the fraction is 0; the generated inputs stay inside that. -/

def unitNs (u : Str) : Option Nat :=
  if u == "ns".toList then some 1
  -- `µs` (U+00B5) and `μs` (U+03BC): the model's strings are the BYTES of the Go string (UTF-8)
  else if u == "us".toList || u == [Char.ofNat 0xC2, Char.ofNat 0xB5, 's'] || u == [Char.ofNat 0xCE, Char.ofNat 0xBC, 's'] then some 1000
  else if u == "ms".toList then some 1000000
  else if u == "s".toList then some 1000000000
  else if u == "m".toList then some 60000000000
  else if u == "h".toList then some 3600000000000
  else none

/-- a character that ends the number of a component (start of the unit) -/
def unitChar (c : Char) : Bool := !(isDigitC c || c == '.')

/-- the components of a duration text summed in nanoseconds; `fuel` bounds the number of components -/
def durComps : Nat → Str → Nat → Option Nat
  | 0, _, _ => none
  | fuel + 1, s, tot =>
    if s.isEmpty then some tot else
    let ip := s.takeWhile isDigitC
    let r1 := s.dropWhile isDigitC
    let fp : Str := match r1 with | '.' :: r => r.takeWhile isDigitC | _ => []
    let r2 : Str := match r1 with | '.' :: r => r.dropWhile isDigitC | _ => r1
    if ip.isEmpty && fp.isEmpty then none else
    let us := r2.takeWhile unitChar
    let r3 := r2.dropWhile unitChar
    match unitNs us with
    | none => none
    | some unit =>
      let iv := digitsVal ip 0
      if iv > 2 ^ 63 || iv > 2 ^ 63 / unit then none else
      let v := iv * unit + digitsVal fp 0 * unit / 10 ^ fp.length
      if v > 2 ^ 63 || tot + v > 2 ^ 63 then none else durComps fuel r3 (tot + v)

def parseDurAbs (s : Str) : Option Nat :=
  if s == ['0'] then some 0 else if s.isEmpty then none else durComps (s.length + 1) s 0

/-- nanoseconds -/
def parseDuration (s : Str) : Option Int :=
  match s with
  | '-' :: r => (parseDurAbs r).map fun n => - (n : Int)
  | '+' :: r => (parseDurAbs r).bind fun n => if n < 2 ^ 63 then some (n : Int) else none
  | _ => (parseDurAbs s).bind fun n => if n < 2 ^ 63 then some (n : Int) else none

/-! ## configuration values, decoded values -/

/-- what YAML/JSON parsing hands to the decoder -/
inductive Val
  | null
  | bool (b : Bool)
  | int (i : Int)
  | float (d : Dec)
  | str (s : Str)
  | list (xs : List Val)
  | map (kvs : List (Str × Val))
  deriving Repr

/-- a decoded Go value, as far as it is observable -/
inductive DVal
  | bool (b : Bool)
  | int (i : Int)
  | uint (n : Nat)
  | float (d : Dec)
  | str (s : Str)
  | nil
  | struct (fs : List (Str × DVal))
  | ptr (v : DVal)
  | slice (xs : List DVal)
  | map (kvs : List (Str × DVal))
  | any (v : Val)
  | plugin (conf : DVal)    -- a constructed component, and the config its constructor received (`.opaque`: not known)
  | factory (conf : DVal)   -- a component factory, and the config every component it makes receives
  | special (repr : Str)
  | opaque
  deriving Repr

inductive ErrC
  | unused | type | plugintype | pluginname | validate | resolve | castkind | parse
  deriving DecidableEq, Repr

/-! ## flags, environment -/

/-- the decoder configuration (`newDecoderConfig`) and the position of `VariableInjectHook` in `DefaultHooks()` -/
structure Flags where
  errorUnused : Bool
  zeroFields : Bool
  /-- placeholders are resolved before the type hooks (duration …) see the string -/
  resolveFirst : Bool
  /-- `WholeNumberHook` is in the chain: a number with a fractional part given for an integer / duration field is an
  error (mapstructure alone truncates it) -/
  wholeNumbers : Bool
  /-- `NumberRangeHook` is in the chain: a number the numeric field cannot hold (300 for an int8, 1e19 for an int64 /
  a duration, 1e39 for a float32) is an error (mapstructure alone converts with Go's conversions, which wrap or
  saturate) -/
  numberRange : Bool
  deriving DecidableEq, Repr

/-- the flags of the repository (Bridge/Config.lean proves they are what the source says) -/
def repoFlags : Flags := ⟨true, false, true, true, true⟩

/-- process environment and property files (the LINES of every file, in file order) -/
structure Env where
  vars : List (Str × Str)
  files : List (Str × List Str)

def assoc (l : List (Str × α)) (k : Str) : Option α :=
  match l with
  | [] => none
  | (k', v) :: r => if k' == k then some v else assoc r k

def lookupEnv (env : Env) (name : Str) : Option Str := assoc env.vars name

def cutHash : Str → Str → Option (Str × Str)
  | [], _ => none
  | c :: cs, acc => if c == '#' then some (acc.reverse, cs) else cutHash cs (c :: acc)

def cutEq : Str → Str → Option (Str × Str)
  | [], _ => none
  | c :: cs, acc => if c == '=' then some (acc.reverse, cs) else cutEq cs (c :: acc)

/-- `strings.Contains(line, "=")` + `strings.SplitN(line, "=", 2)`: the text before and after the FIRST `=`;
a line without `=` is no entry -/
def lineKV (line : Str) : Option (Str × Str) := cutEq line []

/-- the scanner loop of `propertyTokenResolver`: the first line whose text before the first `=` IS the key
(`kv[0] == property`: no trimming, no prefix / case-insensitive match) yields the text after that `=` -/
def findProp : List Str → Str → Option Str
  | [], _ => none
  | l :: r, key =>
    match lineKV l with
    | some (k, v) => if k == key then some v else findProp r key
    | none => findProp r key

/-- `bufio.ScanLines` (the scanner's default split function, `dropCR`): the text of a line is the text between two
`\n` without ONE trailing `\r` — a file saved with CRLF line ends gives the same texts as one saved with LF -/
def dropCR (l : Str) : Str :=
  match l.reverse with
  | '\r' :: r => r.reverse
  | _ => l

/-- what `scanner.Text()` yields for the pieces of a file between its `\n` -/
def scanLines (raw : List Str) : List Str := raw.map dropCR

/-- `propertyTokenResolver`: `file#key`; no `#`, unreadable file, missing key are errors.  `env.files` holds the pieces
of every file between its `\n` characters; the scanner hands them to the loop without a trailing `\r` -/
def lookupProp (env : Env) (arg : Str) : Option Str :=
  match cutHash arg [] with
  | none => none
  | some (file, key) =>
    match assoc env.files file with
    | none => none
    | some lines => findProp (scanLines lines) key

/-! ## placeholders (`findTags`, `ResolveCustomTags`) -/

inductive Seg
  | lit (s : Str)
  | tag (text : Str) (ty : Str) (name : Str)
  deriving Repr, DecidableEq

def cutColon : Str → Str → Option (Str × Str)
  | [], _ => none
  | c :: cs, acc => if c == ':' then some (acc.reverse, cs) else cutColon cs (c :: acc)

/-- `${body}` → tag type and variable name (both trimmed); `none` outside the modelled grammar -/
def splitBody (body : Str) : Option (Str × Str) :=
  match cutColon body [] with
  | none => if body.isEmpty then none else some ([], trim body)
  | some (ty, name) => if ty.isEmpty || name.isEmpty then none else some (trim ty, trim name)

/-- scanner state: literal text so far (reversed); inside `${`: body so far (reversed) -/
def scanLoop : Str → Str → Option Str → List Seg → Option (List Seg)
  | [], lit, none, acc => some (acc ++ (if lit.isEmpty then [] else [Seg.lit lit.reverse]))
  | [], _, some _, _ => none                     -- unterminated `${`: outside the modelled grammar
  | '$' :: '{' :: cs, lit, none, acc =>
    scanLoop cs [] (some []) (acc ++ (if lit.isEmpty then [] else [Seg.lit lit.reverse]))
  | c :: cs, lit, none, acc => scanLoop cs (c :: lit) none acc
  | c :: cs, lit, some body, acc =>
    if c == '}' then
      match splitBody body.reverse with
      | some (ty, name) =>
        scanLoop cs [] none (acc ++ [Seg.tag ("${".toList ++ body.reverse ++ ['}']) ty name])
      | none => none
    else if c == '{' then none                   -- `{` inside a tag: outside the modelled grammar
    else scanLoop cs lit (some (c :: body)) acc

/-- the string cut into literal pieces and `${type:name}` tags; `none` = outside the modelled grammar -/
def scan (s : Str) : Option (List Seg) := scanLoop s [] none []

def hasTag : List Seg → Bool
  | [] => false
  | .tag .. :: _ => true
  | _ :: r => hasTag r

/-- exactly one tag and nothing but white space around it (`len(tokens) == 1 && TrimSpace(s) == token`) -/
def loneTag (segs : List Seg) : Bool :=
  match segs.filter (fun s => match s with | .lit l => !(trim l).isEmpty | _ => true) with
  | [.tag ..] => true
  | _ => false

/-- registered resolvers (core/import): `""` and `env` read the environment, `property` reads a file;
a tag of another type is left as it is -/
def resolveTag (env : Env) (text ty name : Str) : Option Str :=
  let t := lower ty
  if t == [] || t == "env".toList then lookupEnv env name
  else if t == "property".toList then lookupProp env name
  else some text

/-- every placeholder replaced by what its resolver returns, all at once (the reading of "placeholders are substituted";
`renderSeq` is what the code does, Proofs/C17Seq.lean relates the two) -/
def render (env : Env) : List Seg → Option Str
  | [] => some []
  | .lit l :: r => (render env r).map (l ++ ·)
  | .tag text ty name :: r =>
    match resolveTag env text ty name with
    | none => none
    | some v => (render env r).map (v ++ ·)

/-- is `pat` a prefix of the text? -/
def isPrefix : Str → Str → Bool
  | [], _ => true
  | _ :: _, [] => false
  | p :: ps, c :: cs => p == c && isPrefix ps cs

/-- `strings.ReplaceAll(s, pat, rep)` for a non-empty `pat`, left to right, non-overlapping; `skip`: characters of
the occurrence just matched that are still to be dropped -/
def replaceAux (pat rep : Str) : Str → Nat → Str
  | [], _ => []
  | _ :: cs, skip + 1 => replaceAux pat rep cs skip
  | c :: cs, 0 =>
    if isPrefix pat (c :: cs) then rep ++ replaceAux pat rep cs (pat.length - 1)
    else c :: replaceAux pat rep cs 0

def replaceAll (s pat rep : Str) : Str := if pat.isEmpty then s else replaceAux pat rep s 0

/-- the loop of `ResolveCustomTags`: the tags in the order `findTags` found them; each is resolved and then EVERY
occurrence of its text in the string built so far is replaced (`res = strings.ReplaceAll(res, t.string, resolved)`).
A resolved value that contains the text of a LATER tag of the same string is therefore substituted again. -/
def renderSeq (env : Env) : Str → List Seg → Option Str
  | res, [] => some res
  | res, .lit _ :: r => renderSeq env res r
  | res, .tag text ty name :: r =>
    match resolveTag env text ty name with
    | none => none
    | some v => renderSeq env (replaceAll res text v) r

inductive Resolved
  | plain                         -- no placeholder in the string
  | failed                        -- a resolver reported an error
  | text (s : Str) (lone : Bool)  -- substituted text; `lone`: the whole string was one placeholder
  | weird                         -- outside the modelled grammar
  deriving Repr, DecidableEq

def resolve (env : Env) (s : Str) : Resolved :=
  match scan s with
  | none => .weird
  | some segs =>
    if !hasTag segs then .plain
    else match renderSeq env s segs with
      | none => .failed
      | some t => .text t (loneTag segs)

/-! ## schemas -/

inductive Kind
  | bool | str
  | int (bits : Nat) | uint (bits : Nat) | float (bits : Nat)
  | dur
  deriving DecidableEq, Repr

inductive VTag
  | required
  | min (n : Int)
  | minTime (ns : Int)
  | maxTime (ns : Int)
  | endpoint
  | urlPath
  | dive
  | omitempty
  | oneOf (alts : List Str)
  | other (t : Str)
  deriving Repr

structure FInfo where
  name : Str
  key : Str
  settable : Bool
  squash : Bool
  tags : List VTag
  deriving Repr

inductive PHook | none | sink | sched
  deriving DecidableEq, Repr

structure PInfo where
  factory : Bool
  hook : PHook
  dfltSet : Bool
  names : List Str
  deriving Repr

mutual
inductive Schema
  | scalar (k : Kind) (d : DVal)
  | struct (fs : Fields)
  | ptr (isNil : Bool) (s : Schema)
  | slice (elem : Schema) (d : DVal)
  | map (elem : Schema) (d : Option (List (Str × DVal)))
  | any (d : DVal)
  | plugin (pi : PInfo) (alts : Alts)
  | special (repr : Str)
  | opaque
inductive Fields
  | nil
  | cons (f : FInfo) (s : Schema) (rest : Fields)
inductive Alts
  | nil
  | cons (name : Str) (lzy : Bool) (s : Schema) (rest : Alts)
end

def Fields.append : Fields → Fields → Fields
  | .nil, b => b
  | .cons f s r, b => .cons f s (Fields.append r b)

mutual
/-- mapstructure's field collection, applied throughout a schema: the fields of a squashed struct are fields of
the enclosing struct. `decode` works on collected fields. -/
def normalize : Schema → Schema
  | .struct fs => .struct (normalizeFields fs)
  | .ptr n s => .ptr n (normalize s)
  | .slice e d => .slice (normalize e) d
  | .map e d => .map (normalize e) d
  | .plugin pi alts => .plugin pi (normalizeAlts alts)
  | s => s
def normalizeFields : Fields → Fields
  | .nil => .nil
  | .cons f (.struct inner) rest =>
    if f.squash then Fields.append (normalizeFields inner) (normalizeFields rest)
    else .cons f (.struct (normalizeFields inner)) (normalizeFields rest)
  | .cons f s rest => .cons f (normalize s) (normalizeFields rest)
def normalizeAlts : Alts → Alts
  | .nil => .nil
  | .cons n l s rest => .cons n l (normalize s) (normalizeAlts rest)
end

/-! ## results -/

/-- outcome of decoding one position. `errs`: reported by `Decode` itself (accumulated like mapstructure does);
`later`: reported by the first call of a factory created here; `vfail`: the validator rejects this subtree -/
structure R where
  val : DVal
  errs : List ErrC := []
  later : List ErrC := []
  vfail : Bool := false
  deriving Repr

def R.fail (v : DVal) (e : ErrC) : R := { val := v, errs := [e] }

/-- what a nested `DecodeAndValidate` (a plugin's config) reports -/
def settle (r : R) : List ErrC :=
  if !r.errs.isEmpty then r.errs else if r.vfail then [.validate] else []

def R.rejected (r : R) : Prop := r.errs ≠ [] ∨ r.vfail = true ∨ r.later ≠ []

instance (r : R) : Decidable r.rejected := by unfold R.rejected; infer_instance

/-! ## validator -/

def DVal.isZero : DVal → Bool
  | .bool b => !b
  | .int i => i == 0
  | .uint n => n == 0
  | .float d => d.isZero
  | .str s => s.isEmpty
  | .nil => true
  | _ => false

/-! ### `EndpointStringValidation`: `net.SplitHostPort`, `govalidator.IsHost`, `govalidator.IsPort` -/

def asciiAlnum (c : Char) : Bool :=
  isDigitC c || (97 ≤ c.toNat && c.toNat ≤ 122) || (65 ≤ c.toNat && c.toNat ≤ 90)

/-- `govalidator.IsPort`: `strconv.Atoi` succeeds and `0 < i < 65536` -/
def isPort (p : Str) : Bool :=
  match atoi p with
  | some i => decide (0 < i) && decide (i < 65536)
  | none => false

/-- text before and after the LAST `:` -/
def cutLastColon (s : Str) : Option (Str × Str) :=
  match cutColon s.reverse [] with
  | none => none
  | some (portRev, hostRev) => some (hostRev.reverse, portRev.reverse)

/-- text before and after the FIRST `]` -/
def cutBracket : Str → Str → Option (Str × Str)
  | [], _ => none
  | c :: cs, acc => if c == ']' then some (acc.reverse, cs) else cutBracket cs (c :: acc)

/-- `net.SplitHostPort`: the port is the text after the last `:`; a host in brackets must be closed right in front of
that colon; without brackets the host has no `:`; no stray `[` / `]` anywhere else -/
def splitHostPort (s : Str) : Option (Str × Str) :=
  match cutLastColon s with
  | none => none                                    -- missing port
  | some (pre, port) =>
    match s with
    | '[' :: r =>
      match cutBracket r [] with
      | none => none                                -- missing ']'
      | some (host, after) =>
        if after == ':' :: port then
          if r.contains '[' || after.contains ']' then none else some (host, port)
        else none                                   -- missing port / too many colons
    | _ =>
      if pre.contains ':' then none                 -- too many colons
      else if s.contains '[' || s.contains ']' then none
      else some (pre, port)

/-- pieces between dots -/
def splitDots : Str → List Str
  | [] => [[]]
  | c :: cs =>
    if c == '.' then [] :: splitDots cs
    else
      match splitDots cs with
      | [] => [[c]]
      | l :: ls => (c :: l) :: ls

def labelOk (l : Str) : Bool :=
  match l with
  | [] => false
  | c :: r => (asciiAlnum c || c == '_') && r.all fun x => asciiAlnum x || x == '_' || x == '-'

/-- `govalidator.IsHost` on a host without `:` whose labels have at most 63 characters: `IsIP(h) || IsDNSName(h)` is
the DNS-name regexp there (a dotted quad matches it too): dot-separated labels, first character a letter / digit /
`_`, then letters / digits / `_` / `-`; one trailing dot allowed -/
def isHostName (h : Str) : Bool :=
  let ls := splitDots h
  -- a trailing dot shows as an empty last piece
  let ls' := if ls.getLast? == some [] && decide (2 ≤ ls.length) then ls.dropLast else ls
  ls'.all labelOk

/-! ### `net.ParseIP` on a text with a `:` (an IPv6 literal; the host of `[…]:port`)

`netip.parseIPv6`: an optional leading `::`; then groups of one to four hexadecimal digits separated by single colons, at
most eight; `::` at most once, standing for at least one group of zeros, also at the very end; the last two groups may
be written as a dotted quad (four decimal fields 0 … 255 without leading zeros) — only in the last position; nothing
after the address; a zone (`%eth0`) is refused by `ParseIP`. -/

def isHexC (c : Char) : Bool := isDigitC c || isHexLetterC c

/-- `netip.parseIPv4Fields`: exactly four decimal fields of one to three digits, 0 … 255, no leading zero -/
def ipv4Ok (s : Str) : Bool :=
  let fs := splitDots s
  fs.length == 4 && fs.all fun f =>
    allDigits f && decide (f.length ≤ 3) && decide (digitsVal f 0 ≤ 255) && !(decide (1 < f.length) && f.head? == some '0')

/-- all groups read: with an ellipsis fewer than eight groups, without exactly eight -/
def ipv6Done (n : Nat) (ell : Bool) : Bool := if n < 8 then ell else (n == 8 && !ell)

/-- the group loop: `n` groups stored so far, `ell`: a `::` was seen; `fuel` bounds the number of groups -/
def ipv6Loop : Nat → Str → Nat → Bool → Bool
  | 0, _, _, _ => false
  | fuel + 1, s, n, ell =>
    if n ≥ 8 then s.isEmpty && !ell          -- the loop ends after eight groups: nothing may follow, no `::` may be pending
    else
      let hex := s.takeWhile isHexC
      let rest := s.dropWhile isHexC
      if hex.isEmpty || decide (4 < hex.length) then false
      else
        match rest with
        | [] => ipv6Done (n + 1) ell
        | '.' :: _ =>
          -- a dotted quad from the start of this group: it replaces the final two groups
          if (!ell && n != 6) || decide (8 < n + 2) then false else ipv4Ok s && ipv6Done (n + 2) ell
        | [':'] => false                        -- a colon must be followed by more
        | ':' :: ':' :: r =>
          if ell then false                     -- a second `::`
          else if r.isEmpty then ipv6Done (n + 1) true
          else ipv6Loop fuel r (n + 1) true
        | ':' :: r => ipv6Loop fuel r (n + 1) ell
        | _ => false

/-- `net.ParseIP(h) != nil` for a text that contains a `:` -/
def parseIPv6Ok (h : Str) : Bool :=
  if h.contains '%' then false
  else
    match h with
    | [':', ':'] => true
    | ':' :: ':' :: r => ipv6Loop (r.length + 1) r 0 true
    | _ => ipv6Loop (h.length + 1) h 0 false

/-- `govalidator.IsHost`: `IsIP(h) || IsDNSName(h)`; a text with a `:` is no DNS name, a text without one that is an IP
(a dotted quad) matches the DNS-name expression too -/
def isHost (h : Str) : Bool := if h.contains ':' then parseIPv6Ok h else isHostName h

/-- hosts the model describes: labels of at most 63 characters, 255 in all, ASCII -/
def hostInModel (h : Str) : Bool :=
  (splitDots h).all (fun l => decide (l.length ≤ 63)) && decide (h.length ≤ 255) && h.all fun c => decide (c.toNat < 128)

/-- the boolean structure of `EndpointStringValidation` (Bridge/Config.lean proves the regenerated body equal to it):
`err == nil && (host == "" || IsHost(host)) && IsPort(port)` -/
def endpointShape (errNil hostEmpty isHost isPort : Bool) : Bool := errNil && (hostEmpty || isHost) && isPort

/-- `EndpointStringValidation` -/
def endpointOk (s : Str) : Bool :=
  match splitHostPort s with
  | none => endpointShape false false false false
  | some (host, port) => endpointShape true host.isEmpty (isHost host) (isPort port)

/-- is the endpoint text one whose host the model describes? -/
def endpointInModel (s : Str) : Bool :=
  match splitHostPort s with
  | none => true
  | some (host, _) => hostInModel host

/-! ### `URLPathStringValidation`: `^(/[a-zA-Z0-9._~!$&'()*+,;=:@%-]+)+$` -/

def pathCharOk (c : Char) : Bool := asciiAlnum c || "._~!$&'()*+,;=:@%-".toList.contains c

/-- after the leading `/`; `afterSlash`: the current segment is still empty -/
def urlPathLoop : Str → Bool → Bool
  | [], afterSlash => !afterSlash
  | c :: cs, afterSlash =>
    if c == '/' then (if afterSlash then false else urlPathLoop cs true)
    else pathCharOk c && urlPathLoop cs false

def urlPathOk (s : Str) : Bool :=
  match s with
  | '/' :: r => urlPathLoop r true
  | _ => false

/-- the boolean structure of `MinTimeValidation` / `MaxTimeValidation` (and the size variants): `ok && bound` -/
def boundShape (ok inBound : Bool) : Bool := ok && inBound

/-- one validator tag against the value of the field -/
def tagFail (t : VTag) (v : DVal) : Bool :=
  match t with
  | .required => v.isZero
  | .min n =>
    match v with
    | .int i => decide (i < n)
    | .uint u => decide ((u : Int) < n)
    | .float d => !d.geInt n
    | .str s => decide ((s.length : Int) < n)
    | .slice xs => decide ((xs.length : Int) < n)
    | .map kvs => decide ((kvs.length : Int) < n)
    | _ => false
  | .minTime ns =>
    match v with
    | .int i => !boundShape true (decide (ns ≤ i))
    | _ => true
  | .maxTime ns =>
    match v with
    | .int i => !boundShape true (decide (i ≤ ns))
    | _ => true
  | .endpoint =>
    match v with
    | .str s => !endpointOk s
    | _ => true
  | .urlPath =>
    match v with
    | .str s => !urlPathOk s
    | _ => true
  | .oneOf alts =>
    match v with
    | .str s => !alts.contains s
    | _ => true
  | .dive => false
  | .omitempty => false
  | .other _ => false

/-- the tags of one field in order; `omitempty` ends the chain for a zero value -/
def tagsFail : List VTag → DVal → Bool
  | [], _ => false
  | .omitempty :: r, v => if v.isZero then false else tagsFail r v
  | t :: r, v => tagFail t v || tagsFail r v

def hasDive (ts : List VTag) : Bool := ts.any fun t => match t with | .dive => true | _ => false

/-! ## scalar decoding (hooks + kind switch) -/

def zeroOf : Kind → DVal
  | .bool => .bool false
  | .str => .str []
  | .int _ => .int 0
  | .uint _ => .uint 0
  | .float _ => .float ⟨false, 0, 0⟩
  | .dur => .int 0

/-- `math.MaxFloat32` = (2 − 2⁻²³)·2¹²⁷ -/
def maxFloat32 : Nat := 340282346638528859811704183484516925440

/-- `|d| ≤ n` -/
def Dec.absLeNat (d : Dec) (n : Nat) : Bool := decide (d.mant ≤ n * 10 ^ d.exp)

/-- `|d| < n` -/
def Dec.absLtNat (d : Dec) (n : Nat) : Bool := decide (d.mant < n * 10 ^ d.exp)

/-- `strconv.ParseFloat(s, bits)` reports a range error (and the cast fails) when the decimal rounds to an infinity:
from half an ulp above the largest finite value of the width on (the tie rounds to even, that is up) -/
def floatLimit (bits : Nat) : Nat :=
  -- 2^128 − 2^103 and 2^1024 − 2^970
  if bits == 32 then 340282356779733661637539395458142568448
  else 179769313486231580793728971405303415079934132710037826936173778980444968292764750946649017977587207096330286416692887910946555547851940402630657488671505820681908902000708383676273854845817711531764475730270069855571366959622842914819860834936475292719074168444365510704342711559699508093042880177904174497792

/-- the float `castFloat` stores for the decimal `d`: `none` when `strconv.ParseFloat(_, bits)` reports a range error;
a decimal between the largest finite float32 and the rounding limit rounds to that largest value (rounding to the
width is otherwise not modelled: the decimal stands for the float nearest to it) -/
def castFloat (bits : Nat) (d : Dec) : Option Dec :=
  if !d.absLtNat (floatLimit bits) then none
  else if bits == 32 && !d.absLeNat maxFloat32 then some ⟨d.neg, maxFloat32, 0⟩
  else some d

/-- `confutil.cast` after the repairs: signed kinds parse signed, unsigned kinds parse unsigned, floats parse at the
width of the target.  `none`: "cannot cast", the resolved text stays a string. -/
def castTo (k : Kind) (s : Str) : Option Val :=
  match k with
  | .bool => (parseBoolLit s).map Val.bool
  | .int bits => (parseIntLit s).bind fun i => if intFits bits i then some (Val.int i) else none
  | .uint bits => (parseUintLit s).bind fun n => if uintFits bits n then some (Val.int n) else none
  | .float bits => (parseDecLit s).bind fun d => (castFloat bits d).map Val.float
  | .str => some (Val.str s)
  | .dur => (parseIntLit s).bind fun i => if intFits 64 i then some (Val.int i) else none

/-- the pre-repair `castInt` used for unsigned kinds too: signed parse at the width of the target, then a
conversion to the unsigned type (wraps modulo `2^bits`) -/
def castToOld (k : Kind) (s : Str) : Option Val :=
  match k with
  | .uint bits =>
    (parseIntLit s).bind fun i =>
      if intFits bits i then some (Val.int (i % (2 ^ bits : Nat))) else none
  | k => castTo k s

/-- can a field of kind `k` hold the number `v`?  Integer kinds: the (truncated) number lies in the range of the width
(a negative number for an unsigned kind counts as fitting here: the kind switch itself reports it); float32: the
magnitude is at most `math.MaxFloat32`; everything else fits.  What `NumberRangeHook` checks. -/
def fitsKind : Kind → Val → Bool
  | .int bits, .int i => intFits bits i
  | .int bits, .float d => intFits bits d.trunc
  | .dur, .int i => intFits 64 i
  | .dur, .float d => intFits 64 d.trunc
  | .uint bits, .int i => decide (i < 0) || uintFits bits i.toNat
  | .uint bits, .float d => (d.neg && !d.isZero) || uintFits bits d.trunc.toNat
  | .float bits, .float d => bits != 32 || d.absLeNat maxFloat32
  | _, _ => true

/-- mapstructure's kind switch with `WeaklyTypedInput = false`.  A number the target cannot hold is converted by a
plain Go conversion (`SetInt(int64(f))`, `SetInt` into a narrower field, `SetFloat` into a float32): accepted without
an error, the stored value wrapped, saturated or implementation-specific — `.opaque` here (with `NumberRangeHook` in
the chain such a number never arrives). -/
def decodeKind (k : Kind) (cur : DVal) (v : Val) : R :=
  match k, v with
  | .bool, .bool b => { val := .bool b }
  | .str, .str s => { val := .str s }
  | .int bits, .int i => { val := if intFits bits i then .int i else .opaque }
  | .int bits, .float d => { val := if intFits bits d.trunc then .int d.trunc else .opaque }
  | .dur, .int i => { val := if intFits 64 i then .int i else .opaque }
  | .dur, .float d => { val := if intFits 64 d.trunc then .int d.trunc else .opaque }
  | .uint bits, .int i =>
    if i < 0 then R.fail cur .type else { val := if uintFits bits i.toNat then .uint i.toNat else .opaque }
  | .uint bits, .float d =>
    if d.neg && !d.isZero then R.fail cur .type
    else { val := if uintFits bits d.trunc.toNat then .uint d.trunc.toNat else .opaque }
  | .float _, .int i => { val := .float (Dec.ofInt i) }
  | .float bits, .float d => { val := if bits != 32 || d.absLeNat maxFloat32 then .float d else .opaque }
  | _, _ => R.fail cur .type

/-- a number with a fractional part -/
def fractional : Val → Bool
  | .float d => !d.isWhole
  | _ => false

/-- the kinds `WholeNumberHook` guards (time.Duration is an int64) -/
def intKind : Kind → Bool
  | .int _ => true
  | .uint _ => true
  | .dur => true
  | _ => false

/-- `VariableInjectHook` at a scalar target, then `WholeNumberHook` and `NumberRangeHook`, the duration hook, then the
kind switch (a value cast from a lone placeholder was parsed at the width of the target: it fits).
`cast` selects the cast in use (repaired / pre-repair). -/
def decodeScalarWith (cast : Kind → Str → Option Val) (fl : Flags) (env : Env) (k : Kind) (cur : DVal) (v : Val) : R :=
  match v with
  | .str s =>
    -- hook order of a mutated tree: the duration hook sees the raw text first
    if !fl.resolveFirst && k == .dur then
      match parseDuration s with
      | some ns => { val := .int ns }
      | none => R.fail cur .parse
    else
    let afterInject : Except ErrC Val :=
      match resolve env s with
      | .plain => .ok (.str s)
      | .failed => .error .resolve
      | .weird => .ok (.str s)
      | .text t lone =>
        if lone then
          match cast k t with
          | some c => .ok c
          | none => .ok (.str t)
        else .ok (.str t)
    match afterInject with
    | .error e => R.fail cur e
    | .ok (.str t) =>
      if k == .dur then
        match parseDuration t with
        | some ns => { val := .int ns }
        | none => R.fail cur .parse
      else decodeKind k cur (.str t)
    | .ok w => decodeKind k cur w
  | w =>
    if fl.wholeNumbers && intKind k && fractional w then R.fail cur .type
    else if fl.numberRange && !fitsKind k w then R.fail cur .type
    else decodeKind k cur w

def decodeScalar := decodeScalarWith castTo

/-- a string at a non-scalar target: substituted, but a lone placeholder is "unsupported kind" -/
def injectOther (env : Env) (s : Str) : Except ErrC Str :=
  match resolve env s with
  | .plain => .ok s
  | .weird => .ok s
  | .failed => .error .resolve
  | .text t lone => if lone then .error .castkind else .ok t

/-! ## plugin positions -/

def isTypeKey (k : Str) : Bool := lower k == "type".toList

def typeEntries (kvs : List (Str × Val)) : List Val :=
  (kvs.filter fun kv => isTypeKey kv.1).map (·.2)

def dropType (kvs : List (Str × Val)) : List (Str × Val) :=
  kvs.filter fun kv => !isTypeKey kv.1

/-- `sinkStringHook`: the names for which a string hook is registered (core/import) -/
def sinkNames : List Str := ["stdout".toList, "stderr".toList, "stdin".toList]

def sinkMap (s : Str) : List (Str × Val) :=
  if sinkNames.contains s then [("type".toList, .str s)]
  else [("type".toList, .str "file".toList), ("path".toList, .str s)]

/-- the config a constructed component / the components of a factory received -/
def instConf : DVal → Option DVal
  | .plugin c => some c
  | .factory c => some c
  | _ => none

/-! ## struct fields -/

/-- the data key a struct field takes: exact name first, then a case-insensitive match -/
def findKey (kvs : List (Str × Val)) (key : Str) : Option (Str × Val) :=
  match kvs.find? (fun kv => kv.1 == key) with
  | some kv => some kv
  | none => kvs.find? (fun kv => eqFold kv.1 key)

structure FR where
  vals : List (Str × DVal) := []
  errs : List ErrC := []
  later : List ErrC := []
  vfail : Bool := false
  used : List Str := []

def isContainer : Schema → Bool
  | .slice .. => true
  | .map .. => true
  | _ => false

/-- does the validator descend into this field's value? structs always, slices and maps only with `dive` -/
def childVfail (f : FInfo) (s : Schema) (r : R) : Bool :=
  if isContainer s then hasDive f.tags && r.vfail else r.vfail

/-! ## the decoder -/

mutual

/-- the value a position keeps when the configuration says nothing (or `null`) about it -/
def keep (zero : Bool) : Schema → R
  | .scalar k d => { val := if zero then zeroOf k else d }
  | .struct fs =>
    let r := keepFields zero fs
    { val := .struct r.vals, vfail := r.vfail }
  | .ptr isNil s =>
    if isNil || zero then { val := .nil }
    else let r := keep zero s; { val := .ptr r.val, vfail := r.vfail }
  | .slice _ d => { val := if zero then .nil else d }
  | .map _ d => { val := if zero then .nil else match d with | none => .nil | some kvs => .map kvs }
  | .any d => { val := if zero then .nil else d }
  | .plugin pi _ => { val := if pi.dfltSet && !zero then (if pi.factory then .factory .opaque else .plugin .opaque) else .nil }
  | .special repr => { val := .special repr }
  | .opaque => { val := .opaque }

def keepFields (zero : Bool) : Fields → FR
  | .nil => {}
  | .cons f s rest =>
    let r := keep zero s
    let fr := keepFields zero rest
    { vals := (f.name, r.val) :: fr.vals
      vfail := tagsFail f.tags r.val || childVfail f s r || fr.vfail }

end

mutual

/-- `Decoder.decode` of one position -/
def decode (fl : Flags) (env : Env) : Schema → Val → R
  | s, .null => keep fl.zeroFields s
  | .scalar k d, v => decodeScalar fl env k d v
  | .struct fs, .map kvs =>
    let fr := decodeFlat fl env fs kvs
    let unused := kvs.filter fun kv => !fr.used.contains kv.1
    { val := .struct fr.vals
      errs := fr.errs ++ (if fl.errorUnused && !unused.isEmpty then [.unused] else [])
      later := fr.later
      vfail := fr.vfail }
  | .struct fs, _ => R.fail (keep false (.struct fs)).val .type
  | .ptr n s, .str str =>
    -- the hook chain runs on the POINTER target first (kind Ptr): `VariableInjectHook` resolves the text there, and a
    -- lone placeholder has no castable kind (`confutil.cast`: "unsupported kind") — also when the pointee is a scalar
    match injectOther env str with
    | .error e => R.fail (keep false (.ptr n s)).val e
    | .ok _ =>
      let r := decode fl env s (.str str)
      { r with val := .ptr r.val }
  | .ptr _ s, v =>
    let r := decode fl env s v
    { r with val := .ptr r.val }
  | .slice elem _, .list xs =>
    let rs := xs.map fun x => decode fl env elem x
    { val := .slice (rs.map (·.val))
      errs := (rs.map (·.errs)).flatten
      later := (rs.map (·.later)).flatten
      vfail := rs.any (·.vfail) }
  | .slice _ d, _ => R.fail d .type
  | .map elem d, .map kvs =>
    let rs := kvs.map fun kv => (kv.1, decode fl env elem kv.2)
    let base := if fl.zeroFields then [] else d.getD []
    let fresh := rs.map fun kr => (kr.1, kr.2.val)
    { val := .map ((base.filter fun b => !(fresh.map (·.1)).contains b.1) ++ fresh)
      errs := (rs.map (·.2.errs)).flatten
      later := (rs.map (·.2.later)).flatten
      vfail := rs.any (·.2.vfail) }
  | .map _ d, _ => R.fail (match d with | none => .nil | some kvs => .map kvs) .type
  | .any d, .str s =>
    match injectOther env s with
    | .ok t => { val := .any (.str t) }
    | .error e => R.fail d e
  | .any _, v => { val := .any v }
  | .plugin pi alts, v =>
    let cur : DVal := if pi.dfltSet then (if pi.factory then .factory .opaque else .plugin .opaque) else .nil
    -- hooks in front of the plugin hooks: placeholders, sink string shortcut, schedule list shortcut
    let pre : Except ErrC Val :=
      match v with
      | .str s =>
        match injectOther env s with
        | .error e => .error e
        | .ok t => if pi.hook == .sink then .ok (.map (sinkMap t)) else .ok (.str t)
      | .list xs =>
        if pi.hook == .sched then .ok (.map [("type".toList, .str "composite".toList), ("nested".toList, .list xs)])
        else .ok (.list xs)
      | w => .ok w
    match pre with
    | .error e => R.fail cur e
    | .ok (.map kvs) =>
      -- parseConf
      match typeEntries kvs with
      | [.str name] =>
        if !pi.names.contains name then R.fail cur .pluginname
        else
          match decodeAlt fl env alts name (.map (dropType kvs)) with
          | none => R.fail cur .pluginname      -- alternative not in the (pruned) schema
          | some (lzy, r) =>
            -- core/plugin `New` / `NewFactory`: the registered constructor receives the block (without its `type` key)
            -- decoded into a FRESH default config of the named plugin — at once, or at every call of the factory
            let made : DVal := if pi.factory then .factory r.val else .plugin r.val
            let now := settle r
            if lzy then
              { val := made, later := if now.isEmpty then r.later else now }
            else if now.isEmpty then { val := made, later := r.later }
            else { val := cur, errs := now }
      | _ => R.fail cur .plugintype
    | .ok _ => R.fail cur .type
  | .special repr, _ => { val := .special repr }     -- library parsers: not modelled (the driver skips these cases)
  | .opaque, _ => { val := .opaque }

/-- `decodeStructFromMap` over the collected fields (see `normalize`) -/
def decodeFlat (fl : Flags) (env : Env) : Fields → List (Str × Val) → FR
  | .nil, _ => {}
  | .cons f s rest, kvs =>
    let fr := decodeFlat fl env rest kvs
    match (if f.settable then findKey kvs f.key else none) with
    | none =>
      let r := keep false s
      { fr with vals := (f.name, r.val) :: fr.vals
                vfail := tagsFail f.tags r.val || childVfail f s r || fr.vfail }
    | some (k, v) =>
      let r := decode fl env s v
      -- a field whose decoding failed keeps its previous value
      { vals := (f.name, r.val) :: fr.vals
        errs := r.errs ++ fr.errs
        later := r.later ++ fr.later
        vfail := tagsFail f.tags r.val || childVfail f s r || fr.vfail
        used := k :: fr.used }

/-- the registered plugin of that name: its config is decoded into its default config and validated -/
def decodeAlt (fl : Flags) (env : Env) : Alts → Str → Val → Option (Bool × R)
  | .nil, _, _ => none
  | .cons n lzy s rest, name, v =>
    if n == name then some (lzy, decode fl env s v) else decodeAlt fl env rest name v

end

/-! ## top level -/

inductive Outcome
  | ok (v : DVal)
  | err (es : List ErrC)       -- `config.DecodeAndValidate` returns an error
  | late (es : List ErrC)      -- accepted, but the first call of a created factory fails
  deriving Repr

/-- `config.DecodeAndValidate` followed by the first call of every factory it created -/
def decodeAndValidate (fl : Flags) (env : Env) (s : Schema) (cfg : Val) : Outcome :=
  let r := decode fl env s cfg
  let now := settle r
  if !now.isEmpty then .err now
  else if !r.later.isEmpty then .late r.later
  else .ok r.val

def Outcome.rejected : Outcome → Bool
  | .ok _ => false
  | _ => true

/-! ## cli.readConfig -/

/-- the loop of `readConfig` over `pools`: a pool mapping without `discard_overflow` gets `discard_overflow: dflt` -/
def defaultDiscardWith (dflt : Bool) (cfg : Val) : Val :=
  match cfg with
  | .map kvs =>
    .map (kvs.map fun kv =>
      if kv.1 == "pools".toList then
        match kv.2 with
        | .list pools =>
          (kv.1, .list (pools.map fun p =>
            match p with
            | .map pk =>
              if (pk.any fun e => e.1 == "discard_overflow".toList) then .map pk
              else .map (pk ++ [("discard_overflow".toList, .bool dflt)])
            | other => other))
        | other => (kv.1, other)
      else kv)
  | other => other

/-- the value `readConfig` inserts (Bridge/Config.lean ties it to the source) -/
def discardDefault : Bool := true

def defaultDiscard := defaultDiscardWith discardDefault

mutual
/-- viper (`insensitiviseMap` / `insensitiveArray`): every mapping key of the parsed file is lower-cased, through nested
mappings and lists, before `readConfig` looks at the pools -/
def lowerKeys : Val → Val
  | .map kvs => .map (lowerKeysKVs kvs)
  | .list xs => .list (lowerKeysList xs)
  | v => v
def lowerKeysKVs : List (Str × Val) → List (Str × Val)
  | [] => []
  | (k, v) :: r => (lower k, lowerKeys v) :: lowerKeysKVs r
def lowerKeysList : List Val → List Val
  | [] => []
  | v :: r => lowerKeys v :: lowerKeysList r
end

/-- `cli.readConfig` after the file is parsed: viper's key folding, the discard_overflow defaulting, the decode -/
def cliRead (fl : Flags) (env : Env) (s : Schema) (cfg : Val) : Outcome :=
  decodeAndValidate fl env s (defaultDiscard (lowerKeys cfg))

end Pandora.Model.C17
