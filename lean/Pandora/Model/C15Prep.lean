/-
C15 round 6 — `ScenarioGun.prepareRequest` and the tail of `ScenarioGun.shoot` (min_waiting_time) as code, core Lean, executable.

`prepareRequest` turns the rendered parts of a step into the request that goes on the wire. Its own logic (the library
calls `http.NewRequest`, `textproto.CanonicalMIMEHeaderKey` inside `Header.Set`, `net.SplitHostPort` are parameters `PrepLib`):

    var reader io.Reader; if reqParts.Body != nil { reader = bytes.NewReader(reqParts.Body) }      -- bodyReader
    req, err := http.NewRequest(reqParts.Method, reqParts.URL, reader)                               -- newRequest
    if err != nil { return nil, … }                                                                  -- chk
    for k, v := range reqParts.Headers {                                                             -- headers [
        if strings.EqualFold(k, "Host") { req.Host = v; continue }                                   --   ifHost, setHost, next, endIf
        req.Header.Set(k, v)                                                                         --   set ]
    }
    if g.base.Config.SSL { req.URL.Scheme = "https" } else { req.URL.Scheme = "http" }               -- scheme
    if req.Host == "" { req.Host = getHostWithoutPort(g.base.Config.Target) }                        -- hostDefault
    req.URL.Host = g.base.Config.TargetResolved                                                      -- urlHost
    return req, err                                                                                  -- ret

(repair 789fa67: net/http sends `req.Host` and ignores a `Host` entry of `req.Header`; before, a `Host` header of a
request definition never reached the target.)
-/
import Pandora.Model.C15

namespace Pandora.Model.C15

structure ReqParts where
  url : String
  method : String
  body : Option String
  /-- in the order the iteration over the Go map happens to visit them -/
  headers : List (String × String)
deriving Repr, DecidableEq

structure PrepCfg where
  ssl : Bool
  target : String
  targetResolved : String
deriving Repr, DecidableEq

/-- what `prepareRequest` returns, as far as the gun decides it -/
structure HReq where
  method : String
  url : String                      -- as handed to `http.NewRequest` (path and query are the library's)
  scheme : String
  urlHost : String                  -- `req.URL.Host`: where the connection goes
  host : String                     -- `req.Host`: the Host header on the wire
  header : List (String × String)   -- canonical name ↦ value (`Header.Set` replaces)
  hasBody : Bool
deriving Repr, DecidableEq

/-- the libraries `prepareRequest` calls -/
structure PrepLib where
  /-- `http.NewRequest(method, url, _)`: `none` = error (bad method / URL), else `u.Host` of the parsed URL ("" for a relative one) -/
  newReq : String → String → Option String
  /-- `textproto.CanonicalMIMEHeaderKey` -/
  canon : String → String
  /-- `net.SplitHostPort(target)`: `none` = error -/
  splitHost : String → Option String

/-- simple Unicode case folding as far as it matters for a comparison with "host": besides the ASCII letters only
`ſ` (U+017F, LATIN SMALL LETTER LONG S) folds to `s` -/
def foldHostC (c : Char) : Char := if c == 'ſ' then 's' else c.toLower

/-- `strings.EqualFold(k, name)` for an ASCII lower-case-insensitive `name` made of the letters of "host" -/
def equalFoldTo (name : String) (k : String) : Bool := k.toList.map foldHostC == name.toList.map foldHostC

/-- `getHostWithoutPort` -/
def hostWithoutPort (lib : PrepLib) (target : String) : String := (lib.splitHost target).getD target

inductive HdrOp where
  | ifHost (name : String)    -- `if strings.EqualFold(k, name) {`
  | setHost                   -- `req.Host = v`
  | next                      -- `continue`
  | endIf                     -- `}`
  | set                       -- `req.Header.Set(k, v)`
deriving Repr, DecidableEq

inductive PrepOp where
  | bodyReader
  | newRequest
  | chk
  | headers (body : List HdrOp)
  | scheme (ifSSL otherwise : String)
  | hostDefault
  | urlHost
  | ret
deriving Repr, DecidableEq

/-- one header `(k, v)` through the loop body (guards are not nested); `skip` = inside a guard whose condition is false -/
def runHdrOps (lib : PrepLib) (k v : String) : List HdrOp → Bool → HReq → HReq
  | [], _, q => q
  | .ifHost name :: r, _, q => runHdrOps lib k v r (!equalFoldTo name k) q
  | .endIf :: r, _, q => runHdrOps lib k v r false q
  | .setHost :: r, skip, q => runHdrOps lib k v r skip (if skip then q else { q with host := v })
  | .next :: r, skip, q => if skip then runHdrOps lib k v r skip q else q
  | .set :: r, skip, q =>
    runHdrOps lib k v r skip (if skip then q else { q with header := setKey (lib.canon k) v q.header })

structure PrepState where
  reader : Bool := false
  req : Option HReq := none
  err : Bool := false

/-- the interpreter of `prepareRequest`'s statement list; `none` = the code reaches a state without meaning (a nil request
is dereferenced) or falls off the end; `some none` = an error is returned -/
def runPrepOps (lib : PrepLib) (cfg : PrepCfg) (p : ReqParts) : List PrepOp → PrepState → Option (Option HReq)
  | [], _ => none
  | .bodyReader :: r, s => runPrepOps lib cfg p r { s with reader := p.body.isSome }
  | .newRequest :: r, s =>
    (match lib.newReq p.method p.url with
     | none => runPrepOps lib cfg p r { s with err := true, req := none }
     | some uh =>
       let q : HReq := { method := p.method, url := p.url, scheme := "", urlHost := uh, host := uh, header := [], hasBody := s.reader }
       runPrepOps lib cfg p r { s with err := false, req := some q })
  | .chk :: r, s => if s.err then some none else runPrepOps lib cfg p r s
  | .headers body :: r, s =>
    (match s.req with
     | none => none
     | some q => runPrepOps lib cfg p r { s with req := some (p.headers.foldl (fun q kv => runHdrOps lib kv.1 kv.2 body false q) q) })
  | .scheme a b :: r, s =>
    (match s.req with
     | none => none
     | some q => runPrepOps lib cfg p r { s with req := some { q with scheme := if cfg.ssl then a else b } })
  | .hostDefault :: r, s =>
    (match s.req with
     | none => none
     | some q => runPrepOps lib cfg p r { s with req := some (if q.host == "" then { q with host := hostWithoutPort lib cfg.target } else q) })
  | .urlHost :: r, s =>
    (match s.req with
     | none => none
     | some q => runPrepOps lib cfg p r { s with req := some { q with urlHost := cfg.targetResolved } })
  | .ret :: _, s => if s.err then some none else s.req.map some

/-- the code of `prepareRequest` as it is in the repository (what `Gen.C15Flow.prepCode` must be) -/
def prepCode : List PrepOp :=
  [.bodyReader, .newRequest, .chk, .headers [.ifHost "Host", .setHost, .next, .endIf, .set], .scheme "https" "http",
   .hostDefault, .urlHost, .ret]

/-- the header loop read directly: a header named Host (in any case) becomes the request's host, every other header is
set under its canonical name -/
def prepHeaders (lib : PrepLib) (hs : List (String × String)) (q : HReq) : HReq :=
  hs.foldl (fun q kv => if equalFoldTo "Host" kv.1 then { q with host := kv.2 }
                        else { q with header := setKey (lib.canon kv.1) kv.2 q.header }) q

/-- `prepareRequest` read directly -/
def prepareRequest (lib : PrepLib) (cfg : PrepCfg) (p : ReqParts) : Option HReq :=
  match lib.newReq p.method p.url with
  | none => none
  | some uh =>
    let q := prepHeaders lib p.headers
      { method := p.method, url := p.url, scheme := "", urlHost := uh, host := uh, header := [], hasBody := p.body.isSome }
    some { q with scheme := if cfg.ssl then "https" else "http",
                  host := if q.host == "" then hostWithoutPort lib cfg.target else q.host,
                  urlHost := cfg.targetResolved }

/-! ## the tail of `shoot`: min_waiting_time

    startAt := time.Now(); for … { … if err != nil { g.reportErr(sample, err); return err } }
    spent := time.Since(startAt)
    if ammo.MinWaitingTime > spent { time.Sleep(ammo.MinWaitingTime - spent) }
    return nil
-/

/-- the pause after the last step of a shot in which no step failed (`none`: no pause); all in one unit of time -/
def mwtPause (minWaitingTime spent : Int) : Option Int :=
  if minWaitingTime > spent then some (minWaitingTime - spent) else none

end Pandora.Model.C15
