/-
C19, round 3 — RESPONSE-DERIVED VARIABLES (core Lean only, executable), with explicit panic outcomes.

What a postprocessor stored from an earlier RESPONSE (a JSON list of any length, the values of an xpath node set, a
header value) is read again inside `Shoot` by the next steps:

* lib/mp/map.go            `GetMapValue` / `extractFromSlice` / `calcIndex`: `request.<step>.postprocessor.<var>[next|rand|last|N]`
* lib/mp/iterator.go       `NextIterator.Next` / `Rand` (`rand.Intn` panics for an argument ≤ 0)
* …/scenario/http/preprocessor/preprocessor.go, …/scenario/grpc/preprocessor/prepare.go   `Process`
* …/scenario/templater/exec.go `ExecTemplateFuncWithVariables`, func.go `RandInt` / `RandString` (arguments looked up in
  the variables: `randString(request.<step>.postprocessor.<var>)`), lib/str `RandStringRunes` (`make([]rune, n)`),
  lib/numbers `ParseInt`
* components/guns/http_scenario/gun.go `shootStep`: the preprocessor runs first; its error is the step's error

The variable tree, the lengths of its lists, the types of its values and the texts of its strings are chosen by the peer:
`Val` is an arbitrary finite tree. The paths (`Seg`) and the function calls are configuration. What the shared iterator
hands out is environment (`Iter`: any values).
-/
import Pandora.Model.C19

namespace Pandora.Model.C19
open Pandora.Model.C10

/-! ## variable trees -/

/-- a value of the template variables as the code distinguishes them -/
inductive Val where
  /-- `nil` (JSON null, a variable that holds nothing) -/
  | null
  /-- a Go string: a header value, an xpath value, a JSON string -/
  | str (s : String)
  /-- any other scalar (JSON number = float64, bool, an int of a variable source); `asInt`: what `numbers.ParseInt`
  makes of its Go type (float64 / bool: "unsupported type" = `none`) -/
  | other (tag : String) (asInt : Option Int)
  /-- a slice; `accepted`: its type is one of the seven `extractFromSlice` accepts ([]any, []string, []map[string]any,
  []map[string]string — elements then converted to map[string]any —, []int, []int64, []float64) -/
  | list (accepted : Bool) (xs : List Val)
  /-- `map[string]any` (later entries with the same key are shadowed by earlier ones) -/
  | obj (fields : List (String × Val))
  deriving Inhabited

abbrev Fields := List (String × Val)

def lookupField (fs : Fields) (name : String) : Option Val := (fs.find? (·.1 == name)).map (·.2)

/-! ## `calcIndex` -/

/-- what `calcIndex` makes of the index text: `strconv.Atoi` succeeded, one of the three keywords, or neither -/
inductive IndexKind where
  | num (i : Int)
  | next
  | rand
  | last
  | bad
  deriving Repr, DecidableEq, Inhabited

/-- the index text as `calcIndex` sees it: `atoi = strconv.Atoi(indexStr)` -/
def indexKindOf (indexStr : String) (atoi : Option Int) : IndexKind :=
  if indexStr = "next" then .next else if indexStr = "rand" then .rand else if indexStr = "last" then .last
  else match atoi with
    | some i => .num i
    | none => .bad

/-- Go `a % b` on ints: panics for `b = 0`, truncated remainder otherwise -/
def goRem (a b : Int) : Checked Int := if b = 0 then .panic "integer divide by zero" else .ok (a.tmod b)

/-- `rand.Intn(n)`: panics for `n ≤ 0`, otherwise some value in `[0, n)` (`raw` is the library's choice) -/
def intn (n : Int) (raw : Nat) : Checked Int :=
  if n ≤ 0 then .panic "invalid argument to Intn" else .ok ((raw : Int) % n)

/-- `calcIndex(indexStr, segment, length, iter)`: `none` = an error return. `nextV` is what `iter.Next(segment)` hands out
(a counter: never negative), `randRaw` what the generator behind `iter.Rand` draws. Statement by statement as in
lib/mp/map.go (tied by `Bridge.C19.calcIndex_eq`). -/
def calcIndex (k : IndexKind) (length : Int) (nextV : Nat) (randRaw : Nat) : Checked (Option Int) :=
  match k with
  | .bad => .ok none                                       -- "index should be integer or one of [next, rand, last]"
  | _ =>
    if length ≤ 0 then .ok none                            -- "cant take element … of empty …"
    else match k with
      | .num i =>
        if 0 ≤ i ∧ i < length then .ok (some i)
        else (goRem i length).bind fun r => .ok (some (if r < 0 then r + length else r))
      | .last => .ok (some (length - 1))
      | .rand => (intn length randRaw).bind fun r => .ok (some r)
      | .next =>
        if (nextV : Int) ≥ length then (goRem nextV length).bind fun r => .ok (some r) else .ok (some nextV)
      | .bad => .ok none

/-- the same function with the emptiness guard in the numeric branch only (in front of the modulo it seems to be there
for): the keyword indexes are computed on an empty slice -/
def calcIndexGuardNumericOnly (k : IndexKind) (length : Int) (nextV : Nat) (randRaw : Nat) : Checked (Option Int) :=
  match k with
  | .bad => .ok none
  | .num i =>
    if 0 ≤ i ∧ i < length then .ok (some i)
    else if length ≤ 0 then .ok none
    else (goRem i length).bind fun r => .ok (some (if r < 0 then r + length else r))
  | .last => .ok (some (length - 1))
  | .rand => (intn length randRaw).bind fun r => .ok (some r)
  | .next =>
    if (nextV : Int) ≥ length then (goRem nextV length).bind fun r => .ok (some r) else .ok (some nextV)

/-- Go `v[index]` on a slice -/
def goIndex (xs : List Val) (i : Int) : Checked Val :=
  if 0 ≤ i ∧ i < (xs.length : Int) then .ok (xs.getD i.toNat .null) else .panic "index out of range"

/-- `extractFromSlice(curValue, indexStr, …)` with an index function: `none` = error ("invalid type of value", or the
error of `calcIndex`) -/
def extractFromSliceWith (idxf : IndexKind → Int → Nat → Nat → Checked (Option Int))
    (v : Val) (k : IndexKind) (nextV randRaw : Nat) : Checked (Option Val) :=
  match v with
  | .list true xs =>
    (idxf k xs.length nextV randRaw).bind fun
      | none => .ok none
      | some i => (goIndex xs i).bind fun e => .ok (some e)
  | _ => .ok none

def extractFromSlice := extractFromSliceWith calcIndex

/-! ## `GetMapValue` -/

/-- one dot-separated segment of a path: `name` or `name[index]` -/
structure Seg where
  name : String
  index : Option IndexKind := none
  deriving Repr, Inhabited

/-- what the shared iterator hands out to the index computations of ONE path, by position of the segment -/
structure Iter where
  next : Nat → Nat := fun _ => 0
  rand : Nat → Nat := fun _ => 0
  deriving Inhabited

/-- `GetMapValue(current, path, iter)` for a non-nil `current`: `none` = error (segment not found, not the last
segment, extraction error). `d` is the position of the first segment of `segs` in the path. -/
def getMapValueWith (idxf : IndexKind → Int → Nat → Nat → Checked (Option Int)) (it : Iter) :
    Nat → Fields → List Seg → Checked (Option Val)
  | _, cur, [] => .ok (some (.obj cur))
  | d, cur, s :: rest =>
    match lookupField cur s.name with
    | none => .ok none                                       -- ErrSegmentNotFound
    | some pv =>
      let elem : Checked (Option Val) := match s.index with
        | none => .ok (some pv)
        | some k => extractFromSliceWith idxf pv k (it.next d) (it.rand d)
      match elem with
      | .panic w => .panic w
      | .ok none => .ok none
      | .ok (some (.obj fs)) => getMapValueWith idxf it (d + 1) fs rest
      | .ok (some v) => if rest.isEmpty then .ok (some v) else .ok none   -- "not last segment"

def getMapValue (it : Iter) (vars : Fields) (segs : List Seg) : Checked (Option Val) :=
  getMapValueWith calcIndex it 0 vars segs

/-! ## template functions called by a preprocessor -/

/-- `strconv.ParseInt(s, 10, 64)`: an optional sign, decimal digits, within int64 -/
def parseInt64 (s : String) : Option Int :=
  let cs := s.toList
  let (neg, ds) := match cs with
    | '-' :: r => (true, r)
    | '+' :: r => (false, r)
    | r => (false, r)
  if ds.isEmpty || !ds.all Char.isDigit then none
  else
    let n : Nat := ds.foldl (fun acc c => acc * 10 + (c.toNat - '0'.toNat)) 0
    let v : Int := if neg then -(n : Int) else n
    if -9223372036854775808 ≤ v ∧ v ≤ 9223372036854775807 then some v else none

/-- `numbers.ParseInt(v)` -/
def valParseInt : Val → Option Int
  | .str s => parseInt64 s
  | .other _ asInt => asInt
  | _ => none

/-- the largest `n` for which `make([]rune, n)` does not panic with "makeslice: len out of range" on a 64-bit
platform (`maxAlloc / 4` = 2^46; far below that the allocation exhausts the memory of the machine) -/
def maxRuneSliceLen : Int := 70368744177664

/-- `make([]rune, n)` -/
def goMakeRunes (n : Int) : Checked Unit :=
  if n < 0 ∨ n > maxRuneSliceLen then .panic "makeslice: len out of range" else .ok ()

/-- `randString(cnt, letters)` of templater/func.go followed by `str.RandStringRunes`: `cap` is the bound on the
length (`none`: the code as found, without one). `true` = a string, `false` = an error return. -/
def randString (cap : Option Int) (cnt : Val) : Checked Bool :=
  match valParseInt cnt with
  | none => .ok false
  | some n0 =>
    let n := if n0 = 0 then 1 else n0
    if n < 0 then .ok false
    else if (match cap with | some c => decide (n > c) | none => false) then .ok false
    else (goMakeRunes n).bind fun _ => .ok true

/-- Go int64 arithmetic wraps -/
def wrap64 (x : Int) : Int := (x + 9223372036854775808).emod 18446744073709551616 - 9223372036854775808

/-- `rand.Int63n(n)`: panics for `n ≤ 0` -/
def int63n (n : Int) : Checked Unit := if n ≤ 0 then .panic "invalid argument to Int63n" else .ok ()

/-- `t - f` as `randInt(f, t)` of templater/func.go computes it (swap, the two special cases, int64 wrap-around) -/
def randIntDiff (f0 t0 : Int) : Int :=
  let f := if t0 < f0 then t0 else f0
  let t := if t0 < f0 then f0 else t0
  let t := if f = 0 ∧ t = 0 then 10 else t
  let t := if t = f then wrap64 (f + 10) else t
  wrap64 (t - f)

/-- `randInt(f, t)` of templater/func.go: "does not fit int64" when the difference is not positive, else
`rand.Int63n(t - f)` -/
def randIntRange (f0 t0 : Int) : Checked Bool :=
  if randIntDiff f0 t0 ≤ 0 then .ok false else (int63n (randIntDiff f0 t0)).bind fun _ => .ok true

inductive TplFn where
  | randInt | randString | uuid
  deriving Repr, DecidableEq, Inhabited

/-- `RandString(args...)` on resolved arguments -/
def callRandString (cap : Option Int) : List Val → Checked Bool
  | [] => randString cap (.other "0" (some 0))
  | [a] => randString cap a
  | [a, _] => randString cap a          -- the second argument is formatted to the alphabet: total
  | _ => .ok false

/-- `RandInt(args...)` on resolved arguments -/
def callRandInt : List Val → Checked Bool
  | [] => randIntRange 0 0
  | [a] => match valParseInt a with | none => .ok false | some f => randIntRange f 0
  | [a, b] =>
    match valParseInt a with
    | none => .ok false
    | some f => match valParseInt b with | none => .ok false | some t => randIntRange f t
  | _ => .ok false

/-- `RandInt(args...)` / `RandString(args...)` / `UUID(args...)` on resolved arguments -/
def callTplFn (cap : Option Int) : TplFn → List Val → Checked Bool
  | .uuid, _ => .ok true
  | .randString, args => callRandString cap args
  | .randInt, args => callRandInt args

/-- an argument of a template function: looked up as a path first; when that fails the text itself -/
structure TplArg where
  segs : List Seg
  text : String
  it : Iter := {}
  deriving Inhabited

/-- `ExecTemplateFuncWithVariables`: the first loop (an error of `GetMapValue` is ignored, a panic is not) -/
def resolveArgs (vars : Fields) : List TplArg → Checked (List Val)
  | [] => .ok []
  | a :: as =>
    match getMapValue a.it vars a.segs with
    | .panic w => .panic w
    | .ok r => (resolveArgs vars as).bind fun vs => .ok (r.getD (.str a.text) :: vs)

/-- one entry of a preprocessor's `mapping` -/
inductive PreMap where
  | path (segs : List Seg) (it : Iter)
  | call (fn : TplFn) (args : List TplArg)
  deriving Inhabited

/-- the value a mapping yields: `none` = error -/
def evalPreMap (cap : Option Int) (vars : Fields) : PreMap → Checked (Option Val)
  | .path segs it => getMapValue it vars segs
  | .call fn args =>
    (resolveArgs vars args).bind fun vs => (callTplFn cap fn vs).bind fun ok =>
      .ok (if ok then some (.str "<generated>") else none)

/-- `Preprocessor.Process(templateVars)` (http) / `PreparePreprocessor.Process` (grpc): the mappings in the order the
map iteration visits them; the first error ends it. Result: the preprocessor variables, `none` = error. -/
def preprocess (cap : Option Int) (vars : Fields) : List (String × PreMap) → Checked (Option Fields)
  | [] => .ok (some [])
  | (k, m) :: rest =>
    match evalPreMap cap vars m with
    | .panic w => .panic w
    | .ok none => .ok none
    | .ok (some v) => (preprocess cap vars rest).bind fun r => .ok (r.map fun fs => (k, v) :: fs)

/-- the bound `randString` puts on its length (templater/func.go `maxRandStringLength`, regenerated) -/
def maxRandStringLength : Int := 16777216

/-! ## a scenario shot whose steps read what earlier responses stored -/

/-- one step: its static configuration (`prepFails`: the templater or `http.NewRequest` fails), the preprocessor's
mappings, what the target does with its request, the facts of its connection, and what its postprocessors extract from
that response (stored as `request.<name>.postprocessor` when the step completes) — the last three chosen by the peer -/
structure VStep where
  cfg : StepCfg
  pre : List (String × PreMap) := []
  facts : H2Facts := {}
  reply : Reply
  post : Fields := []

/-- the template variables of a shot: `source` (variable sources: configuration) and `request` (grows step by step) -/
structure VarState where
  source : Fields := []
  request : Fields := []
  deriving Inhabited

def VarState.templateVars (s : VarState) : Fields := [("source", .obj s.source), ("request", .obj s.request)]

/-- the steps of `ScenarioGun.shoot` as the loop meets them: `requestVars[step.Name] = stepVars` (empty), then the
preprocessor (a panic: the shot panics before any sample of the step; an error: the step's error), then the exchange
(`stepOutcomeH2`); the variables of a completed step are visible to the following ones. Steps after a failed one are
never entered. -/
def scenarioStepsV (cap : Option Int) (h2 : Bool) : VarState → List VStep → List Step
  | _, [] => []
  | s, v :: rest =>
    let s1 : VarState := { s with request := (v.cfg.name, .obj []) :: s.request }
    match preprocess cap s1.templateVars v.pre with
    | .panic _ => [{ name := v.cfg.name, outcome := .received 0 .panic }]
    | .ok none => [{ name := v.cfg.name, outcome := .prepErr }]
    | .ok (some pv) =>
      let o := stepOutcomeH2 h2 v.facts v.cfg v.reply
      let s2 : VarState :=
        { s with request := (v.cfg.name, .obj [("preprocessor", .obj pv), ("postprocessor", .obj v.post)]) :: s.request }
      { name := v.cfg.name, outcome := o } ::
        (match o with
         | .received _ .ok => scenarioStepsV cap h2 s2 rest
         | _ => [])

/-- one shot of the http/scenario (`h2 = false`) or http2/scenario gun over steps with variables -/
def shootScenarioV (cap : Option Int) (h2 : Bool) (scn : String) (s0 : VarState) (steps : List VStep) : ShotResult :=
  shootScenario scn (scenarioStepsV cap h2 s0 steps)

/-- the same steps with the variable mechanism resolved into the static `prepFails` of `Model.C19.StepCfg`: a step
whose preprocessor returns an error is a step that fails before anything is sent -/
def resolveV (cap : Option Int) (h2 : Bool) : VarState → List VStep → List (StepCfg × H2Facts × Reply)
  | _, [] => []
  | s, v :: rest =>
    let s1 : VarState := { s with request := (v.cfg.name, .obj []) :: s.request }
    match preprocess cap s1.templateVars v.pre with
    | .ok (some pv) =>
      let s2 : VarState :=
        { s with request := (v.cfg.name, .obj [("preprocessor", .obj pv), ("postprocessor", .obj v.post)]) :: s.request }
      (v.cfg, v.facts, v.reply) :: resolveV cap h2 s2 rest
    | _ => ({ v.cfg with prepFails := true }, v.facts, v.reply) :: rest.map fun u => (u.cfg, u.facts, u.reply)

/-- no preprocessor of the entered steps panics -/
def preprocessorsOk (cap : Option Int) (h2 : Bool) : VarState → List VStep → Bool
  | _, [] => true
  | s, v :: rest =>
    let s1 : VarState := { s with request := (v.cfg.name, .obj []) :: s.request }
    match preprocess cap s1.templateVars v.pre with
    | .panic _ => false
    | .ok none => true
    | .ok (some pv) =>
      let s2 : VarState :=
        { s with request := (v.cfg.name, .obj [("preprocessor", .obj pv), ("postprocessor", .obj v.post)]) :: s.request }
      match stepOutcomeH2 h2 v.facts v.cfg v.reply with
      | .received _ .ok => preprocessorsOk cap h2 s2 rest
      | _ => true

/-! ## the gRPC scenario gun: `PreparePreprocessor`s read the earlier response MESSAGES -/

/-- one call of a gRPC scenario: its configuration, the mappings of its "prepare" preprocessors (in order), what the
target answers, and the response message as JSON (`request.<name>.postprocessor`: stored only when the call returned a
message; its content — repeated fields of any length, strings — is chosen by the peer) -/
structure VCall where
  name : String
  cfg : GrpcCallCfg
  pre : List (String × PreMap) := []
  reply : GrpcReply
  post : Option Fields := none

/-- what a call that was made stores under `request.<name>` -/
def callEntry (pv : Fields) (post : Option Fields) : Fields :=
  ("preprocessor", .obj pv) :: (match post with | some f => [("postprocessor", .obj f)] | none => [])

/-- `scenario.Gun.shoot` over calls with variables: the preprocessors run first (a panic: the deferred `Report` still
fires, with code 0, and the shot panics; an error: the call fails before it is made); a call that was made stores its
response message for the following calls -/
def shootGrpcScenarioV (cap : Option Int) (scn : String) : VarState → List VCall → ShotResult
  | _, [] => { reports := [] }
  | s, v :: rest =>
    let s1 : VarState := { s with request := (v.name, .obj []) :: s.request }
    match preprocess cap s1.templateVars v.pre with
    | .panic _ => { reports := [{ tags := stepTag scn v.cfg.tag, id := 0, proto := 0, net := 0 }], panicked := true }
    | .ok none => { reports := [{ tags := stepTag scn v.cfg.tag, id := 0, proto := 0, net := 0 }], panicked := false }
    | .ok (some pv) =>
      let s2 : VarState := { s with request := (v.name, .obj (callEntry pv v.post)) :: s.request }
      match stepGrpc scn { tag := v.cfg.tag, outcome := grpcStepOutcome v.cfg v.reply } with
      | (rs, true, _) => let r := shootGrpcScenarioV cap scn s2 rest; { r with reports := rs ++ r.reports }
      | (rs, false, p) => { reports := rs, panicked := p }

/-- the same calls with the variable mechanism resolved into the static `GrpcCallKind.prepFails` -/
def resolveGrpcV (cap : Option Int) : VarState → List VCall → List (GrpcCallCfg × GrpcReply)
  | _, [] => []
  | s, v :: rest =>
    let s1 : VarState := { s with request := (v.name, .obj []) :: s.request }
    match preprocess cap s1.templateVars v.pre with
    | .ok (some pv) =>
      let s2 : VarState := { s with request := (v.name, .obj (callEntry pv v.post)) :: s.request }
      (v.cfg, v.reply) :: resolveGrpcV cap s2 rest
    | _ => ({ v.cfg with kind := .prepFails }, v.reply) :: rest.map fun u => (u.cfg, u.reply)

end Pandora.Model.C19
