/-
C11 — the instance-facing side of the http provider as a model of header-map OBJECTS (core Lean only).

`(*Provider).Acquire` runs in the goroutine of the instance that asks. It receives a decoded ammo from the provider
goroutine, builds a request from it (`BuildRequest` → `util.EnrichRequestWithHeaders`: the request gets a header map,
the entries of the decoded header are entered into it, `Host` goes to `req.Host` instead) and lets the provider's
middlewares update the request (`header/date`: `req.Header.Add(name, now)`). A preloading provider — and one that reads
an http/json file that is one JSON array — delivers the SAME decoded ammo again on every pass, to whichever instance
asks. What matters for isolation is therefore which map OBJECT the middlewares write to.

The heap, as far as header maps go, is a list of maps (object id = position). `Build.fresh` is the code as it is: the
request's map is a new object. `Build.alias` is the fast path of a seeded change: a request without headers of its own
takes the decoded header map itself when that has entries and no `Host`.
-/
namespace Pandora.Model.C11

/-- a header map: keys with their values -/
abbrev Hdr := List (String × List String)

/-- `http.Header.Add`: append a value to the values of the key -/
def hdrAdd : Hdr → String → String → Hdr
  | [], k, v => [(k, [v])]
  | (k', vs) :: r, k, v => if k' == k then (k', vs ++ [v]) :: r else (k', vs) :: hdrAdd r k v

/-- the map objects of a pool: object id = position -/
abbrev Store := List Hdr

/-- apply `f` to object `i` -/
def updAt (st : Store) (i : Nat) (f : Hdr → Hdr) : Store :=
  match st, i with
  | [], _ => []
  | h :: r, 0 => f h :: r
  | h :: r, i + 1 => h :: updAt r i f

inductive Build where
  /-- the request's header map is a new object (the code as it is) -/
  | fresh
  /-- the decoded ammo's map is taken as it is when it has entries and no `Host` (seeded change) -/
  | alias
  deriving DecidableEq, Repr

/-- the entries `EnrichRequestWithHeaders` enters into the request's map (`Host` goes to `req.Host`) -/
def copyHdr (h : Hdr) : Hdr := h.filter (·.1 != "Host")

def aliasCond (h : Hdr) : Bool := !h.isEmpty && !h.any (·.1 == "Host")

/-- `BuildRequest` for the decoded ammo whose header is object `src`: the store afterwards and the id of the request's
header map -/
def build (b : Build) (st : Store) (src : Nat) : Store × Nat :=
  let h := st.getD src []
  match b with
  | .fresh => (st ++ [copyHdr h], st.length)
  | .alias => if aliasCond h then (st, src) else (st ++ [copyHdr h], st.length)

/-- the middlewares of the provider, each one `req.Header.Add(key, value)` -/
def applyMws (h : Hdr) (mws : List (String × String)) : Hdr := mws.foldl (fun h kv => hdrAdd h kv.1 kv.2) h

/-- `Provider.Acquire` for a decoded ammo -/
def acquire (b : Build) (mws : List (String × String)) (st : Store) (src : Nat) : Store × Nat :=
  let r := build b st src
  (updAt r.1 r.2 (fun h => applyMws h mws), r.2)

/-- a pool at work: the decoded ammo delivered one after the other (`srcs`: their header objects, in order of
delivery — any pass structure, any instance asking); the store afterwards and the header object of every delivered
request -/
def acquires (b : Build) (mws : List (String × String)) : Store → List Nat → Store × List Nat
  | st, [] => (st, [])
  | st, s :: rest =>
    let r := acquire b mws st s
    let r2 := acquires b mws r.1 rest
    (r2.1, r.2 :: r2.2)

/-- what a request built from header `h` carries when it is the only one ever built -/
def delivered (mws : List (String × String)) (h : Hdr) : Hdr := applyMws (copyHdr h) mws

/-- the reading of the regenerated reference flows (`Gen.Locks.ammoFlows`): a row of kind `map` is a map of the caller
stored where it outlives the call -/
def buildOfFlows (flows : List (String × String × String × String × String)) : Build :=
  if flows.any (fun r => r.2.1 == "map") then .alias else .fresh

end Pandora.Model.C11
