/-
C15 — `NextIterator.Next` as CODE: a small instruction set for the statements the function is made of, and an
interleaving semantics of any number of threads executing such code on one shared iterator (core Lean, executable).

`lib/mp/iterator.go`:

    func (n *NextIterator) Next(segment string) int {
        n.mx.Lock()                          -- lock
        defer n.mx.Unlock()                  -- (an `unlock` before every return)
        a, ok := n.gs[segment]               -- mapGet          … `pre` ends here
        if !ok {
            n.gs[segment] = &atomic.Uint64{} -- putFresh
            return 0                         -- unlock, ret0    … `miss`
        }
        add := a.Add(1)                      -- add 1
        return int(add)                      -- unlock, retAdd  … `hit`
    }

`gen/area_c15scen.go` re-extracts this instruction list from the current source (`Gen.C15Scen.nextCode`); the bridge
lemma `Bridge.C15Scen.nextCode_eq` states that it is `nextCode` below, the program the round-robin theorems are
proved for.  The semantics is not specific to that program: a `Next` whose lookup and insert are two critical
sections, or one without the mutex, runs in the same system and exhibits its duplicates (see the examples in
`Props/C15.lean`).

Granularity: every instruction is one atomic step; a thread whose next instruction is `lock` while the mutex is
taken does not move. The map holds POINTERS to counter objects (`gs : key ↦ object id`, `heap : object id ↦ value`), as
in Go: replacing the map entry does not redirect a pointer another thread already holds.
`lin` is the linearisation log: a value is recorded when it is DECIDED (insert of a fresh counter / atomic add), `got`
when it is returned to the caller.
-/
import Pandora.Model.C15

-- the translator opens `Pandora.Go` in every regenerated file
namespace Pandora.Go
def c15Anchor : Unit := ()
end Pandora.Go

namespace Pandora.Model.C15

inductive NOp where
  | lock                 -- `n.mx.Lock()`
  | unlock               -- `n.mx.Unlock()` (also: the deferred one, placed before the return it precedes)
  | mapGet               -- `a, ok := n.gs[segment]`
  | putFresh             -- `n.gs[segment] = &atomic.Uint64{}`
  | add (n : Nat)        -- `add := a.Add(n)`
  | ret0                 -- `return 0`
  | retAdd               -- `return int(add)`
deriving Repr, DecidableEq

/-- `Next` split at its one branch: `pre` (up to and including the map lookup), the `!ok` branch, the rest -/
structure NextCode where
  pre : List NOp
  miss : List NOp
  hit : List NOp
deriving Repr, DecidableEq

/-- `NextIterator.Next` of lib/mp/iterator.go -/
def nextCode : NextCode :=
  { pre := [.lock, .mapGet], miss := [.putFresh, .unlock, .ret0], hit := [.add 1, .unlock, .retAdd] }

/-- one activation of `Next` -/
structure LFrame where
  key : CKey
  ops : List NOp             -- instructions still to execute
  ptr : Option Nat := none   -- `a` (object id) after the lookup
  addv : Nat := 0            -- `add`
deriving Repr, DecidableEq

/-- `n.gs[segment] = p` (Go map assignment: replaces an existing entry) -/
def gsPut (gs : List (CKey × Nat)) (key : CKey) (p : Nat) : List (CKey × Nat) :=
  match gs with
  | [] => [(key, p)]
  | (k, q) :: rest => if k = key then (key, p) :: rest else (k, q) :: gsPut rest key p

structure LSys where
  holder : Option Nat                 -- the mutex
  gs : List (CKey × Nat)              -- the map: segment ↦ counter object
  heap : Nat → Nat                    -- counter objects
  next : Nat                          -- next fresh object id
  pcs : Nat → Option LFrame           -- `none`: the thread is outside `Next`
  got : Nat → List Nat                -- values returned to each thread so far
  lin : List (CKey × Nat × Nat)       -- (counter, thread, value) in the order the values were decided
  fault : Bool                        -- Unlock of an unlocked mutex / `Add` through a nil pointer happened

def LSys.init : LSys :=
  { holder := none, gs := [], heap := fun _ => 0, next := 0, pcs := fun _ => none, got := fun _ => [], lin := [],
    fault := false }

/-- one small step of thread `t` -/
def LSys.step (code : NextCode) (prog : NProg) (s : LSys) (t : Nat) : LSys :=
  match s.pcs t with
  | none =>
    match prog t (s.got t) with
    | some key => { s with pcs := upd s.pcs t (some { key, ops := code.pre }) }   -- the call begins
    | none => s
  | some f =>
    match f.ops with
    | [] => { s with pcs := upd s.pcs t none }
    | .lock :: r =>
      match s.holder with
      | none => { s with holder := some t, pcs := upd s.pcs t (some { f with ops := r }) }
      | some _ => s                                                                -- blocked in `Lock()`
    | .unlock :: r =>
      match s.holder with
      | none => { s with fault := true, pcs := upd s.pcs t (some { f with ops := r }) }
      | some _ => { s with holder := none, pcs := upd s.pcs t (some { f with ops := r }) }
    | .mapGet :: r =>       -- the rest of `pre`, then the branch `if !ok`
      let p := gsRead s.gs f.key
      { s with pcs := upd s.pcs t (some { f with ptr := p, ops := r ++ if p.isSome then code.hit else code.miss }) }
    | .putFresh :: r =>
      { s with gs := gsPut s.gs f.key s.next, heap := upd s.heap s.next 0, next := s.next + 1,
               lin := s.lin ++ [(f.key, t, 0)], pcs := upd s.pcs t (some { f with ops := r }) }
    | .add n :: r =>
      match f.ptr with
      | none => { s with fault := true, pcs := upd s.pcs t (some { f with ops := r }) }
      | some p =>
        let v := s.heap p + n
        { s with heap := upd s.heap p v, lin := s.lin ++ [(f.key, t, v)],
                 pcs := upd s.pcs t (some { f with ops := r, addv := v }) }
    | .ret0 :: _ => { s with got := upd s.got t (s.got t ++ [0]), pcs := upd s.pcs t none }
    | .retAdd :: _ => { s with got := upd s.got t (s.got t ++ [f.addv]), pcs := upd s.pcs t none }

def LSys.run (code : NextCode) (prog : NProg) (s : LSys) (sched : List Nat) : LSys :=
  sched.foldl (LSys.step code prog) s

/-- values decided for one counter, in order -/
def LSys.vals (s : LSys) (key : CKey) : List Nat := logVals s.lin key
/-- values decided for one thread, in order -/
def LSys.valsOf (s : LSys) (t : Nat) : List Nat := logValsOf s.lin t

/-- the value a thread has been given but has not yet returned to its caller -/
def LSys.pend (s : LSys) (t : Nat) : List Nat :=
  match s.pcs t with
  | some f =>
    if f.ops = [.unlock, .ret0] ∨ f.ops = [.ret0] then [0]
    else if f.ops = [.unlock, .retAdd] ∨ f.ops = [.retAdd] then [f.addv]
    else []
  | none => []

/-- a fair schedule for `n` threads: `rounds` times thread 0, 1, …, n-1 (enough rounds let every call finish) -/
def fairSched (n rounds : Nat) : List Nat := (List.range rounds).flatMap fun _ => List.range n

end Pandora.Model.C15
