/-
C13 — models of the size-prefixed ammo framings (uripost, raw), of the uri format and of the
`[key: value]` header line decoder, as checked (`Res`) functions.

`fixed = false` is the code of the tree as found (components/providers/http/decoders/{uripost,raw}.go:
`make([]byte, size)` straight from the announced size); `fixed = true` is the code of /repo now
(`readSized`, commit 8bca4e3: negative ⇒ error, otherwise read at most what is there).
The theorems in Props/C13.lean are about `fixed = true`; the defect of `fixed = false` is refuted there.

The last line of a file may lack its `\n`: both size-prefixed decoders decode it (`ReadString` returns it together
with io.EOF: uripost since commit df9a0d4, raw since dbbf16d; before that the raw decoder dropped it: `rawStepDrop`,
where `Run.rest` keeps what was dropped).

`url.Parse` is a library: it is a parameter `urlOk` of the model (all theorems hold for every oracle).
One pass over the file (`passes = 1`): the end of data is `End.ok`.
-/
import Pandora.Model.C13Base

namespace Pandora.Model.C13

/-! ### `util.DecodeHeader` (components/providers/http/util/request.go) -/

/-- `[key: value]` -/
def decodeHeader (h : Bytes) : Res (Bytes × Bytes) :=
  if h.length < 3 then .err "hdr"
  else match indexC h 0 with
    | .ok first =>
      if first != 91 then .err "hdr"
      else match indexC h ((h.length : Int) - 1) with
        | .ok last =>
          if last != 93 then .err "hdr"
          else match sliceC h 1 ((h.length : Int) - 1) with
            | .ok inner =>
              match cut inner 58 with
              | none => .err "hdr"
              | some (k, v) =>
                let k := trimSpace k
                if k.isEmpty then .err "emptykey" else .ok (k, trimSpace v)
            | .err c => .err c
            | .panic w => .panic w
            | .fatal w => .fatal w
        | .err c => .err c
        | .panic w => .panic w
        | .fatal w => .fatal w
    | .err c => .err c
    | .panic w => .panic w
    | .fatal w => .fatal w

/-! ### entries and runs -/

structure Entry where
  tag : Bytes
  uri : Bytes
  body : Bytes
  deriving Repr, DecidableEq

inductive End where
  | ok
  | err (cls : String)
  | panic
  | fatal
  | fuel          -- the termination measure was exhausted (proved impossible)
  deriving Repr, DecidableEq

/-- what a provider run over one file does: the entries it delivers, how it ends, and the bytes it never consumed
(non-empty only for an unterminated last line) -/
structure Run where
  entries : List Entry
  end_ : End
  rest : Bytes
  deriving Repr, DecidableEq

def Run.cons (e : Entry) (r : Run) : Run := { r with entries := e :: r.entries }
/-- the same run with `es` delivered first -/
def Run.prepend (es : List Entry) (r : Run) : Run := { r with entries := es ++ r.entries }

inductive Step where
  | eof
  | skip (rest : Bytes)
  | entry (e : Entry) (rest : Bytes)
  | fail (e : End)
  deriving Repr, DecidableEq

def endOfRes {α} : Res α → End
  | .ok _ => .ok
  | .err c => .err c
  | .panic _ => .panic
  | .fatal _ => .fatal

/-- `reader.ReadString('\n')` as the raw decoder used it before dbbf16d: the line (without its terminator) and what follows;
`none` = io.EOF (data returned together with EOF - an unterminated last line - is dropped) -/
def readLine (s : Bytes) : Option (Bytes × Bytes) := cut s 10

/-- `reader.ReadString('\n')` as `uripostDecoder.readBlock` and `rawDecoder.Scan` use it: an unterminated last line is a line
(`err == io.EOF && len(data) > 0` is not the end); `none` = io.EOF with no data -/
def readLineU (s : Bytes) : Option (Bytes × Bytes) :=
  match cut s 10 with
  | some p => some p
  | none => if s.isEmpty then none else some (s, [])

/-- reading `size` announced bytes from `rest`.
old code: `buff := make([]byte, size); io.ReadFull(reader, buff)`; repaired: `readSized`. -/
def readBody (fixed : Bool) (size : Int) (rest : Bytes) : Res (Bytes × Bytes) :=
  if fixed then
    if size < 0 then .err "size"
    else if size > rest.length then .err "trunc"
    else .ok (rest.take size.toNat, rest.drop size.toNat)
  else match makeC size with
    | .ok () =>
      if size > rest.length then .err "trunc"
      else .ok (rest.take size.toNat, rest.drop size.toNat)
    | .err c => .err c
    | .panic w => .panic w
    | .fatal w => .fatal w

/-! ### uripost -/

/-- `uripost.DecodeURI`: `bodySize uri [tag]` -/
def decodeURI (data : Bytes) : Res (Int × Bytes × Bytes) :=
  let parts := split data 32
  if parts.length < 2 then .err "fmt"
  else match indexC parts 0 with
    | .ok p0 =>
      match atoi p0 with
      | none => .err "size"
      | some n =>
        match indexC parts 1 with
        | .ok uri => .ok (n, uri, if parts.length > 2 then joinWith 32 (parts.drop 2) else [])
        | .err c => .err c
        | .panic w => .panic w
        | .fatal w => .fatal w
    | .err c => .err c
    | .panic w => .panic w
    | .fatal w => .fatal w

def headerClass {α} (r : Res α) : End :=
  match r with
  | .err _ => .err "hdr"
  | r => endOfRes r

/-- what `readBlock` does with one line and the bytes following it -/
def uripostLine (fixed : Bool) (urlOk : Bytes → Bool) (line rest : Bytes) : Step :=
  let data := trimSpace line
  if data.isEmpty then .skip rest
  else match indexC data 0 with
    | .ok 91 =>
      match decodeHeader data with
      | .ok _ => .skip rest
      | r => .fail (headerClass r)
    | .ok _ =>
      match decodeURI data with
      | .ok (size, uri, tag) =>
        if !urlOk uri then .fail (.err "other")
        else match readBody fixed size rest with
          | .ok (body, rest') => .entry ⟨tag, uri, body⟩ rest'
          | r => .fail (endOfRes r)
      | r => .fail (endOfRes r)
    | r => .fail (endOfRes r)

/-- one `readBlock` call of the uripost decoder -/
def uripostStep (fixed : Bool) (urlOk : Bytes → Bool) (s : Bytes) : Step :=
  match readLineU s with
  | none => .eof
  | some (line, rest) => uripostLine fixed urlOk line rest

def runSteps (step : Bytes → Step) : Nat → Bytes → Run
  | 0, s => ⟨[], .fuel, s⟩
  | fuel + 1, s =>
    match step s with
    | .eof => ⟨[], .ok, s⟩
    | .skip rest => runSteps step fuel rest
    | .entry e rest => (runSteps step fuel rest).cons e
    | .fail e => ⟨[], e, s⟩

/-- the whole uripost file, one pass; the measure is the number of unread bytes -/
def uripostRun (fixed : Bool) (urlOk : Bytes → Bool) (s : Bytes) : Run :=
  runSteps (uripostStep fixed urlOk) (s.length + 1) s

/-! ### raw -/

/-- `raw.DecodeHeader`: `size [tag]` -/
def decodeRawHeader (data : Bytes) : Res (Int × Bytes) :=
  let (sizeStr, tag) := match cut data 32 with
    | some (a, b) => (a, b)
    | none => (data, [])
  match atoi sizeStr with
  | none => .err "size"
  | some n => .ok (n, tag)

/-- what `rawDecoder.Scan` does with one line and the bytes following it -/
def rawLine (fixed : Bool) (line rest : Bytes) : Step :=
  let data := trimSpace line
  if data.isEmpty then .skip rest
  else match decodeRawHeader data with
    | .ok (size, tag) =>
      if size = 0 then .entry ⟨[], [], []⟩ rest       -- `a.Setup(nil, "", …)`: the tag of an empty request is dropped
      else match readBody fixed size rest with
        | .ok (body, rest') => .entry ⟨tag, [], body⟩ rest'
        | r => .fail (endOfRes r)
    | r => .fail (endOfRes r)

/-- one iteration of `rawDecoder.Scan` (since dbbf16d: `err == io.EOF && len(data) == 0` is the end of the file, a last
line without newline is a line; which of the two the source has is regenerated: `Gen.C13Src.rawLastLine`) -/
def rawStep (fixed : Bool) (s : Bytes) : Step :=
  match readLineU s with
  | none => .eof
  | some (line, rest) => rawLine fixed line rest

def rawRun (fixed : Bool) (s : Bytes) : Run :=
  runSteps (rawStep fixed) (s.length + 1) s

/-- the raw decoder before dbbf16d: a last line without newline is dropped with everything it announces -/
def rawStepDrop (fixed : Bool) (s : Bytes) : Step :=
  match readLine s with
  | none => .eof
  | some (line, rest) => rawLine fixed line rest

def rawRunDrop (fixed : Bool) (s : Bytes) : Run :=
  runSteps (rawStepDrop fixed) (s.length + 1) s

/-! ### uri (line oriented, `bufio.Scanner`) -/

inductive LineRes where
  | skip
  | entry (e : Entry)
  | fail (e : End)
  deriving Repr, DecidableEq

/-- `uriDecoder.readLine` -/
def uriLine (urlOk : Bytes → Bool) (line : Bytes) : LineRes :=
  let data := trimSpace line
  if data.isEmpty then .skip
  else match indexC data 0 with
    | .ok 91 =>
      match decodeHeader data with
      | .ok _ => .skip
      | r => .fail (headerClass r)
    | .ok _ =>
      let (rawURL, tag) := match cut data 32 with
        | some (a, b) => (a, b)
        | none => (data, [])
      if !urlOk rawURL then .fail (.err "other") else .entry ⟨tag, rawURL, []⟩
    | r => .fail (endOfRes r)

def uriLines (urlOk : Bytes → Bool) : List Bytes → Run
  | [] => ⟨[], .ok, []⟩
  | l :: rest =>
    match uriLine urlOk l with
    | .skip => uriLines urlOk rest
    | .entry e => (uriLines urlOk rest).cons e
    | .fail e => ⟨[], e, []⟩

def uriRun (urlOk : Bytes → Bool) (s : Bytes) : Run := uriLines urlOk (split s 10)

/-! ### grpc/json (components/providers/grpc/grpcjson/provider.go): `bufio.Scanner` lines, each handed to jsoniter

jsoniter is a library: `json l = some tag` when it decodes the line (all theorems hold for every oracle).
One pass (`passes = 1`), no limit, no chosen cases. -/

/-- `bufio.MaxScanTokenSize`: a line that does not fit the scanner's buffer ends the run with `ErrTooLong` -/
def maxToken : Nat := 65536

/-- `dropCR` of `bufio.ScanLines` -/
def dropCR (l : Bytes) : Bytes := if l.getLast? = some 13 then l.dropLast else l

/-- the tokens of `bufio.ScanLines` before `dropCR`: no token for the empty remainder after the last `\n` -/
def rawLines (s : Bytes) : List Bytes :=
  let ls := split s 10
  if ls.getLast? = some [] then ls.dropLast else ls

inductive GEntry where
  | valid (tag : Bytes)
  | invalid            -- `a.Invalidate()`: delivered, skipped by the gun
  deriving Repr, DecidableEq

structure GRun where
  entries : List GEntry
  end_ : End
  deriving Repr, DecidableEq

def GRun.cons (e : GEntry) (r : GRun) : GRun := { r with entries := e :: r.entries }
def GRun.prepend (es : List GEntry) (r : GRun) : GRun := { r with entries := es ++ r.entries }

/-- the scan loop of `Provider.start`; `coe` = `continue_on_error` -/
def grpcLines (coe : Bool) (json : Bytes → Option Bytes) : List Bytes → GRun
  | [] => ⟨[], .ok⟩
  | l :: rest =>
    if l.length ≥ maxToken then ⟨[], .err "toolong"⟩
    else match json (dropCR l) with
      | some tag => (grpcLines coe json rest).cons (.valid tag)
      | none => if coe then (grpcLines coe json rest).cons .invalid else ⟨[], .err "other"⟩

def grpcRun (coe : Bool) (json : Bytes → Option Bytes) (s : Bytes) : GRun := grpcLines coe json (rawLines s)

/-- what `Provider.start` does when a pass over the file is over (`passNum` passes done, `ammoNum` entries delivered
so far): stop, or seek to the start and scan again. `fixed = false`: the tree as found, without the
`ammoNum == 0` test (commit 92ad194). -/
inductive PassEnd where
  | stop (e : End)
  | again
  deriving Repr, DecidableEq

def grpcPassEnd (fixed : Bool) (limit passes passNum ammoNum : Nat) (scanErr : Bool) : PassEnd :=
  if scanErr then .stop (.err "toolong")
  else if limit ≠ 0 ∧ ammoNum ≥ limit then .stop .ok
  else if passes ≠ 0 ∧ passNum ≥ passes then .stop .ok
  else if fixed ∧ ammoNum = 0 then .stop (.err "noammo")
  else .again

end Pandora.Model.C13
