/-
C06 (iv') — `startInstances` (core/engine/engine.go): how many instance goroutines were started, and what it
tells the await loop.

    ok := waiter.Wait(startCtx);            if !ok { err = startCtx.Err(); return }
    firstInstance, err := newInstance(…);   if err != nil { return }
    started++
    go func() { runRes <- instanceRunResult{0, firstInstance.Run(runCtx)} }()
    for ; waiter.Wait(startCtx); started++ {
        go func() { runRes <- instanceRunResult{id, runNewInstance(runCtx, …)} }()
    }
    err = startCtx.Err(); return

Every `go` statement starts a goroutine that sends exactly ONE result on `runRes` (whether the instance ran, or —
`runNewInstance` — could not even be built). `started` is what `awaitRun` stores as `startedInstances` and
compares with the number of results it has received before it cancels the aggregator: the pool's model
(`Model.C06Pool`: `.launch` bumps `launched` and `running` together, `.awaitStart` sets
`startedInstances := launched`) is right only if `started` IS the number of `go` statements executed, on every
return path. The environment decides what `Wait` and `newInstance` return; an event that is not enabled leaves the
state unchanged.
-/
import Pandora.Model.C06Pool

namespace Pandora.Model.C06Start
open Pandora.Model.C06Pool (PSt PEv)

/-- the variant of the code: where `started` is bumped for the first instance -/
structure Cfg where
  /-- (the code: false) `started++` BEFORE the error check of `newInstance` -/
  countBeforeCheck : Bool := false

inductive PC
  | firstWait   -- before the first `waiter.Wait(startCtx)`
  | firstNew    -- before `newInstance`
  | firstGo     -- before the first `go`
  | loopWait    -- the loop condition
  | loopGo      -- the loop body's `go` (followed by the post statement `started++`)
  | returned
  deriving DecidableEq, Repr

inductive SEv
  | wait (ok : Bool)         -- `waiter.Wait(startCtx)` returns `ok` (false: the start context is done / no more tokens)
  | newInstance (ok : Bool)  -- `newInstance` for the first instance succeeds / fails (schedule, gun, Bind)
  | go                       -- the `go` statement the program counter is at
  deriving DecidableEq, Repr

structure St where
  pc : PC := .firstWait
  /-- the named result `started` -/
  started : Nat := 0
  /-- ghost: `go` statements executed = instance goroutines = results that will be sent on `runRes` -/
  launched : Nat := 0
  /-- the named result `err` is not nil -/
  err : Bool := false
  deriving Repr

def step (cfg : Cfg) (st : St) : SEv → St
  | .wait ok =>
    match st.pc with
    | .firstWait => if ok then { st with pc := .firstNew } else { st with pc := .returned, err := true }
    | .loopWait => if ok then { st with pc := .loopGo } else { st with pc := .returned }
    | _ => st
  | .newInstance ok =>
    match st.pc with
    | .firstNew =>
      if ok then { st with pc := .firstGo, started := st.started + 1 }
      else { st with pc := .returned, err := true, started := if cfg.countBeforeCheck then st.started + 1 else st.started }
    | _ => st
  | .go =>
    match st.pc with
    | .firstGo => { st with pc := .loopWait, launched := st.launched + 1 }
    | .loopGo => { st with pc := .loopWait, launched := st.launched + 1, started := st.started + 1 }
    | _ => st

def run (cfg : Cfg) (st : St) : List SEv → St
  | [] => st
  | e :: es => run cfg (step cfg st e) es

/-- what the pool's transition system sees of one step: a `go` is a `.launch`, the return is `.startDone` -/
def poolEvents (cfg : Cfg) (st : St) (e : SEv) : List PEv :=
  let st' := step cfg st e
  (if st'.launched = st.launched + 1 then [PEv.launch] else []) ++
  (if st.pc ≠ .returned ∧ st'.pc = .returned then [PEv.startDone] else [])

def poolTrace (cfg : Cfg) : St → List SEv → List PEv
  | _, [] => []
  | st, e :: es => poolEvents cfg st e ++ poolTrace cfg (step cfg st e) es

end Pandora.Model.C06Start
