/-
C11 — sharing model (core Lean only).

Objects (allocation units: a map, a slice's backing array, a struct behind a pointer, a package-level variable)
are classified

* `loc i`          reachable from instance `i` only (its gun, its cloned ammo header, its template variables …)
* `sharedRO`       reachable from several instances, never written after pool start (scenario definition: steps,
                   templates, metadata maps; decoded http ammo; method table; config)
* `sharedSync ℓ`   reachable from several instances, every access made while holding lock `ℓ`
                   (a mutex; for atomics, `sync.Map`, `sync.Pool` and channels the object's own internal lock)

A trace is a list of events of any number of threads in one global order (an interleaving). `WF` says the trace is
consistent with the classification and with lock semantics; `exec` produces exactly the traces of threads that run
arbitrary programs of accesses expanded according to the classification, under an arbitrary schedule.

Happens-before = program order ∪ (release of ℓ → later acquire of ℓ), transitively closed (the Go memory model's
guarantee for `sync.Mutex`, assumed).
-/
namespace Pandora.Model.C11

inductive Class where
  | loc (owner : Nat)
  | sharedRO
  | sharedSync (lock : Nat)
  deriving DecidableEq, Repr

inductive Ev where
  | acc (t : Nat) (obj : Nat) (write : Bool) (val : Nat)
  | acq (t : Nat) (l : Nat)
  | rel (t : Nat) (l : Nat)
  deriving DecidableEq, Repr

def Ev.thread : Ev → Nat
  | .acc t _ _ _ => t
  | .acq t _ => t
  | .rel t _ => t

/-- lock ↦ holder -/
abbrev Locks := Nat → Option Nat

def noLocks : Locks := fun _ => none

def Locks.set (h : Locks) (l : Nat) (v : Option Nat) : Locks := fun l' => if l' = l then v else h l'

/-- the event is allowed in lock state `h` under classification `cls` -/
def stepOk (cls : Nat → Class) (h : Locks) : Ev → Prop
  | .acc t o w _ =>
    match cls o with
    | .loc i => t = i
    | .sharedRO => w = false
    | .sharedSync l => h l = some t
  | .acq _ l => h l = none
  | .rel t l => h l = some t

def next (h : Locks) : Ev → Locks
  | .acc _ _ _ _ => h
  | .acq t l => h.set l (some t)
  | .rel _ l => h.set l none

/-- the trace is consistent with the classification and with mutual exclusion of locks -/
def WF (cls : Nat → Class) : Locks → List Ev → Prop
  | _, [] => True
  | h, e :: es => stepOk cls h e ∧ WF cls (next h e) es

def locksAfter (h : Locks) (tr : List Ev) : Locks := tr.foldl next h

/-- happens-before between positions of a trace -/
inductive HB (tr : List Ev) : Nat → Nat → Prop
  | po {i j : Nat} {a b : Ev} : i < j → tr[i]? = some a → tr[j]? = some b → a.thread = b.thread → HB tr i j
  | sw {i j t t' l : Nat} : i < j → tr[i]? = some (.rel t l) → tr[j]? = some (.acq t' l) → HB tr i j
  | trans {i k j : Nat} : HB tr i k → HB tr k j → HB tr i j

/-- two accesses conflict: same object, different threads, at least one writes -/
def Conflict (a b : Ev) : Prop :=
  match a, b with
  | .acc t1 o1 w1 _, .acc t2 o2 w2 _ => o1 = o2 ∧ t1 ≠ t2 ∧ (w1 = true ∨ w2 = true)
  | _, _ => False

/-- data-race freedom: conflicting accesses are ordered by happens-before -/
def DRF (tr : List Ev) : Prop :=
  ∀ i j a b, i < j → tr[i]? = some a → tr[j]? = some b → Conflict a b → HB tr i j

/-! ### programs: threads running arbitrary access sequences, expanded according to the classification -/

structure Op where
  obj : Nat
  write : Bool
  val : Nat
  deriving Repr, DecidableEq

/-- what the code of a method does for one access: take the object's lock around it iff the object is `sharedSync` -/
def expand (cls : Nat → Class) (t : Nat) (op : Op) : List Ev :=
  match cls op.obj with
  | .sharedSync l => [.acq t l, .acc t op.obj op.write op.val, .rel t l]
  | _ => [.acc t op.obj op.write op.val]

/-- the access respects the classification: local objects only by their owner, read-only objects never written -/
def opOk (cls : Nat → Class) (t : Nat) (op : Op) : Prop :=
  match cls op.obj with
  | .loc i => t = i
  | .sharedRO => op.write = false
  | .sharedSync _ => True

/-- scheduler state: lock holders and, per thread (list index), the events it still has to perform -/
structure Cfg where
  held : Locks
  todo : List (List Ev)

def enabled (h : Locks) : Ev → Bool
  | .acq _ l => (h l).isNone
  | _ => true

/-- let thread `t` perform its next event if it has one and is not blocked -/
def stepT (c : Cfg) (t : Nat) : Option (Ev × Cfg) :=
  match c.todo[t]? with
  | some (e :: rest) => if enabled c.held e then some (e, { held := next c.held e, todo := c.todo.set t rest }) else none
  | _ => none

/-- run a schedule (thread indices; a blocked or finished thread's turn is skipped); returns the trace -/
def exec (c : Cfg) : List Nat → List Ev
  | [] => []
  | t :: sched =>
    match stepT c t with
    | some (e, c') => e :: exec c' sched
    | none => exec c sched

def initCfg (cls : Nat → Class) (progs : List (List Op)) : Cfg :=
  { held := noLocks, todo := progs.zipIdx.map fun (ops, t) => ops.flatMap (expand cls t) }

/-! ### memory: what a thread reads -/

abbrev Mem := Nat → Nat

def Mem.write (m : Mem) (o v : Nat) : Mem := fun o' => if o' = o then v else m o'

def applyEv (m : Mem) : Ev → Mem
  | .acc _ o true v => m.write o v
  | _ => m

/-- object `o` is one of those instance `i` may rely on: its own or read-only shared -/
def stable (cls : Nat → Class) (i : Nat) (o : Nat) : Bool :=
  match cls o with
  | .loc j => j == i
  | .sharedRO => true
  | .sharedSync _ => false

/-- the values instance `i` reads from its own and from read-only shared objects, in order -/
def view (cls : Nat → Class) (i : Nat) (m : Mem) : List Ev → List (Nat × Nat)
  | [] => []
  | e :: es =>
    match e with
    | .acc t o false _ =>
      if t = i ∧ stable cls i o then (o, m o) :: view cls i (applyEv m e) es else view cls i (applyEv m e) es
    | _ => view cls i (applyEv m e) es

/-! ### engine: one gun per instance -/

structure Inst where
  gun : Nat
  shooting : Bool
  deriving Repr, DecidableEq

structure Eng where
  insts : List Inst
  /-- the gun factory allocates: the next gun object is a new one -/
  nextGun : Nat
  deriving Repr

inductive Act where
  /-- `startInstances`: `newInstance` calls the factory once and binds the result to the new instance -/
  | start
  /-- `Engine.Run` calls the factory once more for the warm-up gun, which is bound to no instance and never shoots -/
  | warmup
  /-- the goroutine of instance `i` moves: enters `gun.Shoot` if outside, returns from it if inside -/
  | move (i : Nat)
  deriving Repr

def toggle : Nat → List Inst → List Inst
  | _, [] => []
  | 0, x :: xs => { x with shooting := !x.shooting } :: xs
  | n + 1, x :: xs => x :: toggle n xs

def engStep (s : Eng) : Act → Eng
  | .start => { insts := s.insts ++ [{ gun := s.nextGun, shooting := false }], nextGun := s.nextGun + 1 }
  | .warmup => { s with nextGun := s.nextGun + 1 }
  | .move i => { s with insts := toggle i s.insts }

def engRun (s : Eng) (acts : List Act) : Eng := acts.foldl engStep s

def engInit : Eng := { insts := [], nextGun := 0 }

/-- number of `Shoot` calls in progress on gun object `g` -/
def active (g : Nat) (insts : List Inst) : Nat := (insts.filter fun x => x.gun == g && x.shooting).length

end Pandora.Model.C11
