/-
C06 (xi, round 6) — one pool fails while others are still shooting: who cancels the healthy pools?

`Engine.Run` returns at the first failed pool (core/engine/engine.go). The pools that did NOT fail are in the middle of
their run: their aggregators drain, flush and close only when their context is cancelled (or their schedule ends, which
may be hours away). Three places can cancel it (cli/cli.go, core/engine/engine.go):
* `engineCancels`    — `Engine.Run` runs the pools under a context it derived itself and cancels it when it returns;
* `cliCancels`       — the engine-failed-first branch of `awaitPandoraTermination` calls `gracefulShutdown()`;
* `runEngineCancels` — `runEngine` derives a context and cancels it after `errs <- engine.Run(ctx)` was taken.
They are redundant: each alone is enough. After taking the error the main goroutine waits in `pandora.Wait()`, bounded
by a 3 s `time.AfterFunc(log.Fatal)`: an exit through that timer flushes nothing.
`selfEnding j` — pool j's schedule ends by itself within the observation (more behaviour, never less).
A trace is an arbitrary list of events; an event that is not enabled leaves the state unchanged.
-/
namespace Pandora.Model.C06FailCancel

structure Cfg where
  engineCancels : Bool
  cliCancels : Bool
  runEngineCancels : Bool
  deriving DecidableEq, Repr

def Cfg.anySource (c : Cfg) : Bool := c.engineCancels || c.cliCancels || c.runEngineCancels

inductive Ev
  | poolFails (j : Nat)    -- a task of pool j fails: the pool's own `runCancel` ends its other tasks, `pool.Run` returns the error
  | poolEnds (j : Nat)     -- all tasks of pool j are over (aggregator drained, flushed, closed; `onWaitDone`)
  | engineReturns          -- `Engine.Run` returns the first error (deferred cancel)
  | takeErrs               -- main: `case err := <-errs` (gracefulShutdown, AfterFunc, then blocked in Wait)
  | runEngineReturns       -- runEngine's send was taken: its deferred cancel runs
  | timerFires             -- the 3 s AfterFunc: `log.Fatal("Engine tasks timeout exceeded.")`
  | waitReturns            -- `pandora.Wait()` returns, `log.Fatal("Engine run failed")`
  deriving DecidableEq, Repr

structure St where
  n : Nat
  selfEnding : Nat → Bool
  failed : Nat → Bool := fun _ => false
  ended : Nat → Bool := fun _ => false
  /-- the context the pools run under is cancelled -/
  cancelled : Bool := false
  engineReturned : Bool := false
  errsTaken : Bool := false
  runEngineDone : Bool := false
  /-- the process is gone; `some true` = every aggregator had flushed and closed before -/
  exit : Option Bool := none

def init (n : Nat) (selfEnding : Nat → Bool) : St := { n := n, selfEnding := selfEnding }

def setAt (f : Nat → Bool) (j : Nat) : Nat → Bool := fun k => if k = j then true else f k

def St.allEnded (st : St) : Bool := (List.range st.n).all st.ended
def St.someFailed (st : St) : Bool := (List.range st.n).any st.failed

def step (cfg : Cfg) (st : St) : Ev → St
  | .poolFails j =>
      if st.exit.isNone && decide (j < st.n) && !st.ended j then { st with failed := setAt st.failed j } else st
  | .poolEnds j =>
      if st.exit.isNone && decide (j < st.n) && (st.cancelled || st.failed j || st.selfEnding j) then
        { st with ended := setAt st.ended j }
      else st
  | .engineReturns =>
      if st.exit.isNone && !st.engineReturned && st.someFailed then
        { st with engineReturned := true, cancelled := st.cancelled || cfg.engineCancels }
      else st
  | .takeErrs =>
      if st.exit.isNone && st.engineReturned && !st.errsTaken then
        { st with errsTaken := true, cancelled := st.cancelled || cfg.cliCancels }
      else st
  | .runEngineReturns =>
      if st.exit.isNone && st.errsTaken && !st.runEngineDone then
        { st with runEngineDone := true, cancelled := st.cancelled || cfg.runEngineCancels }
      else st
  | .timerFires => if st.exit.isNone && st.errsTaken then { st with exit := some st.allEnded } else st
  | .waitReturns => if st.exit.isNone && st.errsTaken && st.allEnded then { st with exit := some true } else st

def run (cfg : Cfg) (st : St) : List Ev → St
  | [] => st
  | e :: es => run cfg (step cfg st e) es

end Pandora.Model.C06FailCancel
