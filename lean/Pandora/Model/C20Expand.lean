/-
C20 (round 6) — how a scenario's `requests` list becomes the list of steps a shot walks through
(`components/providers/scenario/grpc/decode.go` `convertScenarioToAmmo`, after `config.ParseShootName`), core Lean only.

Every entry of the list is `name`, `name(count)` or `name(count, sleep)`; the name `sleep` is a pseudo request whose
count is a pause in milliseconds added to the step before it. Until round 6 this expansion lived in the Lean DRIVER
(`Drv.parseScn`), i.e. it was neither a model definition nor tied to the source.
-/
import Pandora.Model.C20Feed

namespace Pandora.Model.C20

/-- one entry of `requests` as `config.ParseShootName` returns it: name, count (1 when not written; 0 and negative
numbers are accepted and mean "no step"), sleep in ms (0 when not written) -/
structure Shoot where
  name : String
  cnt : Int := 1
  sleep : Int := 0
  deriving Repr

inductive ExpandErr where
  /-- `sleep(ms)` with no step before it -/
  | leadingSleep
  /-- a name the call registry does not hold -/
  | unknown (name : String)
  /-- more than `MaxScenarioRequests` steps -/
  | tooMany
  deriving Repr, DecidableEq

/-- `config.MaxScenarioRequests` (regenerated: `Bridge.C20.maxScenarioRequests_eq`) -/
def maxScenarioRequests : Nat := 1048576

/-- add a pause to the last step -/
def addSleepLast : List (String × Int) → Int → List (String × Int)
  | [], _ => []
  | [x], ms => [(x.1, x.2 + ms)]
  | x :: y :: rest, ms => x :: addSleepLast (y :: rest) ms

/-- the loop of `convertScenarioToAmmo` over the parsed entries; `acc` = the steps so far (call name, pause after it) -/
def expandReqs (known : String → Bool) : List Shoot → List (String × Int) → Except ExpandErr (List (String × Int))
  | [], acc => .ok acc
  | sh :: rest, acc =>
    if sh.name == "sleep" then
      (if acc.isEmpty then .error .leadingSleep else expandReqs known rest (addSleepLast acc sh.cnt))
    else if !known sh.name then .error (.unknown sh.name)
    else if sh.cnt > (maxScenarioRequests : Int) - acc.length then .error .tooMany
    else expandReqs known rest (acc ++ List.replicate sh.cnt.toNat (sh.name, if sh.sleep > 0 then sh.sleep else 0))

/-- the stateless description: every entry that is not a pause contributes its name `count` times, in order -/
def expandSpec (reqs : List Shoot) : List String :=
  (reqs.filter fun sh => sh.name != "sleep").flatMap fun sh => List.replicate sh.cnt.toNat sh.name

end Pandora.Model.C20
