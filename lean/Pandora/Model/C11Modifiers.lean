/-
C11 — the modifiers of the `var/header` postprocessor as values (core Lean only).

A mapping value `Header|m1|m2|…` is parsed into a chain of modifiers; the postprocessor is part of the scenario
definition and therefore shared by all instances. `lower`, `upper` and `replace` are pure functions of their argument.
`substr(start[,end])` is a closure over two integer variables which the closure body normalises IN PLACE for the
length of the string it is applied to (`start = l + start` …). The code parses the mapping anew for every response, so
every call runs on freshly initialised variables: `applyChain` — a function of the response alone. If a parsed chain is
kept and reused (a cache in the shared postprocessor), the variables become state that outlives the call and is shared
by all instances: `applyChainCached` threads that state through the calls, and what an instance extracts from its own
response then depends on the responses other instances received before (`Props/C11`, `C11_cached_closure_counterexample`).

Strings are modelled as lists of characters; Go slices bytes: the model is exact for ASCII header values (the driver
generates no others).
-/
namespace Pandora.Model.C11

inductive Modifier where
  | lower
  | upper
  | substr (start end_ : Int)
  | replace (old new : String)
  deriving Repr, DecidableEq

/-- what one call of the `substr` closure does to its two captured bounds for an argument of length `l`: negative start
counts from the end; an end ≤ 0 counts from the end (0 = up to the end); both are clamped to `[0, l]` and swapped if out
of order -/
def substrNorm (start end_ l : Int) : Int × Int :=
  let s := if start < 0 then l + start else start
  let e := if end_ ≤ 0 then l + end_ else end_
  let s := if s < 0 then 0 else if s > l then l else s
  let e := if e < 0 then 0 else if e > l then l else e
  (if s > e then e else s, if s > e then s else e)

/-- Go's `in[a:b]`: `none` = the slice expression panics -/
def sliceStr (s : List Char) (a b : Int) : Option (List Char) :=
  if 0 ≤ a ∧ a ≤ b ∧ b ≤ s.length then some ((s.drop a.toNat).take (b.toNat - a.toNat)) else none

/-- first occurrence semantics of `strings.ReplaceAll` for a non-empty pattern (fuel = length of the input) -/
def replaceAllAux (old new : List Char) : Nat → List Char → List Char
  | 0, s => s
  | _ + 1, [] => []
  | n + 1, c :: cs =>
    if old.isPrefixOf (c :: cs) then new ++ replaceAllAux old new n ((c :: cs).drop old.length)
    else c :: replaceAllAux old new n cs

def replaceAll (old new s : List Char) : List Char :=
  if old.isEmpty then s else replaceAllAux old new s.length s

/-- one modifier applied to a value, together with the modifier as it is AFTER the call (only `substr` changes: its
bounds are overwritten by the normalised ones). `none` = the call panics. -/
def stepMod (m : Modifier) (s : List Char) : Option (List Char × Modifier) :=
  match m with
  | .lower => some (s.map Char.toLower, m)
  | .upper => some (s.map Char.toUpper, m)
  | .replace o n => some (replaceAll o.toList n.toList s, m)
  | .substr st en =>
    let (a, b) := substrNorm st en s.length
    (sliceStr s a b).map fun r => (r, .substr a b)

/-- a chain applied to a value; returns the result and the chain as the call leaves it -/
def stepChain : List Modifier → List Char → Option (List Char × List Modifier)
  | [], s => some (s, [])
  | m :: ms, s =>
    match stepMod m s with
    | none => none
    | some (r, m') =>
      match stepChain ms r with
      | none => none
      | some (r', ms') => some (r', m' :: ms')

/-- the code as it is: every response is processed with a freshly parsed chain -/
def applyChain (ms : List Modifier) (s : List Char) : Option (List Char) := (stepChain ms s).map (·.1)

/-- the values extracted from a sequence of responses when every response gets a fresh chain -/
def extractFresh (ms : List Modifier) (vals : List (List Char)) : List (Option (List Char)) := vals.map (applyChain ms)

/-- … and when ONE parsed chain is kept and reused for all responses (whoever receives them) -/
def extractCached : List Modifier → List (List Char) → List (Option (List Char))
  | _, [] => []
  | ms, v :: vs =>
    match stepChain ms v with
    | none => none :: extractCached ms vs
    | some (r, ms') => some r :: extractCached ms' vs

/-! ### parsing `name(args)` the way `str.ParseStringFunc` + `parseModifier` do, for the well-formed chains the driver
generates -/

def parseModifier (t : String) : Option Modifier :=
  let t := t.trimAscii.toString
  match t.splitOn "(" with
  | [name] => if name == "lower" then some .lower else if name == "upper" then some .upper else none
  | [name, rest] =>
    if !rest.endsWith ")" then none else
    let args := (((rest.dropEnd 1).toString).splitOn ",").map fun a => a.trimAscii.toString
    match name.trimAscii.toString, args with
    | "lower", _ => some .lower
    | "upper", _ => some .upper
    | "substr", [a] => a.toInt?.map fun x => .substr x 0
    | "substr", [a, b] => match a.toInt?, b.toInt? with
      | some x, some y => some (.substr x y)
      | _, _ => none
    | "replace", [o, n] => some (.replace o n)
    | _, _ => none
  | _ => none

def parseChain (t : String) : Option (List Modifier) :=
  if t.isEmpty then some [] else (t.splitOn "|").mapM parseModifier

end Pandora.Model.C11
