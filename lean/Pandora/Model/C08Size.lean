/-
C08 (round 6) — the SIZE of an entry and the option that bounds it (`maxammosize`).

The earlier models abstract a read of the ammo file to "entry | non-entry | end of file | I/O error".  Two of the
providers read their file with a `bufio.Scanner`, which hands out a line only if it fits its buffer:

  components/providers/grpc/grpcjson/provider.go start   `scanner := bufio.NewScanner(ammoFile)` at the top of EVERY pass,
                                                          `if MaxAmmoSize != 0 { scanner.Buffer(buffer, MaxAmmoSize) }`
  components/providers/http/decoders/uri.go              `newLineScanner` (Buffer(nil, math.MaxInt)) in the constructor and
                                                          again after every seek to the start of the file

so whether a line is an entry or a read error (`bufio.ErrTooLong`) depends on its length, on the option, and on WHICH
scanner reads it — the one of the first pass or the one built for a later pass.  `lineMax k mas passNum` is the token
limit of the reader in use while the provider's pass counter has the value `passNum` (1 = first pass); for grpc/json and
uri it is REGENERATED from the source (`Gen.ProvLoops.grpcScanMax`, `uriScanMax`: the scanner set-up statements are
executed in program order over three iterations of the pass loop) and bridged (`Bridge.ProvLoops.grpcScanMax_eq`,
`uriScanMax_eq`).  The other readers (bufio.Reader.ReadString in raw.go / uripost.go, json.Decoder, jsoniter) grow
their buffers without a limit.

`grpcLoopSz` is `Model.C08.grpcLoop` over a file whose lines have lengths: the inner loop condition
`scanner.Scan() && (Limit == 0 || ammoNum < Limit)` evaluates `Scan()` FIRST, so a line that does not fit ends the loop
— and `start` with `scanner.Err()` — even when the limit is already reached.
-/
import Pandora.Model.C08
import Pandora.Model.C08Pick
import Pandora.Model.C08Scan

namespace Pandora.Model.C08

/-- bufio.MaxScanTokenSize: the token limit of a `bufio.Scanner` nobody configured -/
def defaultTok : Nat := 65536

/-- math.MaxInt (64-bit platform) -/
def maxInt : Nat := 9223372036854775807

/-- `if MaxAmmoSize != 0 { scanner.Buffer(buffer, MaxAmmoSize) }` on a fresh scanner -/
def tokMax (mas : Nat) : Nat := if mas ≠ 0 then mas else defaultTok

/-- the token limit of the line reader of kind `k` while the pass counter is `passNum` (1 = the first pass); `none` =
a reader without a limit -/
def lineMax (k : Kind) (mas _passNum : Nat) : Option Nat :=
  match k with
  | .grpcJson => some (tokMax mas)
  | .uri => some maxInt
  | _ => none

/-- bufio.Scanner hands out a line of `len` bytes (terminator not counted) iff the line and one more byte fit a buffer
of `max` bytes -/
def fitsTok (max : Option Nat) (len : Nat) : Bool :=
  match max with
  | none => true
  | some m => decide (len < m)

/-- is the line at `pos` of a file whose lines have the lengths `sizes` readable while the pass counter is `passNum`;
a position behind the last line is the end of the file, which every reader reads -/
def readable (k : Kind) (mas : Nat) (sizes : List Nat) (passNum pos : Nat) : Bool :=
  match sizes[pos]? with
  | some len => fitsTok (lineMax k mas passNum) len
  | none => true

/-- `grpcjson.Provider.start` over lines that may not fit the scanner (`rd passNum pos` = the line at `pos` is handed
out by the scanner of that pass): as `grpcLoop`, and a line that is not handed out ends `start` with `scanner.Err()` -/
def grpcLoopSz {α : Type} (file : List α) (chosen : α → Bool) (b : Bounds) (cancelAt : Option Nat) (rd : Nat → Nat → Bool) :
    Nat → GrpcSt → List α → Option (List α × RunRes)
  | 0, _, _ => none
  | fuel + 1, s, out =>
    if s.pos < file.length ∧ rd s.passNum s.pos = false then some (out, .errOther)   -- Scan() = false, Err() = ErrTooLong
    else if s.pos < file.length ∧ (b.limit = 0 ∨ s.ammoNum < b.limit) then
      match file[s.pos]? with
      | some a =>
        if chosen a then
          if cancelled cancelAt out.length then some (out, .nil)
          else grpcLoopSz file chosen b cancelAt rd fuel { s with pos := s.pos + 1, ammoNum := s.ammoNum + 1 } (out ++ [a])
        else grpcLoopSz file chosen b cancelAt rd fuel { s with pos := s.pos + 1 } out
      | none => some (out, .errOther)
    else if b.limit ≠ 0 ∧ b.limit ≤ s.ammoNum then some (out, .nil)
    else if b.passes ≠ 0 ∧ b.passes ≤ s.passNum then some (out, .nil)
    else grpcLoopSz file chosen b cancelAt rd fuel { s with passNum := s.passNum + 1, pos := 0 } out

/-- a grpc/json cell over a file of `sizes.length` entries with these line lengths, the `maxammosize` option `mas` and an
optional chosencases option; the fuel is the one of the cell without sizes (an unreadable line only ends it earlier) -/
def runGrpcSz (inp : Input) (sizes : List Nat) (mas : Nat) (pick : Option (List Nat)) : Option (Outcome Nat) :=
  let n := sizes.length
  let chosen : Nat → Bool := match pick with | some p => pickPred p | none => fun _ => true
  let eff := match pick with | some p => (chosenOf n p).length | none => n
  match target inp.b.limit inp.b.passes eff inp.cancelAt with
  | none => none
  | some t =>
    match grpcLoopSz (List.range n) chosen inp.b inp.cancelAt (readable .grpcJson mas sizes) (fuelFor t n eff) GrpcSt.init [] with
    | none => none
    | some (out, e) => some ⟨out, e, true⟩

/-- the line-level reader of `Model.C08Scan` over lines with lengths: a line that does not fit is a read error -/
def rdAtSz (f : Lines) (fits : Nat → Bool) (pos : Nat) : Rd :=
  if pos < f.length ∧ fits pos = false then .bad else rdAt f pos

/-- the reader a provider would have if only the scanner of the FIRST pass were given the configured buffer (the set-up
hoisted out of the pass loop, a plain `bufio.NewScanner` after the seek) — what `lineMax` must NOT be -/
def lineMaxFirstOnly (mas passNum : Nat) : Option Nat := some (if passNum ≤ 1 then tokMax mas else defaultTok)

end Pandora.Model.C08
