/-
C04 — model of `coreutil.Waiter` (core/coreutil/waiter.go) and of the fire/discard decision of the
instance loop (core/engine/instance.go `instance.Run`).  Core Lean only, executable.

Time is `Int` nanoseconds on one axis (the monotonic clock).  `time.Time{}` (the zero value of the lazily
initialised `lastNow`) is `zeroTime` = year 1 in Unix nanoseconds; `Time.Sub` is exact subtraction (Go saturates
at ±292 years, which preserves the sign — only the sign of `next.Sub(zero)` is ever used).

Two variants of `Wait` are modelled:
* `Variant.fresh`  — the REPAIRED code (fixes/C04-fresh-clock-overdue.diff): a token that is not after the cached
  reading is judged against a fresh `time.Now()`;
* `Variant.cached` — the code as found: such a token is judged against the cached `lastNow`, which is refreshed
  only when a token lies after it (DESIGN §7 row 3).
`wait` = the repaired one; `waitOld` = the one found.
-/

-- vocabulary used by the REGENERATED `Pandora/Gen/Waiter.lean` (keeps that file core-only)
namespace Pandora.Go.C04
/-- `a.Sub(b)` on `time.Time` (ns, exact) -/
def timeSub (a b : Int) : Int := a - b
end Pandora.Go.C04

namespace Pandora.Model.C04
open Pandora.Go.C04

/-- `coreutil.MaxOverdueDuration` = 2 s -/
def maxOverdue : Int := 2000000000
/-- `netsample.DiscardedShootCodeError` -/
def discardNetCode : Int := 777
/-- `netsample.DiscardedShootTag` -/
def discardTag : String := "discarded"

/-- `time.Time{}` in Unix ns (January 1, year 1) -/
def zeroTime : Int := -62135596800000000000

/-- the mutable fields of `coreutil.Waiter` that decide anything (`timer` only carries the armed duration) -/
structure Waiter where
  lastNow : Int := zeroTime
  overdue : Int := 0
deriving Repr, DecidableEq, Inhabited

def Waiter.init : Waiter := {}

/-- What the environment supplies to ONE call of `Waiter.Wait`. -/
structure Env where
  /-- `ctx.Done()` is ready at the entry `select` -/
  ctxDone : Bool := false
  /-- `w.sched.Next()`: `some next`, or `none` when the schedule is finished -/
  tok : Option Int := none
  /-- real instant at which `Next()` returned the token ("the instance picks it up") -/
  pick : Int := 0
  /-- the value `time.Now()` returns if it is called during this `Wait` -/
  now : Int := 0
  /-- real instant at which the timer is armed (only meaningful on the timer path) -/
  arm : Int := 0
  /-- final `select`: `true` = `<-w.timer.C` wins, `false` = `<-ctx.Done()` wins -/
  timerWins : Bool := true
  /-- real instant at which `Wait` returns -/
  ret : Int := 0
deriving Repr, DecidableEq, Inhabited

inductive Variant | fresh | cached
deriving Repr, DecidableEq

/-- which `return` of `Wait` was taken -/
inductive Path
  | ctxDone      -- entry select
  | finished     -- `!ok` from Next
  | cachedNow    -- `next <= lastNow` (first `if waitFor <= 0`)
  | freshNow     -- `next <= time.Now()` (second `if waitFor <= 0`)
  | timer        -- slept until the timer fired
  | timerCancel  -- ctx done while sleeping
deriving Repr, DecidableEq

structure Res where
  w : Waiter
  ok : Bool
  path : Path
deriving Repr, DecidableEq

/-- `Waiter.Wait`, statement by statement. -/
def waitV (v : Variant) (w : Waiter) (e : Env) : Res :=
  if e.ctxDone then ⟨{ w with overdue := 0 }, false, .ctxDone⟩ else
  match e.tok with
  | none => ⟨{ w with overdue := 0 }, false, .finished⟩
  | some next =>
    let waitFor := timeSub next w.lastNow
    if waitFor ≤ 0 then
      match v with
      | .cached => ⟨{ w with overdue := 0 - waitFor }, true, .cachedNow⟩
      | .fresh => ⟨{ lastNow := e.now, overdue := timeSub e.now next }, true, .cachedNow⟩
    else
      let w : Waiter := { w with lastNow := e.now }
      let waitFor := timeSub next w.lastNow
      if waitFor ≤ 0 then ⟨{ w with overdue := 0 - waitFor }, true, .freshNow⟩
      else
        let w : Waiter := { w with overdue := 0 }
        if e.timerWins then ⟨w, true, .timer⟩ else ⟨w, false, .timerCancel⟩

/-- the repaired `Wait` -/
def wait (w : Waiter) (e : Env) : Res := waitV .fresh w e
/-- `Wait` as found (lateness judged against the cached reading) -/
def waitOld (w : Waiter) (e : Env) : Res := waitV .cached w e

/-- the condition of `IsSlowDown`'s default branch -/
def slowCond (overdue : Int) : Bool := decide (overdue ≥ maxOverdue)

/-- `Waiter.IsSlowDown(ctx)` -/
def isSlowDown (w : Waiter) (ctxDone : Bool) : Bool :=
  if ctxDone then false else slowCond w.overdue

/-- the condition of the `if` in `instance.Run`: `!i.discardOverflow || !waiter.IsSlowDown(ctx)` ⇒ Shoot -/
def fires (discardOverflow slow : Bool) : Bool := !discardOverflow || !slow

/-- the sample built by `netsample.DiscardedShootSample()` as far as C04 speaks about it -/
structure DiscardSample where
  tags : String
  net : Int
deriving Repr, DecidableEq

def discardedShootSample : DiscardSample := { tags := discardTag, net := discardNetCode }

/-! ### the instance loop -/

/-- What the environment supplies to one iteration of the `for !waiter.IsFinished(ctx)` loop. -/
structure Iter where
  /-- `waiter.IsFinished(ctx)` at the loop head (ctx done or `Left() == 0`) -/
  finished : Bool := false
  /-- `provider.Acquire()` ok -/
  ammoOk : Bool := true
  env : Env := {}
  /-- ctx done in `IsSlowDown`'s select -/
  ctxDoneSlow : Bool := false
  /-- how long `gun.Shoot` takes if it is called (response time) -/
  dur : Int := 0
deriving Repr, DecidableEq, Inhabited

/-- observable action of one iteration in which `Wait` returned true -/
inductive Ev
  /-- `gun.Shoot(ammo)` entered (at instant `it.env.ret`) -/
  | shoot (it : Iter)
  /-- `aggregator.Report(DiscardedShootSample())`, no Shoot -/
  | discard (it : Iter) (s : DiscardSample)
deriving Repr, DecidableEq

def Ev.iter : Ev → Iter
  | .shoot it => it
  | .discard it _ => it

def Ev.isShoot : Ev → Bool
  | .shoot _ => true
  | .discard _ _ => false

inductive Exit | loopEnd | outOfAmmo | historyEnd
deriving Repr, DecidableEq

/-- `instance.Run`'s loop over a history of iterations; returns the actions and how the loop ended. -/
def runLoop (v : Variant) (discardOverflow : Bool) : Waiter → List Iter → List Ev × Exit
  | _, [] => ([], .historyEnd)
  | w, it :: rest =>
    if it.finished then ([], .loopEnd) else
    if !it.ammoOk then ([], .outOfAmmo) else
    let r := waitV v w it.env
    if !r.ok then runLoop v discardOverflow r.w rest
    else
      let ev := if fires discardOverflow (isSlowDown r.w it.ctxDoneSlow) then Ev.shoot it
                else Ev.discard it discardedShootSample
      let (evs, x) := runLoop v discardOverflow r.w rest
      (ev :: evs, x)

/-- the iterations in which `Wait` returned true (tokens drawn and waited for) -/
def drawn (v : Variant) : Waiter → List Iter → List Iter
  | _, [] => []
  | w, it :: rest =>
    if it.finished then [] else
    if !it.ammoOk then [] else
    let r := waitV v w it.env
    if !r.ok then drawn v r.w rest else it :: drawn v r.w rest

/-- token of an iteration (0 when the schedule was finished; never used then) -/
def Iter.tok (it : Iter) : Int := it.env.tok.getD 0

end Pandora.Model.C04
