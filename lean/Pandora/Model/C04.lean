/-
C04 — model of `coreutil.Waiter` (core/coreutil/waiter.go) and of the fire/discard decision of the
instance loop (core/engine/instance.go `instance.Run`).  Core Lean only, executable.

Time is `Int` nanoseconds on one axis (the monotonic clock).  `time.Time{}` (the zero value of the lazily
initialised `lastNow`) is `zeroTime` = year 1 in Unix nanoseconds; `Time.Sub` is exact subtraction (Go saturates
at ±292 years, which preserves the sign — only the sign of `next.Sub(zero)` is ever used).

Two variants of `Wait` are modelled:
* `Variant.fresh`  — the REPAIRED code (/repo commit 1006bde, fixes/C04-fresh-clock-overdue.diff): a token that is not after
  the cached reading is judged against a fresh `time.Now()`;
* `Variant.cached` — the code as it was found: such a token is judged against the cached `lastNow`, which is refreshed
  only when a token lies after it (DESIGN §7 row 3).
`wait` = the repaired one (= the current source, `Bridge.Waiter.Wait_eq`); `waitOld` = the one found.
Further down: one pass of the loop as a function (`iteration`), the effective `discard_overflow` of a pool
(`effectiveDiscard`), and several instances on one shared schedule (`pstep`, `prun`, `poolEvents`).
-/

-- vocabulary used by the REGENERATED `Pandora/Gen/Waiter.lean` (keeps that file core-only)
namespace Pandora.Go.C04
/-- `a.Sub(b)` on `time.Time` (ns, exact) -/
def timeSub (a b : Int) : Int := a - b
end Pandora.Go.C04

namespace Pandora.Model.C04
open Pandora.Go.C04

/-- `coreutil.MaxOverdueDuration` = 2 s -/
def maxOverdue : Int := 2000000000
/-- `netsample.DiscardedShootCodeError` -/
def discardNetCode : Int := 777
/-- `netsample.DiscardedShootTag` -/
def discardTag : String := "discarded"

/-- `time.Time{}` in Unix ns (January 1, year 1) -/
def zeroTime : Int := -62135596800000000000

/-- the mutable fields of `coreutil.Waiter` that decide anything (`timer` only carries the armed duration) -/
structure Waiter where
  lastNow : Int := zeroTime
  overdue : Int := 0
deriving Repr, DecidableEq, Inhabited

def Waiter.init : Waiter := {}

/-- What the environment supplies to ONE call of `Waiter.Wait`. -/
structure Env where
  /-- `ctx.Done()` is ready at the entry `select` -/
  ctxDone : Bool := false
  /-- `w.sched.Next()`: `some next`, or `none` when the schedule is finished -/
  tok : Option Int := none
  /-- real instant at which `Next()` returned the token ("the instance picks it up") -/
  pick : Int := 0
  /-- the value `time.Now()` returns if it is called during this `Wait` -/
  now : Int := 0
  /-- real instant at which the timer is armed (only meaningful on the timer path) -/
  arm : Int := 0
  /-- final `select`: `true` = `<-w.timer.C` wins, `false` = `<-ctx.Done()` wins -/
  timerWins : Bool := true
  /-- real instant at which `Wait` returns -/
  ret : Int := 0
deriving Repr, DecidableEq, Inhabited

inductive Variant | fresh | cached
deriving Repr, DecidableEq

/-- which `return` of `Wait` was taken -/
inductive Path
  | ctxDone      -- entry select
  | finished     -- `!ok` from Next
  | cachedNow    -- `next <= lastNow` (first `if waitFor <= 0`)
  | freshNow     -- `next <= time.Now()` (second `if waitFor <= 0`)
  | timer        -- slept until the timer fired
  | timerCancel  -- ctx done while sleeping
deriving Repr, DecidableEq

structure Res where
  w : Waiter
  ok : Bool
  path : Path
deriving Repr, DecidableEq

/-- `Waiter.Wait`, statement by statement. -/
def waitV (v : Variant) (w : Waiter) (e : Env) : Res :=
  if e.ctxDone then ⟨{ w with overdue := 0 }, false, .ctxDone⟩ else
  match e.tok with
  | none => ⟨{ w with overdue := 0 }, false, .finished⟩
  | some next =>
    let waitFor := timeSub next w.lastNow
    if waitFor ≤ 0 then
      match v with
      | .cached => ⟨{ w with overdue := 0 - waitFor }, true, .cachedNow⟩
      | .fresh => ⟨{ lastNow := e.now, overdue := timeSub e.now next }, true, .cachedNow⟩
    else
      let w : Waiter := { w with lastNow := e.now }
      let waitFor := timeSub next w.lastNow
      if waitFor ≤ 0 then ⟨{ w with overdue := 0 - waitFor }, true, .freshNow⟩
      else
        let w : Waiter := { w with overdue := 0 }
        if e.timerWins then ⟨w, true, .timer⟩ else ⟨w, false, .timerCancel⟩

/-- the repaired `Wait` -/
def wait (w : Waiter) (e : Env) : Res := waitV .fresh w e
/-- `Wait` as found (lateness judged against the cached reading) -/
def waitOld (w : Waiter) (e : Env) : Res := waitV .cached w e

/-- the condition of `IsSlowDown`'s default branch -/
def slowCond (overdue : Int) : Bool := decide (overdue ≥ maxOverdue)

/-- `Waiter.IsSlowDown(ctx)` -/
def isSlowDown (w : Waiter) (ctxDone : Bool) : Bool :=
  if ctxDone then false else slowCond w.overdue

/-- the condition of the `if` in `instance.Run`: `!i.discardOverflow || !waiter.IsSlowDown(ctx)` ⇒ Shoot -/
def fires (discardOverflow slow : Bool) : Bool := !discardOverflow || !slow

/-- the sample built by `netsample.DiscardedShootSample()` as far as C04 speaks about it -/
structure DiscardSample where
  tags : String
  net : Int
deriving Repr, DecidableEq

def discardedShootSample : DiscardSample := { tags := discardTag, net := discardNetCode }

/-! ### the instance loop -/

/-- What the environment supplies to one iteration of the `for !waiter.IsFinished(ctx)` loop. -/
structure Iter where
  /-- `waiter.IsFinished(ctx)` at the loop head (ctx done or `Left() == 0`) -/
  finished : Bool := false
  /-- `provider.Acquire()` ok -/
  ammoOk : Bool := true
  env : Env := {}
  /-- ctx done in `IsSlowDown`'s select -/
  ctxDoneSlow : Bool := false
  /-- how long `gun.Shoot` takes if it is called (response time) -/
  dur : Int := 0
deriving Repr, DecidableEq, Inhabited

/-- observable action of one iteration in which `Wait` returned true -/
inductive Ev
  /-- `gun.Shoot(ammo)` entered (at instant `it.env.ret`) -/
  | shoot (it : Iter)
  /-- `aggregator.Report(DiscardedShootSample())`, no Shoot -/
  | discard (it : Iter) (s : DiscardSample)
deriving Repr, DecidableEq

def Ev.iter : Ev → Iter
  | .shoot it => it
  | .discard it _ => it

def Ev.isShoot : Ev → Bool
  | .shoot _ => true
  | .discard _ _ => false

inductive Exit | loopEnd | outOfAmmo | historyEnd
deriving Repr, DecidableEq

/-- `instance.Run`'s loop over a history of iterations; returns the actions and how the loop ended. -/
def runLoop (v : Variant) (discardOverflow : Bool) : Waiter → List Iter → List Ev × Exit
  | _, [] => ([], .historyEnd)
  | w, it :: rest =>
    if it.finished then ([], .loopEnd) else
    if !it.ammoOk then ([], .outOfAmmo) else
    let r := waitV v w it.env
    if !r.ok then runLoop v discardOverflow r.w rest
    else
      let ev := if fires discardOverflow (isSlowDown r.w it.ctxDoneSlow) then Ev.shoot it
                else Ev.discard it discardedShootSample
      let (evs, x) := runLoop v discardOverflow r.w rest
      (ev :: evs, x)

/-- the iterations in which `Wait` returned true (tokens drawn and waited for) -/
def drawn (v : Variant) : Waiter → List Iter → List Iter
  | _, [] => []
  | w, it :: rest =>
    if it.finished then [] else
    if !it.ammoOk then [] else
    let r := waitV v w it.env
    if !r.ok then drawn v r.w rest else it :: drawn v r.w rest

/-- token of an iteration (0 when the schedule was finished; never used then) -/
def Iter.tok (it : Iter) : Int := it.env.tok.getD 0

end Pandora.Model.C04

namespace Pandora.Model.C04

/-! ### one loop iteration as a function (regenerated counterpart: `Gen.Waiter.iteration`) -/

/-- `Waiter.IsFinished(ctx)`; `left` = `w.sched.Left()` -/
def isFinished (ctxDone : Bool) (left : Int) : Bool := if ctxDone then true else left == 0

/-- what one pass through `for !waiter.IsFinished(ctx) { func() error {…}() }` of `instance.Run` does -/
inductive Outcome
  /-- `IsFinished` answered true: the loop ends, `Run` returns `ctx.Err()` -/
  | loopEnd
  /-- `provider.Acquire()` failed: `Run` returns `outOfAmmoErr` -/
  | outOfAmmo
  /-- `Wait` returned false: the closure returns nil, next pass -/
  | skip
  /-- `gun.Shoot(ammo)` -/
  | shoot
  /-- `aggregator.Report(s)`, no Shoot -/
  | discard (s : DiscardSample)
deriving Repr, DecidableEq

/-- one pass of the loop: new waiter state and what happened -/
def iteration (v : Variant) (discardOverflow : Bool) (w : Waiter) (it : Iter) : Waiter × Outcome :=
  if it.finished then (w, .loopEnd) else
  if !it.ammoOk then (w, .outOfAmmo) else
  let r := waitV v w it.env
  if !r.ok then (r.w, .skip) else
  if fires discardOverflow (isSlowDown r.w it.ctxDoneSlow) then (r.w, .shoot)
  else (r.w, .discard discardedShootSample)

/-- `runLoop` is the iteration of `iteration` -/
theorem runLoop_cons (v : Variant) (d : Bool) (w : Waiter) (it : Iter) (rest : List Iter) :
    runLoop v d w (it :: rest) =
      match iteration v d w it with
      | (_, .loopEnd) => ([], .loopEnd)
      | (_, .outOfAmmo) => ([], .outOfAmmo)
      | (w', .skip) => runLoop v d w' rest
      | (w', .shoot) => (Ev.shoot it :: (runLoop v d w' rest).1, (runLoop v d w' rest).2)
      | (w', .discard s) => (Ev.discard it s :: (runLoop v d w' rest).1, (runLoop v d w' rest).2) := by
  unfold iteration
  rw [runLoop]
  by_cases hf : it.finished = true
  · simp [hf]
  · by_cases ha : it.ammoOk = true
    · by_cases hk : (waitV v w it.env).ok = true
      · by_cases hs : fires d (isSlowDown (waitV v w it.env).w it.ctxDoneSlow) = true <;> simp [hf, ha, hk, hs]
      · simp [hf, ha, hk]
    · simp [hf, ha]

/-! ### the effective `discard_overflow` of a pool (cli/cli.go `readConfig`, core/engine/engine.go) -/

/-- `readConfig`: a pool section that does not mention `discard_overflow` gets `true`; one that does keeps its value.
The decoded `InstancePoolConfig.DiscardOverflow` is copied to `instanceSharedDeps.discardOverflow` (`startInstances`). -/
def effectiveDiscard (given : Option Bool) : Bool :=
  match given with
  | some b => b
  | none => true

/-! ### several instances on one shared schedule

The schedule is the list of tokens it has not handed out yet (`Next` pops the head, `Left() == 0` iff the list is empty: the
`core.Schedule` contract, C02/C03).  An instance touches the schedule at two points of a pass: `IsFinished` (reads `Left`) and
`Wait` (calls `Next` unless the context is already done).  A pool step is ONE such point of ONE instance, so every
interleaving of the instances' schedule accesses is a list of steps (the instance count is unbounded: any `Nat` is an instance).
-/

/-- which schedule the Waiter of an instance runs over -/
inductive SchedKind
  /-- `rps-per-instance`: every instance has its own copy of the profile (a pool of `n` such instances is `n` independent
  single-instance runs: `runLoop` / `simHist` each) -/
  | own
  /-- one schedule for the whole pool: the instances compete for its tokens (`pstep` / `prun`) -/
  | shared
deriving Repr, DecidableEq

/-- `(*instancePool).buildNewInstanceSchedule` -/
def scheduleKind (perInstance : Bool) : SchedKind := if perInstance then .own else .shared

inductive Phase
  /-- at the loop head (about to call `IsFinished`) -/
  | head
  /-- ammo acquired, about to call `Wait` -/
  | waiting
  /-- the loop has ended -/
  | exited
deriving Repr, DecidableEq

/-- what the environment supplies to one pool step -/
structure PStep where
  /-- which instance moves -/
  inst : Nat
  /-- head step: `ctx.Done()` ready in `IsFinished` -/
  ctxDoneHead : Bool := false
  /-- the data of the pass that do not come from the schedule (`finished` and `env.tok` are ignored) -/
  it : Iter := {}
deriving Repr, DecidableEq, Inhabited

structure PState where
  /-- tokens not handed out yet -/
  sched : List Int
  phase : Nat → Phase
  /-- tokens handed out so far, with the instance that drew each, in order -/
  out : List (Nat × Int)
  /-- per instance: the passes completed so far (the history `runLoop` is run on) -/
  hist : Nat → List Iter

def PState.init (toks : List Int) : PState :=
  { sched := toks, phase := fun _ => .head, out := [], hist := fun _ => [] }

def upd {α : Type} (f : Nat → α) (i : Nat) (a : α) : Nat → α := fun j => if j = i then a else f j

/-- the completed pass recorded for an instance whose `Wait` was entered: `tok` = what `Next` returned (none: not called, or
the schedule was finished) -/
def passOf (it : Iter) (tok : Option Int) : Iter :=
  { finished := false, ammoOk := true, env := { it.env with tok := tok }, ctxDoneSlow := it.ctxDoneSlow, dur := it.dur }

/-- the pass that ends the loop (`IsFinished` true, or out of ammo) -/
def exitPass (it : Iter) (fin : Bool) : Iter := { it with finished := fin }

def PState.record (st : PState) (i : Nat) (ph : Phase) (x : Iter) : PState :=
  { st with phase := upd st.phase i ph, hist := upd st.hist i (st.hist i ++ [x]) }

def pstep (st : PState) (s : PStep) : PState :=
  match st.phase s.inst with
  | .exited => st
  | .head =>
    if isFinished s.ctxDoneHead st.sched.length then st.record s.inst .exited (exitPass s.it true)
    else if !s.it.ammoOk then st.record s.inst .exited (exitPass s.it false)
    else { st with phase := upd st.phase s.inst .waiting }
  | .waiting =>
    -- `Wait` returns at its entry `select` when the context is done: `Next` is not called
    if s.it.env.ctxDone then st.record s.inst .head (passOf s.it none)
    else
      match st.sched with
      | [] => st.record s.inst .head (passOf s.it none)
      | t :: rest =>
        ({ st with sched := rest, out := st.out ++ [(s.inst, t)] } : PState).record s.inst .head (passOf s.it (some t))

def prun (st : PState) (steps : List PStep) : PState := steps.foldl pstep st

/-- the actions of instance `i` after the given steps -/
def poolEvents (v : Variant) (d : Bool) (toks : List Int) (steps : List PStep) (i : Nat) : List Ev :=
  (runLoop v d Waiter.init ((prun (PState.init toks) steps).hist i)).1

/-! ### a closed world: time advances, timers fire, `Shoot` returns (progress of the loop)

Above, the environment of every pass (`Iter`) is an arbitrary input and the theorems carry the clock hypotheses.  Here the world
is generated instead: an instance draws the tokens `toks` of a schedule one after the other, the clock advances by the (natural
number, hence non-negative) delays of `Delays`, an armed timer fires `dLag` after its time, `Shoot` returns after `dur`.  Nothing is
cancelled and ammo is available.  `simHist` is the history of passes this world produces; it ends with the pass in which
`IsFinished` sees the empty schedule.  (Round 2.) -/

/-- the delays the world adds in one pass -/
structure Delays where
  /-- loop overhead: end of the previous action → `Next` has returned the token -/
  dPick : Nat := 0
  /-- `Next` returned → `time.Now()` is read -/
  dNow : Nat := 0
  /-- the reading → the timer is armed -/
  dArm : Nat := 0
  /-- lateness of the timer (timer path) / of the return of `Wait` (other paths) -/
  dLag : Nat := 0
  /-- response time of `Shoot` -/
  dur : Nat := 0
deriving Repr, DecidableEq, Inhabited

/-- the pass the world produces for token `tok` when the previous action ended at instant `t` -/
def simIter (t tok : Int) (p : Delays) : Iter :=
  { finished := false, ammoOk := true, ctxDoneSlow := false, dur := p.dur,
    env := { ctxDone := false, tok := some tok, pick := t + p.dPick, now := t + p.dPick + p.dNow,
             arm := t + p.dPick + p.dNow + p.dArm, timerWins := true,
             ret := (if tok ≤ t + p.dPick + p.dNow then t + p.dPick + p.dNow + p.dArm
                     else t + p.dPick + p.dNow + p.dArm + (tok - (t + p.dPick + p.dNow))) + p.dLag } }

/-- the pass in which `IsFinished` sees the empty schedule -/
def simLast (t : Int) : Iter := { finished := true, env := { pick := t, now := t, arm := t, ret := t } }

/-- instant at which the action of a pass is over, given the waiter state after its `Wait` -/
def simNext (d : Bool) (w' : Waiter) (it : Iter) : Int :=
  if fires d (isSlowDown w' false) then it.env.ret + it.dur else it.env.ret

/-- the history of passes of one instance in the closed world, started at instant `t` with waiter state `w`;
`[]` after the last supplied `Delays` when tokens are left (the world's description ran out) -/
def simHist (v : Variant) (d : Bool) : Waiter → Int → List Int → List Delays → List Iter
  | _, t, [], _ => [simLast t]
  | _, _, _ :: _, [] => []
  | w, t, tok :: toks, p :: ps =>
    (simIter t tok p) ::
      simHist v d (waitV v w (simIter t tok p).env).w (simNext d (waitV v w (simIter t tok p).env).w (simIter t tok p)) toks ps

/-! ### `Time.Sub` saturates (round 2)

Go's `Time.Sub` returns `maxDuration` / `minDuration` (±2^63 ns, about 292 years) instead of overflowing. `waitV` reads it as exact
subtraction; `waitVWith satSub` is `Wait` with the saturating one. `Props`: they agree whenever the token times and clock readings
of the run lie within 292 years of each other and after year 1 (the zero `time.Time` of the lazily initialised `lastNow`). -/

def maxDuration : Int := 9223372036854775807
def minDuration : Int := -9223372036854775808

/-- `a.Sub(b)` as Go computes it -/
def satSub (a b : Int) : Int :=
  if a - b > maxDuration then maxDuration else if a - b < minDuration then minDuration else a - b

/-- `waitV` with the subtraction as a parameter (the same statements) -/
def waitVWith (sub : Int → Int → Int) (v : Variant) (w : Waiter) (e : Env) : Res :=
  if e.ctxDone then ⟨{ w with overdue := 0 }, false, .ctxDone⟩ else
  match e.tok with
  | none => ⟨{ w with overdue := 0 }, false, .finished⟩
  | some next =>
    let waitFor := sub next w.lastNow
    if waitFor ≤ 0 then
      match v with
      | .cached => ⟨{ w with overdue := 0 - waitFor }, true, .cachedNow⟩
      | .fresh => ⟨{ lastNow := e.now, overdue := sub e.now next }, true, .cachedNow⟩
    else
      let w : Waiter := { w with lastNow := e.now }
      let waitFor := sub next w.lastNow
      if waitFor ≤ 0 then ⟨{ w with overdue := 0 - waitFor }, true, .freshNow⟩
      else
        let w : Waiter := { w with overdue := 0 }
        if e.timerWins then ⟨w, true, .timer⟩ else ⟨w, false, .timerCancel⟩

end Pandora.Model.C04
