/-
C06 (iv) — when does the pool cancel its aggregator, and when may `Engine.Wait()` return:
`core/engine/engine.go` `runAsync` / `awaitRunAsync` / `awaitRun` / `checkAllInstancesAreFinished`.

Goroutines of one pool: `startInstances` (launches instance goroutines one by one, then sends
`startResult{started}` on `startRes`), the instances (each: shoots — every shoot ends with `Report` calls —
then `Run` returns and the goroutine sends its `instanceRunResult` on `runRes`), the provider, the
aggregator, and `awaitRun`, which selects over the four result channels:

    for ah.toWait > 0 { select {
      case <-ah.providerErr:   providerErr = nil;   toWait--
      case <-ah.aggregatorErr: aggregatorErr = nil; toWait--
      case res := <-ah.startRes: startRes = nil; toWait--; startedInstances = res.Started; checkAllInstancesAreFinished()
      case res := <-ah.runRes:   awaitedInstances++;                                      checkAllInstancesAreFinished() } }
    checkAllInstancesAreFinished:
      allFinished := ah.isStartFinished() && ah.awaitedInstances >= ah.startedInstances   -- startedInstances is -1 until start finished
      if !allFinished { return }
      close(ah.runRes); …; ah.runRes = nil; ah.toWait--; ah.runCancel()

`runCancel` cancels the context of the provider and of the AGGREGATOR: it is the "end of run" cancel of the
queue model. After the loop the deferred `close(ah.awaitErr)` / `p.onWaitDone()` (= `Engine.wait.Done()`) run.

Instances are anonymous here (a counter of running ones): a `report` is enabled whenever SOME instance is
still running, which is more behaviour than the code has, so what is proved for all traces of this model
holds for all traces of the code. An event that is not enabled leaves the state unchanged.
`emitted` is the ghost list of what the aggregator's queue model sees: completed Report calls and the cancel.
-/
import Pandora.Model.C06AggQueue

namespace Pandora.Model.C06Pool
open Pandora.Model.AggQueue (Ev)

inductive PEv
  | launch          -- startInstances starts one more instance goroutine
  | startDone       -- startInstances returns; `startRes <- startResult{started, err}`
  | report (i : Nat) -- a running instance completes a Report call
  | finish          -- an instance's Run returns; its goroutine sends on `runRes`
  | provReturn      -- Provider.Run returned (its result waits in the 1-buffered channel)
  | aggReturn       -- Aggregator.Run returned (drained, flushed, closed — the queue model's `returned`)
  | awaitProv | awaitAgg | awaitStart | awaitInst   -- the four cases of awaitRun's select
  | extCancel       -- the pool's parent context is cancelled (SIGINT/SIGTERM, failure of another pool …)
  | waitDone        -- awaitRun's loop is over: deferred `close(ah.awaitErr)`, `p.onWaitDone()`
  deriving DecidableEq, Repr

structure PSt where
  toWait : Nat                      -- `resultsToWait` at the start
  launched : Nat := 0               -- `started` of startInstances so far
  starting : Bool := true           -- startInstances has not returned yet
  startSent : Bool := false         -- a startResult waits in `startRes`
  startResOpen : Bool := true       -- ah.startRes != nil
  startedInstances : Int := -1
  running : Nat := 0                -- instances whose Run has not returned
  finishedCount : Nat := 0          -- run results sent (or being sent) on runRes
  awaitedInstances : Nat := 0
  runResOpen : Bool := true         -- ah.runRes != nil (not yet closed)
  provDone : Bool := false
  provOpen : Bool := true           -- ah.providerErr != nil
  aggDone : Bool := false
  aggOpen : Bool := true            -- ah.aggregatorErr != nil
  cancelled : Bool := false         -- the aggregator's context is cancelled
  waitDone : Bool := false
  /-- a run result was sent on the closed `runRes` (Go: panic "send on closed channel") -/
  sendOnClosed : Bool := false
  emitted : List Ev := []
  deriving Repr

def init (toWait : Nat) : PSt := { toWait := toWait }

/-- `checkAllInstancesAreFinished` -/
def PSt.check (st : PSt) : PSt :=
  let allFinished := (!st.startResOpen) && decide ((st.awaitedInstances : Int) ≥ st.startedInstances)
  if !allFinished then st
  else { st with runResOpen := false, toWait := st.toWait - 1, cancelled := true, emitted := st.emitted ++ [Ev.cancel] }

def step (st : PSt) : PEv → PSt
  | .launch => if st.starting then { st with launched := st.launched + 1, running := st.running + 1 } else st
  | .startDone => if st.starting then { st with starting := false, startSent := true } else st
  | .report i => if st.running > 0 then { st with emitted := st.emitted ++ [Ev.report i] } else st
  | .finish =>
      if st.running > 0 then
        { st with running := st.running - 1, finishedCount := st.finishedCount + 1,
                  sendOnClosed := st.sendOnClosed || !st.runResOpen }
      else st
  | .provReturn => { st with provDone := true }
  | .aggReturn => { st with aggDone := true }
  | .awaitProv =>
      if st.toWait > 0 ∧ st.provOpen ∧ st.provDone then { st with provOpen := false, toWait := st.toWait - 1 } else st
  | .awaitAgg =>
      if st.toWait > 0 ∧ st.aggOpen ∧ st.aggDone then { st with aggOpen := false, toWait := st.toWait - 1 } else st
  | .awaitStart =>
      if st.toWait > 0 ∧ st.startResOpen ∧ st.startSent then
        ({ st with startResOpen := false, toWait := st.toWait - 1, startedInstances := (st.launched : Int) }).check
      else st
  | .awaitInst =>
      if st.toWait > 0 ∧ st.runResOpen ∧ st.awaitedInstances < st.finishedCount then
        ({ st with awaitedInstances := st.awaitedInstances + 1 }).check
      else st
  | .extCancel =>
      if st.cancelled then st else { st with cancelled := true, emitted := st.emitted ++ [Ev.cancel] }
  | .waitDone => if st.toWait = 0 then { st with waitDone := true } else st

def run (st : PSt) : List PEv → PSt
  | [] => st
  | e :: es => run (step st e) es

/-- the events of an aggregator schedule that the pool decides: completed Report calls and the cancel -/
def isRC : Ev → Bool
  | .report _ => true
  | .cancel => true
  | _ => false

end Pandora.Model.C06Pool
