/-
C01 — fine-grained model of the START PROTOCOL of a leaf schedule (`core/schedule/do_at.go`, `start_sync.go`) under
any number of concurrent callers.

The sequential reading of `doAtSchedule.Start/Next/Left` (`Pandora.Gen.Schedule.doAtSchedule_*`, regenerated) treats a
whole method call as one step.  That is justified only if the calls are linearisable; the part that is NOT a single atomic
operation is the lazy start: `Next` runs `s.startOnce.Do(func() { s.MarkStarted(); s.start = time.Now() })`, then
`i := s.i.Inc() - 1`, then reads the plain field `s.start`.  Here every access to the shared state is one step.

A method body is a flat list of `Stmt` ("assembly" of its shared-state accesses in program order; regenerated from the
source by `gen -area schedconc` into `Pandora.Gen.SchedConc`):

  swapStarted        `s.MarkStarted()`  =  `if s.started.Swap(true) { panic(…) }`
  writeStartNow      `s.start = time.Now()`
  writeStartArg      `s.start = startAt`
  onceEnter k        `s.startOnce.Do(func() {` — the k statements that follow are the function literal's body and its
                     `onceExit`; sync.Once: done → skip them; idle → become the runner; another caller is running → wait
  onceExit           `})`: the Once is done
  skipIfStarted k    `if !s.IsStarted() {` k statements `}`     (one atomic load of `started`)
  skipIfNotStarted k `if s.IsStarted() {` k statements `}`
  incI               `i := s.i.Inc() - 1`                        (one atomic read-modify-write; the result is a local)
  readStartRet       the rest of `Next`: reads the plain field `s.start` and returns start + offset(i)

State: the shared fields, one continuation and one local `i` per caller (callers are natural numbers; every caller makes
ONE call — a consumer that calls `Next` again and again is a sequence of callers, and program order only removes
interleavings), a log of what the finished calls read, and the callers that panicked.  `step s t now` lets caller `t`
perform its next access (`now` = what the clock shows at that moment); a caller that waits for the Once or has finished
stutters.  `run` performs a whole schedule of such steps.
-/
namespace Pandora.Go
/-- the translator opens `Pandora.Go` in every regenerated file; `Pandora.Go.Real`, which declares it, imports Mathlib -/
def c01ConcNamespace : Unit := ()
end Pandora.Go

namespace Pandora.Model.C01Conc

inductive Stmt where
  | swapStarted
  | writeStartNow
  | writeStartArg
  | onceEnter (skip : Nat)
  | onceExit
  | skipIfStarted (skip : Nat)
  | skipIfNotStarted (skip : Nat)
  | incI
  | readStartRet
  deriving DecidableEq, Repr

inductive Once where
  | idle
  | running (t : Nat)
  | done
  deriving DecidableEq, Repr

/-- what one finished `Next` based its answer on: the value of `s.start` it read (`none` = the zero `time.Time`, year 1)
and its operation index -/
structure Ans where
  tid : Nat
  start : Option Int
  idx : Int
  deriving DecidableEq, Repr

structure St where
  started : Bool
  once : Once
  start : Option Int
  ctr : Int
  log : List Ans
  panics : List Nat
  th : Nat → List Stmt
  loc : Nat → Int

def upd {α : Type} (f : Nat → α) (t : Nat) (x : α) : Nat → α := fun j => if j = t then x else f j

/-- a schedule that was never `Start()`ed; every caller runs `prog` -/
def initLazy (prog : List Stmt) : St :=
  { started := false, once := .idle, start := none, ctr := 0, log := [], panics := [], th := fun _ => prog, loc := fun _ => -1 }

/-- a schedule after `Start(t0)` returned; every caller runs `prog` -/
def initStarted (t0 : Int) (prog : List Stmt) : St :=
  { started := true, once := .done, start := some t0, ctr := 0, log := [], panics := [], th := fun _ => prog, loc := fun _ => -1 }

/-- caller `t` performs its next shared-state access; `arg` = the argument of `Start`, `now` = the clock -/
def step (arg : Int) (s : St) (t : Nat) (now : Int) : St :=
  match s.th t with
  | [] => s
  | c :: rest =>
    match c with
    | .swapStarted =>
        if s.started then { s with panics := t :: s.panics, th := upd s.th t [] }
        else { s with started := true, th := upd s.th t rest }
    | .writeStartNow => { s with start := some now, th := upd s.th t rest }
    | .writeStartArg => { s with start := some arg, th := upd s.th t rest }
    | .onceEnter k =>
        match s.once with
        | .done => { s with th := upd s.th t (rest.drop k) }
        | .idle => { s with once := .running t, th := upd s.th t rest }
        | .running _ => s
    | .onceExit => { s with once := .done, th := upd s.th t rest }
    | .skipIfStarted k => { s with th := upd s.th t (if s.started then rest.drop k else rest) }
    | .skipIfNotStarted k => { s with th := upd s.th t (if s.started then rest else rest.drop k) }
    | .incI => { s with ctr := s.ctr + 1, loc := upd s.loc t s.ctr, th := upd s.th t rest }
    | .readStartRet => { s with log := ⟨t, s.start, s.loc t⟩ :: s.log, th := upd s.th t rest }

/-- a schedule of steps: (caller, clock reading) -/
def run (arg : Int) (s : St) : List (Nat × Int) → St
  | [] => s
  | (t, now) :: r => run arg (step arg s t now) r

/-- `Start(arg)` ALONE on a schedule nobody has touched: caller 0 runs `prog` to its end, one access per step -/
def soloStart (arg : Int) (prog : List Stmt) : St :=
  run arg { initLazy [] with th := fun j => if j = 0 then prog else [] } (List.replicate prog.length (0, 0))

/-- the shapes of `Next` for which the lazy start is proved safe (`Proofs/C01Conc.run_inv`).

`safeOnce k rest` — `onceEnter k :: rest`: the body of the Once only marks the schedule started (at most once) and stores
the clock (at least once), in any order; after the Once the index is drawn and `start` is read, nothing else.

`safeLazy`: the Once is the FIRST access; or a check of the started flag stands in front of it, skips exactly the Once,
and the flag is raised by the LAST statement of the body (after the clock was stored). -/
def isBodyStmt : Stmt → Bool
  | .swapStarted => true
  | .writeStartNow => true
  | _ => false

def safeOnce (k : Nat) (rest : List Stmt) : Bool :=
  decide (1 ≤ k) && (rest.take (k - 1)).all isBodyStmt && (rest.take (k - 1)).contains .writeStartNow &&
  decide ((rest.take (k - 1)).count .swapStarted ≤ 1) && decide (rest.drop (k - 1) = [.onceExit, .incI, .readStartRet])

def safeLazy (p : List Stmt) : Bool :=
  match p with
  | .onceEnter k :: rest => safeOnce k rest
  | .skipIfStarted g :: .onceEnter k :: rest =>
      decide (g = k + 1) && safeOnce k rest && decide ((rest.take (k - 1)).getLast? = some .swapStarted)
  | _ => false

/-- the answer of a call that read `start` and drew index `i`, for a leaf of duration `D` with `n` operations at offsets `f` -/
def ansOf (D n : Int) (f : Int → Int) (a : Ans) : Option (Int × Bool) :=
  match a.start with
  | none => none
  | some v => some (if n ≤ a.idx then (v + D, false) else (v + f a.idx, true))

end Pandora.Model.C01Conc
