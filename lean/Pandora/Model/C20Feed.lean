/-
C20 — the grpc/json provider's reading loop (`components/providers/grpc/grpcjson/provider.go` `(*Provider).start`),
core Lean only.

The loop: for every pass over the file, for every line `scanner.Scan() && (limit == 0 || ammoNum < limit)`:
decode the line into a pooled ammo (`decodeAmmo`); a line that cannot be decoded is, with `continueonerror`, delivered as
an INVALID ammo (the pooled object reset to nothing: the gun reports one failed sample and makes no call), without it
the provider stops with an error; an ammo whose tag is not among the chosen cases is dropped; everything else is put
on the sink and counted. A line longer than the scanner's buffer stops the provider whatever the options say. After
a pass: stop when the limit is reached, when the configured number of passes is done, or (error) when nothing has
been delivered at all; otherwise rewind and go on.

Also here: the status mapping `ConvertGrpcStatus` (regenerated and bridged), the shared client pool's effective size,
the scenario provider's call registry (the LAST definition of a name wins).
-/
import Pandora.Model.C20Net

namespace Pandora.Model.C20

/-! ### the provider's options and the lines of the file -/

structure ProvCfg where
  /-- passes over the file, 0 = unlimited -/
  passes : Nat
  /-- total number of ammo, 0 = unlimited -/
  limit : Nat
  /-- chosen cases (tags); [] = all -/
  chosen : List String
  /-- continueonerror -/
  coe : Bool
  deriving Repr

/-- a line of the file as the scanner and the decoder see it -/
inductive Raw where
  /-- a line that decodes into an ammo -/
  | line (l : Line)
  /-- a line the JSON decoder rejects (not JSON, truncated, payload not an object, metadata value not a string …) -/
  | bad
  /-- a line longer than the scanner's buffer (`maxammosize`, 64 KiB by default) -/
  | long

/-- how the provider ended -/
inductive Stop where
  | none | decode | scan | noammo
  deriving DecidableEq, Repr

/-- `confutil.IsChosenCase` -/
def isChosen (tag : String) (chosen : List String) : Bool := chosen.isEmpty || chosen.contains tag

/-- what the loop body does with one line: stop the provider, drop the line, or deliver an ammo -/
inductive Action where
  | stop (s : Stop)
  | skip
  | deliver (e : Entry)

/-- the ammo an undecodable line is delivered as (repaired code: the pooled object is reset, whatever it held; the
gun sees `IsInvalid()` and reports one failed sample without a call — which is also what an ammo without a call gives) -/
def invalidEntry : Entry := zeroEntry

/-- the loop body for one line; `pooled` = what the pooled ammo object held before -/
def action (cfg : ProvCfg) (pooled : Entry) : Raw → Action
  | .long => .stop .scan
  | .bad =>
    if cfg.coe then (if isChosen invalidEntry.tag cfg.chosen then .deliver invalidEntry else .skip)
    else .stop .decode
  | .line l =>
    let e := decodeAmmo pooled l
    if isChosen e.tag cfg.chosen then .deliver e else .skip

def isLong : Raw → Bool
  | .long => true
  | _ => false

/-- one pass: `n` = ammo delivered so far; returns the ammo delivered by this pass, the new count and how the pass
ended. `scanner.Scan()` comes first in the loop condition: a too long line stops the provider even when the limit has
been reached. The pooled object every line is decoded into holds the previously delivered ammo (the worst a pool can do). -/
def scanPass (cfg : ProvCfg) : List Raw → Entry → Nat → List Entry × Nat × Stop
  | [], _, n => ([], n, .none)
  | r :: rs, pooled, n =>
    if isLong r then ([], n, .scan) else
    if cfg.limit != 0 && n ≥ cfg.limit then ([], n, .none) else
    match action cfg pooled r with
    | .stop s => ([], n, s)
    | .skip => scanPass cfg rs pooled n
    | .deliver e =>
      let rest := scanPass cfg rs e (n + 1)
      (e :: rest.1, rest.2.1, rest.2.2)

/-- the passes: `fuel` bounds the number of passes still possible, `passNum` = passes done -/
def runPasses (cfg : ProvCfg) (raws : List Raw) : Nat → Nat → Entry → Nat → List Entry × Stop
  | 0, _, _, _ => ([], .none)
  | fuel + 1, passNum, pooled, n =>
    let p := scanPass cfg raws pooled n
    if p.2.2 != .none then (p.1, p.2.2)
    else if cfg.limit != 0 && p.2.1 ≥ cfg.limit then (p.1, .none)
    else if cfg.passes != 0 && passNum + 1 ≥ cfg.passes then (p.1, .none)
    else if p.2.1 == 0 then (p.1, .noammo)
    else
      let rest := runPasses cfg raws fuel (passNum + 1) (p.1.getLast?.getD pooled) p.2.1
      (p.1 ++ rest.1, rest.2)

/-- enough passes for any bounded configuration: the configured number, or (unlimited passes, a limit) one pass per
ammo still to deliver plus one -/
def feedFuel (cfg : ProvCfg) : Nat := if cfg.passes != 0 then cfg.passes else cfg.limit + 1

/-- everything the provider puts on its sink, and how it ends -/
def feed (cfg : ProvCfg) (raws : List Raw) : List Entry × Stop :=
  runPasses cfg raws (feedFuel cfg) 0 zeroEntry 0

/-! ### the stateless description of the same -/

/-- a line is harmless for the provider's run: it neither overflows the scanner nor (without continueonerror) fails to decode -/
def rawOk (cfg : ProvCfg) : Raw → Bool
  | .long => false
  | .bad => cfg.coe
  | .line _ => true

/-- what a harmless line contributes, on its own (no pooled state): its ammo, if chosen -/
def itemOf (cfg : ProvCfg) : Raw → Option Entry
  | .long => none
  | .bad => if cfg.coe && isChosen invalidEntry.tag cfg.chosen then some invalidEntry else none
  | .line l =>
    let e := unmarshalInto zeroEntry l
    if isChosen e.tag cfg.chosen then some e else none

def takeLim (limit : Nat) (l : List Entry) : List Entry := if limit == 0 then l else l.take limit

/-- the ammo of `k` passes over harmless lines -/
def passesItems (cfg : ProvCfg) (raws : List Raw) (k : Nat) : List Entry :=
  (List.replicate k (raws.filterMap (itemOf cfg))).flatten

/-! ### the generic scenario provider (`components/providers/scenario/provider.go` `Run`) -/

/-- the loop of `Provider.Run` over its list of `len` ammo: before every delivery the passes (`ammoNum / len ≥ passes`)
and the limit (`ammoNum ≥ limit`) are checked, 0 = not configured; the ammo delivered is number `ammoNum mod len` of the
list. `fuel` = how many ammo are asked for (the loop itself never ends when nothing is configured); returns the indices
delivered. -/
def scenRun (len passes limit : Nat) : Nat → Nat → List Nat
  | 0, _ => []
  | fuel + 1, n =>
    if passes != 0 && n / len ≥ passes then []
    else if limit != 0 && n ≥ limit then []
    else (n % len) :: scenRun len passes limit fuel (n + 1)

/-- how many ammo the provider delivers at most: `passes` times the list, cut at `limit`; `none` = unbounded -/
def scenAvail (len passes limit : Nat) : Option Nat :=
  if passes == 0 then (if limit == 0 then none else some limit)
  else if limit == 0 then some (passes * len) else some (min (passes * len) limit)

/-! ### scenario weights (`lib/math` `GCD`, `GCDM`, as the Go code computes them) -/

/-- `math.GCD(a, b)` on non-negative numbers: `for a > 0 && b > 0 { if a >= b { a %= b } else { b %= a } }`, then the
larger of the two; `fuel` bounds the loop -/
def goGcdLoop : Nat → Nat → Nat → Nat
  | 0, a, b => if a > b then a else b
  | fuel + 1, a, b =>
    if a > 0 && b > 0 then (if a ≥ b then goGcdLoop fuel (a % b) b else goGcdLoop fuel a (b % a))
    else (if a > b then a else b)

def goGcd (a b : Nat) : Nat := goGcdLoop (a + b) a b

/-- `math.GCDM(weights...)` on the REVERSED list (last weight first): fewer than two weights give 0; two give their
`GCD`; otherwise `GCD(GCDM(all but the last), GCD(last two))` -/
def goGcdmRev : List Nat → Nat
  | [] => 0
  | [_] => 0
  | y :: x :: rest =>
    match rest with
    | [] => goGcd x y
    | _ :: _ => goGcd (goGcdmRev (x :: rest)) (goGcd x y)

def goGcdm (ws : List Nat) : Nat := goGcdmRev ws.reverse

/-! ### shared client pool -/

/-- `prepareClientPool`: disabled ⇒ no pool (0); enabled ⇒ `client-number`, at least 1 -/
def effClients (enabled : Bool) (clientNumber : Int) : Nat :=
  if !enabled then 0 else if clientNumber < 1 then 1 else clientNumber.toNat

/-! ### scenario provider: the call registry -/

/-- `decodeAmmo` (providers/scenario/grpc): `callRegistry[req.Name] = req` for the calls in file order: of several
definitions with one name the LAST is the one every scenario gets. The registry as a list: every name once (at the
position of its first definition), with its last definition. -/
def keepFirst : List CallDef → List CallDef
  | [] => []
  | cd :: rest => cd :: (keepFirst rest).filter (·.name != cd.name)

def registry (l : List CallDef) : List CallDef := keepFirst l.reverse

end Pandora.Model.C20
