/-
C02 round 6 — how a STARTING unlimited leaf publishes its state to a concurrent `Left` (core/schedule/unlilmited.go,
start_sync.go).

`unlimitedSchedule.Left` does not go through the once: it loads the started flag and then the finish time.  The caller
that starts the leaf (first `Next`, or `Start`) stores the finish time and raises the started flag — two atomic
stores, and a `Left` of another caller may run between them.  The concurrent leaf model (`Model/C02LeafPar.lean`)
treats the once body as ONE action and `Left` as ONE action; this file models the four accesses one by one, in the
orders the source performs them (regenerated: `Gen/C02Leaf.lean leafOrder`), so that `Proofs/C02R6Pub.lean` can show
that with the order of the source (finish before flag; flag before finish) every `Left` sees a pair it could have
seen atomically — and that with the order the code had before fix 4d9aa06 it does not.
-/
namespace Pandora.Model.C02.Pub

/-- what `Left` of an unlimited leaf reads -/
structure USh where
  started : Bool
  finish : Int
deriving Repr, DecidableEq

inductive WAcc where | storeFinish | storeStarted
deriving Repr, DecidableEq

inductive RAcc where | loadStarted | loadFinish
deriving Repr, DecidableEq

structure USt where
  sh : USh
  w : List WAcc                 -- what the starting caller still has to do
  r : List RAcc                 -- what the caller of `Left` still has to do
  seenStarted : Option Bool
  seenFinish : Option Int
deriving Repr, DecidableEq

/-- one access of the starting caller (`writer = true`) or of the caller of `Left`; `v` = the finish time being stored -/
def ustep (v : Int) (st : USt) (writer : Bool) : USt :=
  if writer then
    match st.w with
    | [] => st
    | .storeFinish :: w => { st with sh := { st.sh with finish := v }, w := w }
    | .storeStarted :: w => { st with sh := { st.sh with started := true }, w := w }
  else
    match st.r with
    | [] => st
    | .loadStarted :: r => { st with seenStarted := some st.sh.started, r := r }
    | .loadFinish :: r => { st with seenFinish := some st.sh.finish, r := r }

def urun (v : Int) (st : USt) (sched : List Bool) : USt := sched.foldl (ustep v) st

def uinit (f0 : Int) (w : List WAcc) (r : List RAcc) : USt := ⟨⟨false, f0⟩, w, r, none, none⟩

/-- `if !s.IsStarted() || time.Now().Before(s.finish.Load()) { return -1 }; return 0` on what was read -/
def leftOfView (started : Bool) (finish now : Int) : Int := if !started || decide (now < finish) then -1 else 0

/-- the stores / loads among the accesses of a method, in their order (names as `gen/area_c02leaf.go` prints them) -/
def wOrder (l : List String) : List WAcc :=
  l.filterMap fun a =>
    if a == "finish.Store" then some .storeFinish
    else if a == "started.Swap" || a == "started.Store" || a == "started.CAS" || a == "started.CompareAndSwap" then some .storeStarted
    else none

def rOrder (l : List String) : List RAcc :=
  l.filterMap fun a =>
    if a == "started.Load" then some .loadStarted else if a == "finish.Load" then some .loadFinish else none

end Pandora.Model.C02.Pub
