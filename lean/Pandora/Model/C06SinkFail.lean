/-
C06 (vi) — a sink that starts to reject writes (disk full): what the two aggregators do with the error.

Mirror of the error paths of
* `core/aggregator/netsample/phout.go` `Run`/`handle`: `handle` returns the error of `bufio.Writer.Write`
  (then `Run` returns it); the flush on the 1 s ticker / `time.After` and the deferred final flush and close
  discard theirs (`_ = a.writer.Flush()`, `_ = a.file.Close()`);
* `core/aggregator/encoder.go` `Run` + `core/aggregator/jsonlines.go` `jsonEncoder`: `Encode` appends to the
  jsoniter stream buffer and returns the stream's sticky `Error`; `Flush` is
  `err := e.Stream.Flush(); _ = e.buf.Flush(); return err` — the stream hands its buffer to the `bufio.Writer`
  (error kept and returned), the bufio layer's own flush to the sink is not looked at; `Run` returns on an error of
  `handleSample` or of the ticker flush; the deferred functions run the final `Flush` (its error IS joined into
  `Run`'s), then `sink.Close()`.
`bufio.Writer`: a failed write to the underlying sink makes the error sticky — every later `Write`/`Flush`
returns it without writing; a `Write` that does not fit flushes what is buffered first (`spill`).

Lines are counted, not represented. The environment decides when the sink breaks (`sinkBreaks`, for good) and
whether a write spills. An event that is not enabled leaves the state unchanged.
Ghosts: `failed` (some write to the sink was rejected), `checkedAfterFail` (an operation that hands the writer's
error to `Run` — phout: `handle`; jsonlines: the stream's flush — completed after that), `failedInLastFlush` (the
first rejected write was the very last, discarded flush).
-/
namespace Pandora.Model.C06SinkFail

inductive Kind
  | phout
  | jsonlines
  deriving DecidableEq, Repr

inductive Phase
  | running | draining | returned
  deriving DecidableEq, Repr

inductive Ev
  | report                 -- a sample enters the queue
  | recv (spill : Bool)    -- Run handles one queued sample
  | tick (spill : Bool)    -- the flush branch of the select
  | sinkBreaks             -- from now on the sink rejects every write
  | cancel
  | seeCancel
  | drain (spill : Bool)   -- one iteration of the drain loop; empty queue → return (deferred flush, close)
  deriving DecidableEq, Repr

structure St where
  q : Nat := 0
  /-- jsonlines: encoded lines in the jsoniter stream's buffer -/
  sbuf : Nat := 0
  /-- lines in the bufio.Writer -/
  bbuf : Nat := 0
  /-- the bufio.Writer's sticky error -/
  werr : Bool := false
  /-- the jsoniter stream's sticky `Error` -/
  serr : Bool := false
  sinkFails : Bool := false
  written : Nat := 0
  failed : Bool := false
  checkedAfterFail : Bool := false
  failedInLastFlush : Bool := false
  cancelled : Bool := false
  phase : Phase := .running
  closes : Nat := 0
  writeAfterClose : Bool := false
  /-- `Run` returned a non-nil error -/
  err : Bool := false
  flushes : Nat := 0
  prevFlushes : Nat := 0
  deriving DecidableEq, Repr

/-- `bufio.Writer.Flush`: (state, succeeded) -/
def bflush (st : St) : St × Bool :=
  if st.werr then (st, false)
  else if st.bbuf = 0 then (st, true)
  else if st.sinkFails then
    ({ st with werr := true, failed := true, writeAfterClose := st.writeAfterClose || decide (st.closes > 0) }, false)
  else
    ({ st with written := st.written + st.bbuf, bbuf := 0, flushes := st.flushes + 1,
               writeAfterClose := st.writeAfterClose || decide (st.closes > 0) }, true)

/-- `bufio.Writer.Write` of `k` lines; `spill`: they do not fit, what is buffered is flushed first -/
def bwrite (st : St) (k : Nat) (spill : Bool) : St × Bool :=
  if st.werr then (st, false)
  else if spill && decide (st.bbuf > 0) then
    let r := bflush st
    if r.2 then ({ r.1 with bbuf := k }, true) else r
  else ({ st with bbuf := st.bbuf + k }, true)

/-- an operation whose error `Run` looks at has completed -/
def checked (st : St) : St := { st with checkedAfterFail := st.checkedAfterFail || st.failed }

/-- `jsonEncoder.Flush`: `err := e.Stream.Flush(); _ = e.buf.Flush(); return err` — (state, succeeded) -/
def eflush (st : St) (spill : Bool) : St × Bool :=
  let r : St × Bool :=
    if st.serr then (st, false)
    else
      let w := bwrite st st.sbuf spill
      if w.2 then ({ w.1 with sbuf := 0 }, true) else ({ w.1 with serr := true }, false)
  ((bflush (checked r.1)).1, r.2)

/-- the deferred functions, then the return -/
def ret (kind : Kind) (st : St) (err : Bool) (spill : Bool) : St :=
  match kind with
  | .phout =>
    -- `_ = a.writer.Flush(); _ = a.file.Close()`
    let f := (bflush st).1
    { f with failedInLastFlush := !st.failed && f.failed, closes := f.closes + 1, phase := .returned, err := err }
  | .jsonlines =>
    -- `flushErr := encoder.Flush(); err = Join(err, flushErr)`, `sink.Close()`
    -- the stream's flush is looked at; the bufio flush after it is not
    let r := eflush st spill
    { r.1 with failedInLastFlush := !st.failed && r.1.failed && r.2, closes := r.1.closes + 1, phase := .returned,
               err := err || !r.2 }

/-- `handle` / `handleSample`: (state, succeeded) -/
def handle (kind : Kind) (st : St) (spill : Bool) : St × Bool :=
  match kind with
  | .phout =>
    let w := bwrite { st with q := st.q - 1 } 1 spill
    (checked w.1, w.2)
  | .jsonlines =>
    -- `e.WriteVal(s); e.WriteRaw("\n"); return e.Error`
    ({ st with q := st.q - 1, sbuf := st.sbuf + 1 }, !st.serr)

def step (kind : Kind) (st : St) : Ev → St
  | .report => { st with q := st.q + 1 }
  | .sinkBreaks => { st with sinkFails := true }
  | .cancel => { st with cancelled := true }
  | .recv spill =>
    match st.phase with
    | .running =>
      if st.q = 0 then st else
      let h := handle kind st spill
      if h.2 then h.1 else ret kind h.1 true spill
    | _ => st
  | .tick spill =>
    match st.phase with
    | .running =>
      match kind with
      | .phout => (bflush st).1            -- `_ = a.writer.Flush()`
      | .jsonlines =>
        if st.prevFlushes = st.flushes then
          let r := eflush st spill
          if r.2 then { r.1 with prevFlushes := r.1.flushes } else ret kind r.1 true spill
        else { st with prevFlushes := st.flushes }
    | _ => st
  | .seeCancel =>
    match st.phase with
    | .running => if st.cancelled then { st with phase := .draining } else st
    | _ => st
  | .drain spill =>
    match st.phase with
    | .draining =>
      if st.q = 0 then ret kind st false spill
      else
        let h := handle kind st spill
        if h.2 then h.1 else ret kind h.1 true spill
    | _ => st

def run (kind : Kind) (st : St) : List Ev → St
  | [] => st
  | e :: es => run kind (step kind st e) es

end Pandora.Model.C06SinkFail
