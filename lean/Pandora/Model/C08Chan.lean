/-
C08 — per-kind facts about the provider's ammo channel and its reaction to a cancelled context.

  chanCap           capacity of the channel the constructor creates
                      components/providers/http/provider.go NewProvider        make(chan decoders.DecodedAmmo)        0
                      components/providers/grpc/provider.go NewProvider         make(chan *Ammo, 128)
                      components/providers/scenario/{http,grpc}/provider.go     make(chan …, defaultSinkSize)          100
                      core/provider/queue.go NewAmmoQueue                       make(chan core.Ammo, AmmoQueueSize)    8192 (default)
  answersCanceled   what the `case <-ctx.Done()` branch of the send `select` returns: ctx.Err() (http runFullScan /
                    runPreloaded, scenario Run) or nil (grpcjson start, DecodeProvider.Run)
  ctxTop            the loop reads ctx.Err() before producing the next ammo (http, scenario) — the others notice a
                    cancellation only in the `select`

The same table is regenerated from the source (`Pandora.Gen.ProvLoops`) and compared in `Pandora.Bridge.ProvLoops`.
-/
import Pandora.Model.C08

/-- the translator opens the namespaces `Pandora` and `Pandora.Go` in every regenerated file; `Pandora.Go.Real`
(which declares them) imports Mathlib and cannot be linked into a `lean_exe`: core-only anchor -/
def Pandora.Go.c08Anchor : Unit := ()

namespace Pandora.Model.C08

def Kind.chanCap : Kind → Nat
  | .uri | .uripost | .raw | .jsonLines | .jsonArray => 0
  | .grpcJson => 128
  | .httpScenario | .grpcScenario => 100
  | .genericJson => 8192

def Kind.answersCanceled : Kind → Bool
  | .grpcJson | .genericJson => false
  | _ => true

def Kind.ctxTop : Kind → Bool
  | .grpcJson | .genericJson => false
  | _ => true

end Pandora.Model.C08
