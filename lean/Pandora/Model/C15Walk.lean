/-
C15 (round 3) — vocabulary for the code that /verif/gen (area `c15walk`) re-extracts from the CURRENT source of
`lib/mp/map.go`, `scenario/templater`, `scenario/provider.go`; core Lean, executable.

1. the body of the segment loop of `mp.GetMapValue` AS CODE (`WOp`, `WalkCode`) and an interpreter (`walkBy`):

       for i, segment := range segments {
           segment = strings.TrimSpace(segment)                                   -- trim
           curSegment.WriteByte('.')                                              -- keyByte '.'
           curSegment.WriteString(segment)                                        -- keySeg
           if strings.Contains(segment, "[") && strings.HasSuffix(segment, "]") { -- needle '[' / suffix ']'
               openBraceIdx := strings.Index(segment, "[")                        -- openIdx '['
               indexStr := strings.ToLower(strings.TrimSpace(segment[openBraceIdx+1 : len(segment)-1]))
                                                                                  -- indexStr lower trim 1 1
               segment = segment[:openBraceIdx]                                   -- cutName
               pathVal, ok := current[segment]; if !ok { return nil, ErrSegmentNotFound }          -- lookup
               sliceElement, err := extractFromSlice(pathVal, indexStr, curSegment.String(), iter) -- extract .builder
               if err != nil { return nil, … }
               current, ok = sliceElement.(map[string]any)                        -- descend
               if !ok { if i != len(segments)-1 { return nil, … }; return sliceElement, nil }
           } else {
               pathVal, ok := current[segment]; if !ok { return nil, … }          -- lookup
               current, ok = pathVal.(map[string]any); if !ok { … }               -- descend
           }
       }

   The interpreter keeps Go's state explicitly (the variable `segment` is overwritten by `cutName`, the key builder
   grows over the iterations, the slices have their bounds checks), so code that builds the counter key from the bare
   field name, forgets to trim or to lower-case, or cuts at other bounds runs in the same semantics and shows its
   behaviour (examples in `Props/C15.lean`).

2. `calcIndex` AS CODE (`COp`) and its interpreter (`runCOps`): the order of the guards and of the keyword branches.
-/
import Pandora.Model.C15

namespace Pandora.Model.C15

/-! ## 1. the segment loop of `GetMapValue` -/

/-- what is handed to `extractFromSlice` as the key of the `[next]` counter -/
inductive KeyArg where
  | builder     -- `curSegment.String()`: the whole path so far
  | segment     -- the variable `segment` as it stands (after `cutName`: the bare field name)
deriving Repr, DecidableEq

inductive WOp where
  | trim                                        -- `segment = strings.TrimSpace(segment)`
  | keyByte (c : Char)                          -- `curSegment.WriteByte(c)`
  | keySeg                                      -- `curSegment.WriteString(segment)`
  | openIdx (c : Char)                          -- `openBraceIdx := strings.Index(segment, c)`
  | indexStr (lower trim : Bool) (lo hi : Int)  -- `indexStr := f(segment[openBraceIdx+lo : len(segment)-hi])`
  | cutName                                     -- `segment = segment[:openBraceIdx]`
  | lookup                                      -- `pathVal, ok := current[segment]; if !ok { return nil, err }`
  | extract (key : KeyArg)                      -- `x, err := extractFromSlice(pathVal, indexStr, key, iter); if err != nil { return }`
  | descend                                     -- `current, ok = x.(map[string]any); if !ok { not last → err; return x }`
deriving Repr, DecidableEq

/-- the loop body: statements before the `if`, the two characters of its condition, its two branches -/
structure WalkCode where
  head : List WOp
  needle : Char
  suffix : Char
  indexed : List WOp
  plain : List WOp
deriving Repr, DecidableEq

structure WState where
  seg : List Char
  key : String
  cur : List (String × Val)
  it : Iter
  openI : Int := 0
  idx : String := ""
  val : Option Val := none

/-- result of the statements of one iteration: they go on, the loop continues with a new current map, the function
returns, or the code leaves the model (a statement uses a variable nothing has assigned) -/
inductive WFlow where
  | go (s : WState)
  | next (cur : List (String × Val)) (key : String) (it : Iter)
  | ret (o : Outcome (Val × Iter))
  | undef

def runWOps (id : Nat) (isLast : Bool) : List WOp → WState → WFlow
  | [], s => .go s
  | .trim :: r, s => runWOps id isLast r { s with seg := trimSpace s.seg }
  | .keyByte c :: r, s => runWOps id isLast r { s with key := s.key ++ String.singleton c }
  | .keySeg :: r, s => runWOps id isLast r { s with key := s.key ++ String.ofList s.seg }
  | .openIdx c :: r, s => runWOps id isLast r { s with openI := indexOfC c s.seg }
  | .indexStr lower trim lo hi :: r, s =>
    (match goSlice s.seg (s.openI + lo) ((s.seg.length : Int) - hi) with
     | none => .ret (.panic "slice")
     | some inner =>
       let t := String.ofList (if trim then trimSpace inner else inner)
       runWOps id isLast r { s with idx := if lower then lowerS t else t })
  | .cutName :: r, s =>
    (match goSlice s.seg 0 s.openI with
     | none => .ret (.panic "slice")
     | some n => runWOps id isLast r { s with seg := n })
  | .lookup :: r, s =>
    (match getKey (String.ofList s.seg) s.cur with
     | none => .ret (.err "segment-not-found")
     | some v => runWOps id isLast r { s with val := some v })
  | .extract k :: r, s =>
    (match s.val with
     | none => .undef
     | some (.list xs) =>
       let key := match k with | .builder => s.key | .segment => String.ofList s.seg
       (match calcIndex s.idx key xs.length id s.it with
        | .err e => .ret (.err e)
        | .panic p => .ret (.panic p)
        | .ok (i, it') =>
          match xs[i]? with
          | none => .ret (.panic "index")
          | some v => runWOps id isLast r { s with val := some v, it := it' })
     | some _ => .ret (.err "invalid-type"))
  | .descend :: _, s =>
    (match s.val with
     | none => .undef
     | some (.map m) => .next m s.key s.it
     | some v => if isLast then .ret (.ok (v, s.it)) else .ret (.err "not-last-segment"))

/-- one iteration of the loop -/
def walkIter (code : WalkCode) (id : Nat) (isLast : Bool) (seg0 : String) (cur : List (String × Val)) (key : String)
    (it : Iter) : WFlow :=
  match runWOps id isLast code.head { seg := seg0.toList, key, cur, it } with
  | .go s =>
    (match runWOps id isLast (if s.seg.contains code.needle && s.seg.getLast? == some code.suffix then code.indexed else code.plain) s with
     | .go _ => .undef      -- a branch that neither continues the loop nor returns
     | f => f)
  | f => f

/-- `GetMapValue`'s loop, with the code of its body as a parameter; `none` = the code left the model -/
def walkBy (code : WalkCode) (id : Nat) : List String → List (String × Val) → String → Iter → Option (Outcome (Val × Iter))
  | [], cur, _, it => some (.ok (.map cur, it))
  | seg0 :: rest, cur, key, it =>
    match walkIter code id rest.isEmpty seg0 cur key it with
    | .next cur' key' it' => walkBy code id rest cur' key' it'
    | .ret o => some o
    | .go _ => none
    | .undef => none

/-- the loop body as it is in the repository (what `Gen.C15Walk.walkCode` must be) -/
def walkCode : WalkCode where
  head := [.trim, .keyByte '.', .keySeg]
  needle := '['
  suffix := ']'
  indexed := [.openIdx '[', .indexStr true true 1 1, .cutName, .lookup, .extract .builder, .descend]
  plain := [.lookup, .descend]

/-! ## 2. `calcIndex` as code -/

inductive COp where
  | atoi                              -- `index, err := strconv.Atoi(indexStr)`
  | refuseBad (kws : List String)     -- `if err != nil && indexStr != k1 && … { return 0, err }`
  | refuseEmpty                       -- `if length <= 0 { return 0, err }`
  | numeric (kws : List String)       -- `if indexStr != k1 && … { <numeric branch>; return index }`
  | last (kw : String)                -- `if indexStr == kw { return length - 1 }`
  | rand (kw : String)                -- `if indexStr == kw { return iter.Rand(length) }`
  | next                              -- `index = iter.Next(segment); <wrap>; return index`
deriving Repr, DecidableEq

/-- the numeric branch (regenerated separately: `Gen.C15Flow.idxNumeric`) -/
def numericIdx (i : Int) (len : Nat) : Int :=
  if 0 ≤ i ∧ i < len then i
  else
    let r := Int.tmod i len
    if r < 0 then r + len else r

/-- `calcIndex` with its statements as a parameter. The result is an `Int`: code that takes the `[last]` branch before
the empty-list guard returns −1. `num` = the result of `Atoi` once it has run. Falling off the end: `none`. -/
def runCOps (indexStr seg : String) (len id : Nat) : List COp → Option (Option Int) → Iter → Option (Outcome (Int × Iter))
  | [], _, _ => none
  | .atoi :: r, _, it => runCOps indexStr seg len id r (some (atoi indexStr.toList)) it
  | .refuseBad kws :: r, num, it =>
    (match num with
     | none => none
     | some n => if n.isNone && !kws.contains indexStr then some (.err "bad-index") else runCOps indexStr seg len id r num it)
  | .refuseEmpty :: r, num, it => if len == 0 then some (.err "empty") else runCOps indexStr seg len id r num it
  | .numeric kws :: r, num, it =>
    (match num with
     | none => none
     | some n =>
       if !kws.contains indexStr then
         -- Go's `index` is 0 when `Atoi` failed; a zero divisor panics
         if len == 0 then some (.panic "div0") else some (.ok (numericIdx (n.getD 0) len, it))
       else runCOps indexStr seg len id r num it)
  | .last kw :: r, num, it =>
    if indexStr == kw then some (.ok ((len : Int) - 1, it)) else runCOps indexStr seg len id r num it
  | .rand kw :: r, num, it =>
    if indexStr == kw then
      (if len == 0 then some (.panic "intn") else let p := it.rand len; some (.ok ((p.1 : Int), p.2)))
    else runCOps indexStr seg len id r num it
  | .next :: _, _, it =>
    let p := it.next id seg
    if len == 0 then some (.panic "div0") else
    some (.ok (((if p.1 ≥ len then p.1 % len else p.1 : Nat) : Int), p.2))

/-- `calcIndex` as it is in the repository -/
def calcCode : List COp :=
  [.atoi, .refuseBad ["next", "rand", "last"], .refuseEmpty, .numeric ["next", "rand", "last"], .last "last", .rand "rand", .next]

end Pandora.Model.C15
