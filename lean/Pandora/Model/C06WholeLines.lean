/-
C06 (xiii, round 6) — what `phoutAggregator.handle` hands to its destination, at the level of bytes:
`bufio.Writer.Write` (Go 1.23 `bufio/bufio.go`) and the repaired `handle` (89739df).

    func (b *Writer) Write(p []byte) (nn int, err error) {
        for len(p) > b.Available() && b.err == nil {
            if b.Buffered() == 0 { n, b.err = b.wr.Write(p)        // large write, empty buffer: p goes out directly
            } else { n = copy(b.buf[b.n:], p); b.n += n; b.Flush() } // fill the buffer, write it: p is SPLIT
            nn += n; p = p[n:] }
        n := copy(b.buf[b.n:], p); b.n += n; … }

After a "fill" iteration the buffer is empty, so the loop runs at most twice; `bufWrite` is that loop unrolled.
`handle`, repaired: `if a.writer.Available() < len(a.buf) { _ = a.writer.Flush() }; a.writer.Write(a.buf)`;
before the repair: `a.writer.Write(a.buf)` alone. `W.writes` is the list of `Write` calls the destination saw
(for the standard output each of them is one write(2) on a descriptor shared with the other pools' aggregators).
Sink writes succeed (the failing sink is `Model.C06SinkFail`).
-/
import Pandora.Model.C06Phout

namespace Pandora.Model.C06WholeLines
open Pandora.Model.Phout (Bytes)

structure W where
  buf : Bytes := []
  writes : List Bytes := []
  deriving Repr, DecidableEq

/-- `Flush()` -/
def W.flush (w : W) : W := if w.buf.isEmpty then w else { buf := [], writes := w.writes ++ [w.buf] }

/-- `Write(p)` on a writer of size `N` -/
def bufWrite (N : Nat) (w : W) (p : Bytes) : W :=
  if p.length ≤ N - w.buf.length then { w with buf := w.buf ++ p }
  else if w.buf.isEmpty then { w with writes := w.writes ++ [p] }
  else
    let k := N - w.buf.length
    let w1 : W := { buf := [], writes := w.writes ++ [w.buf ++ p.take k] }
    let p1 := p.drop k
    if p1.length ≤ N then { w1 with buf := p1 } else { w1 with writes := w1.writes ++ [p1] }

/-- `handle` for one encoded line (terminator included) -/
def handle (repaired : Bool) (N : Nat) (w : W) (line : Bytes) : W :=
  let w1 := if repaired && decide (N - w.buf.length < line.length) then w.flush else w
  bufWrite N w1 line

def runLines (repaired : Bool) (N : Nat) : W → List Bytes → W
  | w, [] => w
  | w, l :: ls => runLines repaired N (handle repaired N w l) ls

end Pandora.Model.C06WholeLines
