/-
C04, round 3 — further parts of the code modelled (core Lean only, executable):

* the TIMER of a Waiter (`w.timer`, lazily created, re-armed with `Reset`): the theorems of rounds 1-2 assume "a timer does not fire
  early".  That is a property of a timer whose channel is EMPTY when it is armed; pandora's module is `go 1.21`, where
  `Timer.Reset` does not drain the channel, so a tick left over from an earlier arming would be received at once.  `TimerSt` tracks
  whether such a tick can exist; `waitT` is `Wait` with that state (regenerated counterpart: `Gen.Waiter.WaitT`).
* the loop of `instance.Run` with the subtraction as a parameter (`runLoopWith`): `Time.Sub` saturates.
* the discarded sample as the phout aggregator prints it (`phoutColumns`): which COLUMN of a result line carries the net code.
-/
import Pandora.Model.C04

namespace Pandora.Model.C04
open Pandora.Go.C04

/-! ### the timer of a Waiter -/

/-- what matters of `w.timer *time.Timer` (channel of capacity 1, `go 1.21` semantics: `Reset` stops the timer but leaves a tick that
was already delivered in the channel) -/
structure TimerSt where
  /-- `w.timer != nil` -/
  created : Bool := false
  /-- the last arming has not been received from `w.timer.C`: its tick is (or may still get) in the channel -/
  unconsumed : Bool := false
  /-- when the timer was armed last, the channel could hold the tick of an EARLIER arming -/
  staleAtArm : Bool := false
deriving Repr, DecidableEq, Inhabited

/-- `w.timer = time.NewTimer(d)`: a new timer, its channel is empty -/
def TimerSt.newTimer : TimerSt := { created := true, unconsumed := true, staleAtArm := false }

/-- `w.timer.Reset(d)`: re-armed; a tick of the previous arming that was not received stays in the channel -/
def TimerSt.reset (tm : TimerSt) : TimerSt := { created := true, unconsumed := true, staleAtArm := tm.unconsumed }

/-- `if w.timer == nil { w.timer = time.NewTimer(d) } else { w.timer.Reset(d) }` -/
def TimerSt.arm (tm : TimerSt) : TimerSt := if tm.created then tm.reset else TimerSt.newTimer

/-- `<-w.timer.C` received: one tick leaves the channel. If the channel could hold a stale tick when the timer was armed, the tick of
the current arming may still arrive afterwards. -/
def TimerSt.recv (tm : TimerSt) : TimerSt := { tm with unconsumed := tm.staleAtArm }

/-- the next arming would find a channel that may hold a tick -/
def TimerSt.stale (tm : TimerSt) : Bool := tm.created && tm.unconsumed

/-- `Waiter.Wait` with the timer, statement by statement (`waitV` plus the three statements that touch `w.timer`) -/
def waitT (v : Variant) (w : Waiter) (tm : TimerSt) (e : Env) : Waiter × TimerSt × Bool :=
  if e.ctxDone then ({ w with overdue := 0 }, tm, false) else
  match e.tok with
  | none => ({ w with overdue := 0 }, tm, false)
  | some next =>
    let waitFor := timeSub next w.lastNow
    if waitFor ≤ 0 then
      match v with
      | .cached => ({ w with overdue := 0 - waitFor }, tm, true)
      | .fresh => ({ lastNow := e.now, overdue := timeSub e.now next }, tm, true)
    else
      let w : Waiter := { w with lastNow := e.now }
      let waitFor := timeSub next w.lastNow
      if waitFor ≤ 0 then ({ w with overdue := 0 - waitFor }, tm, true)
      else
        let w : Waiter := { w with overdue := 0 }
        let tm := tm.arm
        if e.timerWins then (w, tm.recv, true) else (w, tm, false)

/-- the timer after a call of `Wait` that took the given path -/
def timerAfter (tm : TimerSt) (r : Res) : TimerSt :=
  match r.path with
  | .timer => tm.arm.recv
  | .timerCancel => tm.arm
  | _ => tm

/-! ### the loop with the subtraction as a parameter -/

/-- `runLoop` with `Time.Sub` as a parameter (the same statements; `waitVWith` instead of `waitV`) -/
def runLoopWith (sub : Int → Int → Int) (v : Variant) (discardOverflow : Bool) : Waiter → List Iter → List Ev × Exit
  | _, [] => ([], .historyEnd)
  | w, it :: rest =>
    if it.finished then ([], .loopEnd) else
    if !it.ammoOk then ([], .outOfAmmo) else
    let r := waitVWith sub v w it.env
    if !r.ok then runLoopWith sub v discardOverflow r.w rest
    else
      let ev := if fires discardOverflow (isSlowDown r.w it.ctxDoneSlow) then Ev.shoot it
                else Ev.discard it discardedShootSample
      let (evs, x) := runLoopWith sub v discardOverflow r.w rest
      (ev :: evs, x)

/-! ### the discarded sample in a phout line

`netsample.Sample` keeps its numbers in `fields [fieldsNum]int`, indexed by the `key…` constants; `appendPhout` prints the time stamp,
the tags (with `#id` when ids are printed) and then every field in index order, TAB-separated. -/

/-- number of numeric fields (`fieldsNum`) -/
def phFieldsNum : Nat := 10
/-- index of the net code (`keyErrno`) -/
def phKeyErrno : Nat := 8
/-- index of the protocol code (`keyProtoCode`) -/
def phKeyProtoCode : Nat := 9

structure PhSample where
  tags : String
  id : Nat := 0
  fields : List Int
deriving Repr, DecidableEq

/-- `&Sample{timeStamp: …, tags: tag}`: all fields zero -/
def PhSample.new (tag : String) : PhSample := { tags := tag, fields := List.replicate phFieldsNum 0 }

/-- `(*Sample).set(k, v)`: `s.fields[k] = v` -/
def PhSample.set (s : PhSample) (k : Nat) (v : Int) : PhSample := { s with fields := s.fields.set k v }

/-- `netsample.DiscardedShootSample()` with all its fields: tags "discarded", `SetUserNet(777)` = `set(keyErrno, 777)` -/
def discardedPhSample : PhSample := (PhSample.new discardTag).set phKeyErrno discardNetCode

/-- the TAB-separated columns `appendPhout(s, nil, id)` prints (`ts` = the rendered time stamp) -/
def phoutColumns (ts : String) (s : PhSample) (id : Bool) : List String :=
  [ts, if id then s.tags ++ "#" ++ toString s.id else s.tags] ++ s.fields.map toString

/-- the column of a phout line that carries the net code: time stamp, tags, then the fields in index order -/
def phoutNetColumn : Nat := 2 + phKeyErrno

end Pandora.Model.C04
