/-
C15 round 6 — concurrent FIRST use of one template slot (seed C15-r6-2): `getTemplate` of the templaters as regenerated
(`GetCode`: `load`; on a miss `parse, chk, store`; `ret`) executed one statement at a time by any number of instances
under any schedule, over a shared cache slot and a heap of template objects that are either parsed or not.

The real order creates the template object PARSED (`template.New(…).Parse(text)` returns it) and publishes it afterwards
(`Store`): an object reachable through the cache is always parsed. The order of the seeded change publishes an EMPTY
object first (`LoadOrStore(key, template.New(…))`) and parses it in place afterwards (`publishEmpty`, `parseShared`): a second
instance can return — and execute — the object in between ("incomplete or empty template").
The template text is valid (parsing succeeds): the property's clause is "a valid step is never reported as a template error".
-/
import Pandora.Model.C15Tmpl

namespace Pandora.Model.C15

inductive PubOp where
  | load            -- `tmpl, ok := cache.Load(key)`
  | branch          -- `if !ok {` : on a hit the statements up to `join` are skipped
  | parse           -- `tmpl, err = template.New(…).Parse(text)`: a NEW object, parsed
  | chk             -- `if err != nil { return nil, err }` (never taken: the text is valid)
  | store           -- `cache.Store(key, tmpl)`
  | join            -- `}`
  | ret             -- `return tmpl, nil`
  | publishEmpty    -- seeded: `tmpl, loaded = cache.LoadOrStore(key, template.New(…))`; `if !loaded {` follows as `branch`
  | parseShared     -- seeded: `tmpl.Parse(text)` on the object that is already in the cache
deriving Repr, DecidableEq

def ofGOp : GOp → PubOp
  | .load => .load
  | .parse => .parse
  | .chk => .chk
  | .store => .store
  | .ret => .ret

/-- the statement list of a `GetCode`: head, `if !ok {` miss `}`, tail -/
def ofGetCode (gc : GetCode) : List PubOp :=
  gc.head.map ofGOp ++ [.branch] ++ gc.miss.map ofGOp ++ [.join] ++ gc.tail.map ofGOp

structure PTh where
  code : List PubOp
  tmpl : Option Nat := none        -- the local `tmpl`: an object of the heap
  ok : Bool := false
  returned : Option (Option Nat) := none
  /-- the call returned an object that was NOT parsed at that moment (the caller's `Execute` fails on it) -/
  exposed : Bool := false
deriving Repr

structure PSys where
  heap : List Bool                 -- template objects: parsed?
  cache : Option Nat               -- the slot of the key
  ths : Nat → PTh

def PSys.init (code : List PubOp) : PSys := { heap := [], cache := none, ths := fun _ => { code } }

def setTh (f : Nat → PTh) (t : Nat) (x : PTh) : Nat → PTh := fun i => if i = t then x else f i

/-- one statement of instance `t` -/
def PSys.step (s : PSys) (t : Nat) : PSys :=
  let th := s.ths t
  match th.code with
  | [] => s
  | .load :: r => { s with ths := setTh s.ths t { th with code := r, tmpl := s.cache, ok := s.cache.isSome } }
  | .branch :: r =>
    let r' : List PubOp := if th.ok then (r.dropWhile (fun o => o != PubOp.join)).drop 1 else r
    { s with ths := setTh s.ths t { th with code := r' } }
  | .parse :: r => { s with heap := s.heap ++ [true], ths := setTh s.ths t { th with code := r, tmpl := some s.heap.length } }
  | .chk :: r => { s with ths := setTh s.ths t { th with code := r } }
  | .store :: r => { s with cache := th.tmpl, ths := setTh s.ths t { th with code := r } }
  | .join :: r => { s with ths := setTh s.ths t { th with code := r } }
  | .ret :: _ =>
    let ex : Bool := match th.tmpl with
      | some i => !(s.heap.getD i false)
      | none => true
    { s with ths := setTh s.ths t { th with code := [], returned := some th.tmpl, exposed := ex } }
  | .publishEmpty :: r =>
    (match s.cache with
     | some i => { s with ths := setTh s.ths t { th with code := r, tmpl := some i, ok := true } }
     | none => { s with heap := s.heap ++ [false], cache := some s.heap.length,
                        ths := setTh s.ths t { th with code := r, tmpl := some s.heap.length, ok := false } })
  | .parseShared :: r =>
    (match th.tmpl with
     | some i => { s with heap := s.heap.set i true, ths := setTh s.ths t { th with code := r } }
     | none => { s with ths := setTh s.ths t { th with code := r } })

def PSys.run (s : PSys) (sched : List Nat) : PSys := sched.foldl PSys.step s

/-- the order of the seeded change: publish an empty object, parse it in place when it was ours -/
def publishFirst : List PubOp := [.publishEmpty, .branch, .parseShared, .chk, .join, .ret]

end Pandora.Model.C15
