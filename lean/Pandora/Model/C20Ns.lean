/-
Core-only anchor: the translator `/verif/gen` opens the namespaces `Pandora` and `Pandora.Go` in every
regenerated file. `Pandora.Go.Real` (which declares them) imports Mathlib and cannot be linked into a
`lean_exe`; the C20 area (`Gen/GrpcGun.lean`) is regenerated core-only and imports this file instead.
-/
namespace Pandora.Go

/-- makes `open Pandora Pandora.Go` resolve without Mathlib -/
def c20NamespaceAnchor : Unit := ()

end Pandora.Go
