/-
C20 (round 6) — the grpc/json provider's reading loop over POOLED AMMO OBJECTS, core Lean only.

`components/providers/grpc/ammo.go`: an `Ammo` is tag, call, metadata, payload, an id and the flag `isInvalid`;
`Reset` assigns the whole struct (the flag is cleared), `Invalidate` sets the flag. The provider takes every object from a
`sync.Pool` (`p.Pool.Get()`): what `Get` returns is up to the pool — a new zero object, or ANY object released earlier
(by any instance, after any entry, valid or invalid) — so the pool is an ORACLE here: `pool k` is what the k-th `Get` of
the run returns, any object at all. `Model.C20Feed.scanPass` fixed the pooled object to "the previously delivered ammo"
and had no flag; this file has both, and `Proofs/C20R6.lean` proves that the oracle does not matter.
-/
import Pandora.Model.C20Feed

namespace Pandora.Model.C20

/-- a pooled `*ammo.Ammo`: the four fields and the invalid flag (`id` is assigned by `Acquire`, after delivery) -/
structure Obj where
  e : Entry
  invalid : Bool

def zeroObj : Obj := { e := zeroEntry, invalid := false }

/-- `(*Ammo).Reset(tag, call, metadata, payload)`: `*a = Ammo{tag, call, metadata, payload, 0, false}` -/
def Obj.reset (_o : Obj) (tag call : String) (md : List (String × String)) (payload : List (String × PVal)) : Obj :=
  { e := { tag := tag, call := call, md := md, payload := payload }, invalid := false }

/-- `(*Ammo).Invalidate()` -/
def Obj.invalidate (o : Obj) : Obj := { o with invalid := true }

inductive ActionO where
  | stop (s : Stop)
  | skip
  | deliver (o : Obj)

/-- the loop body for one line, on the object `Get` returned: `decodeAmmo` (a line that decodes: the object is reset
from a FRESH decoding of the line; one that does not: reset to nothing, error), then `Invalidate` under
continueonerror, then the chosen-cases filter on the object's tag -/
def actionO (cfg : ProvCfg) (got : Obj) : Raw → ActionO
  | .long => .stop .scan
  | .bad =>
    let a := got.reset "" "" [] []
    if cfg.coe then
      let a := a.invalidate
      if isChosen a.e.tag cfg.chosen then .deliver a else .skip
    else .stop .decode
  | .line l =>
    let fresh := unmarshalInto zeroEntry l
    let a := got.reset fresh.tag fresh.call fresh.md fresh.payload
    if isChosen a.e.tag cfg.chosen then .deliver a else .skip

/-- one pass; `g` = number of `Get`s so far, `n` = ammo delivered so far. Returns the objects delivered, the new `g`, the
new `n`, how the pass ended. (`Get` is evaluated after `Scan()` and the limit check, as an argument of `decodeAmmo`.) -/
def scanPassO (cfg : ProvCfg) (pool : Nat → Obj) : List Raw → Nat → Nat → List Obj × Nat × Nat × Stop
  | [], g, n => ([], g, n, .none)
  | r :: rs, g, n =>
    if isLong r then ([], g, n, .scan) else
    if cfg.limit != 0 && n ≥ cfg.limit then ([], g, n, .none) else
    match actionO cfg (pool g) r with
    | .stop s => ([], g + 1, n, s)
    | .skip => scanPassO cfg pool rs (g + 1) n
    | .deliver a =>
      let rest := scanPassO cfg pool rs (g + 1) (n + 1)
      (a :: rest.1, rest.2.1, rest.2.2.1, rest.2.2.2)

def runPassesO (cfg : ProvCfg) (pool : Nat → Obj) (raws : List Raw) : Nat → Nat → Nat → Nat → List Obj × Stop
  | 0, _, _, _ => ([], .none)
  | fuel + 1, passNum, g, n =>
    let p := scanPassO cfg pool raws g n
    if p.2.2.2 != .none then (p.1, p.2.2.2)
    else if cfg.limit != 0 && p.2.2.1 ≥ cfg.limit then (p.1, .none)
    else if cfg.passes != 0 && passNum + 1 ≥ cfg.passes then (p.1, .none)
    else if p.2.2.1 == 0 then (p.1, .noammo)
    else
      let rest := runPassesO cfg pool raws fuel (passNum + 1) p.2.1 p.2.2.1
      (p.1 ++ rest.1, rest.2)

/-- everything the provider puts on its sink when the pool behaves as `pool` says -/
def feedO (cfg : ProvCfg) (pool : Nat → Obj) (raws : List Raw) : List Obj × Stop :=
  runPassesO cfg pool raws (feedFuel cfg) 0 0 0

/-- `Gun.shoot` on a delivered object: an ammo flagged invalid is one failed sample (code 0) and no call, BEFORE the
method lookup; anything else is `shootEntry` of its four fields -/
def shootObj (tmo : Nat) (o : Obj) : Outcome :=
  if o.invalid then { calls := [], samples := [sampleText o.e.tag 0] } else shootEntry tmo o.e

/-- the pool the harness prepares with `dirty=<k>`: objects that carry a rich earlier entry (metadata, all payload
fields, a tag, a call), every other one flagged invalid -/
def dirtyObj (k : Nat) : Obj :=
  { e := { tag := "dirty" ++ toString k, call := "target.TargetService.Order",
           md := [("x-stale", "stale" ++ toString k), ("authorization", "Bearer stale")],
           payload := [("token", PVal.s "stale"), ("user_id", PVal.n "77"), ("item_id", PVal.n "7001")] },
    invalid := k % 2 == 1 }

end Pandora.Model.C20
