/-
C14 — preload on/off and chosencases: the http providers of `Pandora.Model.C08` over a file of tagged entries.
`lib/confutil/chosen_cases_filter.go IsChosenCase` is `isChosen`; the streaming path applies it in `fullScan`
(runFullScan: after Decoder.Scan, before the send), the preloaded path in `httpRun` (loadAmmo: after LoadAmmo,
before the cyclic replay).
-/
import Pandora.Model.C08

namespace Pandora.Model.C14
open Pandora.Model.C08

structure Entry where
  id : Nat          -- position in the file
  tag : String
  deriving DecidableEq, Repr, Inhabited

/-- confutil.IsChosenCase: no chosencases ⇒ everything is chosen -/
def isChosen (cases : List String) (e : Entry) : Bool :=
  if cases.length = 0 then true else cases.any (· == e.tag)

def mkFile (tags : List String) : List Entry :=
  (List.range tags.length).zipWith (fun i t => ⟨i, t⟩) tags

/-- fuel for a file from which nothing is chosen: `passes` complete scans (the streaming path ends after them;
with `passes = 0` it never ends) -/
def fuelNoMatch (passes n : Nat) : Nat := (passes + 1) * (n + 1) + 2

/-- `Provider.Run` of the http provider of format `k` over `file` with a chosen-predicate.  `none` = still
running when the fuel (enough for every run that ends) is used up. -/
def runWith {α : Type} (k : Kind) (preload : Bool) (file : List α) (chosen : α → Bool) (b : Bounds)
    (cancelAt : Option Nat) : Option (Outcome α) :=
  let f := (file.filter chosen).length
  if f = 0 then runFuel ⟨k, preload, b, cancelAt⟩ file chosen (fuelNoMatch b.passes file.length)
  else match target b.limit b.passes f cancelAt with
    | none => none
    | some t => runFuel ⟨k, preload, b, cancelAt⟩ file chosen (fuelFor t file.length f)

def run (k : Kind) (preload : Bool) (tags : List String) (cases : List String) (b : Bounds)
    (cancelAt : Option Nat) : Option (Outcome Entry) :=
  runWith k preload (mkFile tags) (isChosen cases) b cancelAt

end Pandora.Model.C14
