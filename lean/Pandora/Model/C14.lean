/-
C14 — preload on/off and chosencases: the http providers (components/providers/http) over a file of tagged entries.

Go sites mirrored (REPAIRED behaviour: c2aa5a1, 8ec6c57 and b8504d9 = fixes/C14-nomatch-no-ammo.diff are in /repo):

  lib/confutil/chosen_cases_filter.go IsChosenCase                  `isChosen`
  components/providers/http/decoders/{uri,uripost,raw}.go Scan      `Model.C08.scanStream .eofCheck`   (shared machine)
  components/providers/http/decoders/jsonline.go Scan / scanAmmos   `Model.C08.scanStream .topCheck` / `Model.C08.scanArr`
  components/providers/http/decoders/decoder.go PassNum             `passNum` argument of `fullScan`
  components/providers/http/decoders/decoder.go LoadAmmo            `Model.C08.loadAmmo`
  components/providers/http/provider.go NewProvider                 the decoder gets Limit = 0 (`scan ⟨0, passes⟩`)
  components/providers/http/provider/provider.go runFullScan        `fullScan`   — filter AFTER Decoder.Scan, own delivered-counter,
                                                                     "a complete pass delivered nothing ⇒ ErrNoAmmo"
  components/providers/http/provider/provider.go loadAmmo           the `filter chosen` in `httpRun` — filter BEFORE the cyclic replay;
                                                                     `loadFail` — what it makes of an error of LoadAmmo (cf3451c)
  components/providers/http/provider/provider.go runPreloaded       `Model.C08.runPreloaded`
  components/providers/http/provider/provider.go Run                `httpRun` (sentinels of the preloaded path ↦ nil; sink closed)

Tie to the source: `Pandora.Bridge.C14` proves that `isChosen`, one iteration of `fullScan` and of
`Model.C08.preloaded`, the filter of the preloaded path, `scanArr`, the sentinel mapping, the deferred close and the
decoder's Limit are the definitions that `/verif/gen -area chosencases` regenerates from these Go sites into
`Pandora/Gen/ChosenCases.lean` on every check run.

The decoder machines, `LoadAmmo` and the cyclic replay loop are the ones of `Pandora.Model.C08` (imported, not
edited); what C14 adds is the chosen-case filter at the place where each path applies it, `runFullScan` with the
no-ammo ending, and the two earlier revisions of the code (`Orig`, `Head`) that the counterexample theorems refute.

Cancellation: `cancelAt = some c` = the context is cancelled as soon as `c` ammo have been delivered (that is how
the harness cuts unbounded runs), see Model/C08; `some 0` = cancelled before `Run` is called (`loadSeesCancel`).  Loops carry fuel; `none` = not finished within the fuel.
-/
import Pandora.Model.C08

namespace Pandora.Model.C14
open Pandora.Model.C08

deriving instance DecidableEq for Pandora.Model.C08.Outcome

structure Entry where
  id : Nat          -- position in the file
  tag : String
  deriving DecidableEq, Repr, Inhabited

/-- confutil.IsChosenCase: no chosencases ⇒ everything is chosen -/
def isChosen (cases : List String) (e : Entry) : Bool :=
  if cases.length = 0 then true else cases.any (· == e.tag)

def mkFile (tags : List String) : List Entry :=
  (List.range tags.length).zipWith (fun i t => ⟨i, t⟩) tags

/-- the four ammo formats of the http provider; http/json files come in two shapes -/
inductive Fmt where
  | uri | uripost | raw | jsonLines | jsonArray
  deriving DecidableEq, Repr, Inhabited

/-- `NewProvider` fails for http/json on a file without any JSON token (decoders.isArray: EOF), in both modes;
every other file of entries is accepted. -/
def constructs (k : Fmt) (n : Nat) : Bool := !(k == .jsonLines && n == 0)

/-- What one iteration of a provider loop does — the vocabulary of the loop bodies that `/verif/gen` (area
"chosencases") regenerates from provider.go into `Gen/ChosenCases.lean`:
`ret r` the iteration ends `Run` with `r`; `offer i s` it reaches `select { case sink <- file[i]: … continue in s;
case <-ctx.Done(): … }`; `tau s` it ends without a send (a filtered-out ammo). -/
inductive Act (σ : Type) where
  | ret (r : RunRes)
  | offer (i : Nat) (s : σ)
  | tau (s : σ)
  deriving Repr

/-! ## runFullScan (streaming path) -/

/-- `runFullScan` after 8ec6c57 + b8504d9 (C14-nomatch-no-ammo): `out.length` is its `ammoNum` (delivered ammo),
`passNum s` is `Decoder.PassNum()`.  The filter is applied to what `Scan` returned, i.e. after the decoder has
counted the entry. -/
def fullScan {σ α : Type} (scan : σ → ScanRes × σ) (passNum : σ → Nat) (file : List α) (chosen : α → Bool)
    (limit : Nat) (cancelAt : Option Nat) : Nat → σ → List α → Option (List α × RunRes)
  | 0, _, _ => none
  | fuel + 1, s, out =>
    if cancelled cancelAt out.length then some (out, .canceled)
    else if limit ≠ 0 ∧ limit ≤ out.length then some (out, .nil)
    else if out.length = 0 ∧ 0 < passNum s then some (out, .errNoAmmo)
    else match scan s with
      | (.ammo i, s') =>
        match file[i]? with
        | some a =>
          if chosen a then fullScan scan passNum file chosen limit cancelAt fuel s' (out ++ [a])
          else fullScan scan passNum file chosen limit cancelAt fuel s' out
        | none => some (out, .errOther)
      | (.errPass, _) => if out.length = 0 then some (out, .errNoAmmo) else some (out, .nil)
      | (.errLimit, _) => some (out, .nil)
      | (.errNoAmmo, _) => some (out, .errNoAmmo)
      | (.unexpected, _) => some (out, .errOther)

/-- `Provider.loadAmmo` when `Decoder.LoadAmmo` failed with an error of class `e` (`e ≠ .nil`) while the context is
(`c`) / is not cancelled (/repo cf3451c): a cancel that ended the load is handed on as the context's own error
(context.Canceled itself — what runFullScan and runPreloaded return for a cancel, too); every other error is wrapped
with `%w` ("cant LoadAmmo, err: …"), so `errors.Is` still finds in it what it found in the decoder's error.  In
classes of errors (`RunRes` = what errors.Is sees, which is what the Spec looks at) both cases hand the class on:
`loadFail c e = e` (`loadFail_id`); nothing has been delivered and nothing will be.  The regenerated error branch of
loadAmmo is tied to this in `Bridge.C14.loadFail_source`. -/
def loadFail (c : Bool) (e : RunRes) : RunRes :=
  if c = true ∧ e = .canceled then .canceled else e

@[simp] theorem loadFail_id (c : Bool) (e : RunRes) : loadFail c e = e := by
  unfold loadFail; split
  · next h => exact h.2.symm
  · rfl

/-- `Provider.Run`: `defer close(p.Sink)` on every path.  Preload: LoadAmmo (whole file; an error of it ends Run with
`loadFail` — while it runs nothing has been delivered, so the context is cancelled iff `cancelled cancelAt 0`), filter,
cyclic replay, sentinels ↦ nil.  Streaming: `fullScan` over a decoder constructed with Limit = 0. -/
def httpRun {σ α : Type} (scan : Bounds → σ → ScanRes × σ) (passNum : σ → Nat) (init : σ) (file : List α)
    (chosen : α → Bool) (preload : Bool) (b : Bounds) (cancelAt : Option Nat) (fuel : Nat) : Option (Outcome α) :=
  if preload then
    match loadAmmo scan file fuel init [] with
    | none => none
    | some (.error e) => some ⟨[], loadFail (cancelled cancelAt 0) e, true⟩
    | some (.ok ammos) =>
      match runPreloaded (ammos.filter chosen) b cancelAt fuel with
      | none => none
      | some (out, e) => some ⟨out, mapSentinel e, true⟩
  else
    match fullScan (scan ⟨0, b.passes⟩) passNum file chosen b.limit cancelAt fuel init [] with
    | none => none
    | some (out, e) => some ⟨out, e, true⟩

/-- the decoders whose `Scan` looks at the context before every line it reads (uri.go, uripost.go, raw.go:
`if ctx.Err() != nil { return nil, ctx.Err() }` in the reading loop); the http/json decoder never does -/
def scanChecksCtx : Fmt → Bool
  | .uri | .uripost | .raw => true
  | .jsonLines | .jsonArray => false

/-- a context that is ALREADY cancelled when `Run` is called (`cancelAt = some 0`; while `LoadAmmo` runs nothing has
been delivered, so this is the only way the loading pass can see a cancelled context): `LoadAmmo` of a decoder that
looks at the context fails with context.Canceled before anything is loaded, and `Provider.loadAmmo` hands that on as
`loadFail true .canceled` = context.Canceled -/
def loadSeesCancel (k : Fmt) (preload : Bool) (cancelAt : Option Nat) : Bool :=
  preload && scanChecksCtx k && cancelled cancelAt 0

def runFuel {α : Type} (k : Fmt) (preload : Bool) (file : List α) (chosen : α → Bool) (b : Bounds)
    (cancelAt : Option Nat) (fuel : Nat) : Option (Outcome α) :=
  if loadSeesCancel k preload cancelAt then some ⟨[], loadFail true .canceled, true⟩ else
  match k with
  | .uri | .uripost | .raw =>
    httpRun (fun b => scanStream .eofCheck b file.length) (·.passNum) Dec.init file chosen preload b cancelAt fuel
  | .jsonLines =>
    httpRun (fun b => scanStream .topCheck b file.length) (·.passNum) Dec.init file chosen preload b cancelAt fuel
  | .jsonArray =>
    httpRun (fun b => scanArr b file.length) (·.passNum) ArrDec.init file chosen preload b cancelAt fuel

/-- fuel for a file from which nothing is chosen (or an empty file): one scan of the file, one more entry, the check -/
def fuelNoMatch (n : Nat) : Nat := n + 3

/-- fuel that is enough for every run that ends; `none` = the run has no bound and is never cancelled -/
def fuelOf (n f : Nat) (b : Bounds) (cancelAt : Option Nat) : Option Nat :=
  if f = 0 then some (fuelNoMatch n)
  else (target b.limit b.passes f cancelAt).map fun t => fuelFor t n f

/-- `Provider.Run` of the http provider of format `k` over `file` with a chosen-predicate. -/
def runWith {α : Type} (k : Fmt) (preload : Bool) (file : List α) (chosen : α → Bool) (b : Bounds)
    (cancelAt : Option Nat) : Option (Outcome α) :=
  match fuelOf file.length (file.filter chosen).length b cancelAt with
  | none => none
  | some fuel => runFuel k preload file chosen b cancelAt fuel

def run (k : Fmt) (preload : Bool) (tags : List String) (cases : List String) (b : Bounds)
    (cancelAt : Option Nat) : Option (Outcome Entry) :=
  runWith k preload (mkFile tags) (isChosen cases) b cancelAt

/-! ## earlier revisions of the same code (refuted by `C14_*_counterexample`) -/

/- /repo before c2aa5a1 and 8ec6c57: the streaming decoder is constructed with the configured Limit and counts
every entry it READS; the preloaded path returns its sentinels as errors. -/
namespace Orig

def fullScan {σ α : Type} (scan : σ → ScanRes × σ) (file : List α) (chosen : α → Bool) (cancelAt : Option Nat) :
    Nat → σ → List α → Option (List α × RunRes)
  | 0, _, _ => none
  | fuel + 1, s, out =>
    if cancelled cancelAt out.length then some (out, .canceled)
    else match scan s with
      | (.ammo i, s') =>
        match file[i]? with
        | some a =>
          if chosen a then fullScan scan file chosen cancelAt fuel s' (out ++ [a])
          else fullScan scan file chosen cancelAt fuel s' out
        | none => some (out, .errOther)
      | (.errLimit, _) => some (out, .nil)
      | (.errPass, _) => some (out, .nil)
      | (.errNoAmmo, _) => some (out, .errNoAmmo)
      | (.unexpected, _) => some (out, .errOther)

def httpRun {σ α : Type} (scan : Bounds → σ → ScanRes × σ) (init : σ) (file : List α) (chosen : α → Bool)
    (preload : Bool) (b : Bounds) (cancelAt : Option Nat) (fuel : Nat) : Option (Outcome α) :=
  if preload then
    match loadAmmo scan file fuel init [] with
    | none => none
    | some (.error e) => some ⟨[], e, true⟩
    | some (.ok ammos) =>
      match runPreloaded (ammos.filter chosen) b cancelAt fuel with
      | none => none
      | some (out, e) => some ⟨out, e, true⟩
  else
    match fullScan (scan b) file chosen cancelAt fuel init [] with
    | none => none
    | some (out, e) => some ⟨out, e, true⟩

def runFuel {α : Type} (k : Fmt) (preload : Bool) (file : List α) (chosen : α → Bool) (b : Bounds)
    (cancelAt : Option Nat) (fuel : Nat) : Option (Outcome α) :=
  match k with
  | .uri | .uripost | .raw => httpRun (fun b => scanStream .eofCheck b file.length) Dec.init file chosen preload b cancelAt fuel
  | .jsonLines => httpRun (fun b => scanStream .topCheck b file.length) Dec.init file chosen preload b cancelAt fuel
  | .jsonArray => httpRun (fun b => scanArr b file.length) ArrDec.init file chosen preload b cancelAt fuel

end Orig

/- /repo a3063a3 (with c2aa5a1 and 8ec6c57, before b8504d9 = C14-nomatch-no-ammo): limit counts delivered ammo, but a
file from which nothing is chosen is rescanned until `passes` is reached (for ever with passes = 0) and then ends
with nil, while the preloaded path fails with ErrNoAmmo. -/
namespace Head

def fullScan {σ α : Type} (scan : σ → ScanRes × σ) (file : List α) (chosen : α → Bool) (limit : Nat)
    (cancelAt : Option Nat) : Nat → σ → List α → Option (List α × RunRes)
  | 0, _, _ => none
  | fuel + 1, s, out =>
    if cancelled cancelAt out.length then some (out, .canceled)
    else if limit ≠ 0 ∧ limit ≤ out.length then some (out, .nil)
    else match scan s with
      | (.ammo i, s') =>
        match file[i]? with
        | some a =>
          if chosen a then fullScan scan file chosen limit cancelAt fuel s' (out ++ [a])
          else fullScan scan file chosen limit cancelAt fuel s' out
        | none => some (out, .errOther)
      | (.errLimit, _) => some (out, .nil)
      | (.errPass, _) => some (out, .nil)
      | (.errNoAmmo, _) => some (out, .errNoAmmo)
      | (.unexpected, _) => some (out, .errOther)

def httpRun {σ α : Type} (scan : Bounds → σ → ScanRes × σ) (init : σ) (file : List α) (chosen : α → Bool)
    (preload : Bool) (b : Bounds) (cancelAt : Option Nat) (fuel : Nat) : Option (Outcome α) :=
  if preload then
    match loadAmmo scan file fuel init [] with
    | none => none
    | some (.error e) => some ⟨[], e, true⟩
    | some (.ok ammos) =>
      match runPreloaded (ammos.filter chosen) b cancelAt fuel with
      | none => none
      | some (out, e) => some ⟨out, mapSentinel e, true⟩
  else
    match fullScan (scan ⟨0, b.passes⟩) file chosen b.limit cancelAt fuel init [] with
    | none => none
    | some (out, e) => some ⟨out, e, true⟩

def runFuel {α : Type} (k : Fmt) (preload : Bool) (file : List α) (chosen : α → Bool) (b : Bounds)
    (cancelAt : Option Nat) (fuel : Nat) : Option (Outcome α) :=
  match k with
  | .uri | .uripost | .raw => httpRun (fun b => scanStream .eofCheck b file.length) Dec.init file chosen preload b cancelAt fuel
  | .jsonLines => httpRun (fun b => scanStream .topCheck b file.length) Dec.init file chosen preload b cancelAt fuel
  | .jsonArray => httpRun (fun b => scanArr b file.length) ArrDec.init file chosen preload b cancelAt fuel

end Head

end Pandora.Model.C14

/-- the translator `/verif/gen` opens the namespaces `Pandora` and `Pandora.Go` in every regenerated file; this makes
them exist for `Gen/ChosenCases.lean` without importing anything else -/
def Pandora.Go.c14Anchor : Unit := ()
