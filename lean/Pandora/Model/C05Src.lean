/-
C05 — vocabulary of the definitions regenerated from the source into `Pandora.Gen.C05Engine`
(gen/area_c05engine.go), and the reading of the regenerated control-flow paths.

* `GoErr` is a Go `error` value as far as `errutil.IsCtxError` can tell errors apart: by its `errors.Cause`.
  `none : Option GoErr` is the nil error. The engine derives all its contexts with `context.WithCancel`, but the
  caller's context may carry a deadline, so a context's `Err()` is `none | canceled | deadlineExceeded`.
* a *path* is one way through a Go function, as the list of its events in execution order:
    `call f`            a call of a function the extractor was told to watch (by its last name)
    `fail f` / `ok f`   the branch of `if err != nil` taken, `f` = the call that assigned `err` last
    `dfr f` `go f`      a watched call (or select clause …) inside a `defer` / `go` statement or its function literal
    `comm <text>`       the communication clause of a `select` that was taken
    `swc <text>`        the case of a `switch` taken
    `cond <text>` / `ncond <text>`   any other `if` condition, taken / not taken
    `set` `inc` `dec` `send`         a write to a field, `x.f++`, `x.f--`, a channel send
    `loop` / `noloop`   a `for` body is explored for one and for zero iterations
    `ret <text>`        the `return` statement (`ret ""` at the end of a body without one)
-/
import Pandora.Model.C05Pool

namespace Pandora.Model.C05

inductive CtxKind
  | canceled | deadlineExceeded
  deriving DecidableEq, Repr

/-- a non-nil Go error, identified by its `errors.Cause` -/
inductive GoErr
  | ctxKind (k : CtxKind)      -- cause is `context.Canceled` / `context.DeadlineExceeded`
  | other (e : ErrId)          -- any other cause (incl. the engine's private `outOfAmmoErr`)
  deriving DecidableEq, Repr

/-- `errors.Cause(err)`: `GoErr` already is the cause; `Cause(nil) = nil` -/
def causeOf (e : Option GoErr) : Option GoErr := e

/-- `errors.Is(err, target)` for a sentinel target: some error of the chain is the target; the chain ends in the cause -/
def errIs (e target : Option GoErr) : Bool := e.isSome && e == target

/-- the model's four-valued `Ret` is the abstraction of a Go error RELATIVE to the context it is compared with:
nil ↦ `ok`; an error whose cause is that context's own `Err()` ↦ `ctx`; every other error — including one caused by
a context-kind error that is NOT this context's (the component's own deadline) — is a component error -/
def absRet (ctxErr : Option CtxKind) : Option GoErr → Ret
  | none => .ok
  | some (.other e) => .err e
  | some (.ctxKind k) => if ctxErr = some k then .ctx else .err (match k with | .canceled => 1000 | .deadlineExceeded => 1001)

/-- what `errutil.IsCtxError(ctx, err)` has to compute: nil, or caused by `ctx.Err()` -/
def isCtxErrorSpec (ctxErr : Option CtxKind) (err : Option GoErr) : Bool :=
  match err with
  | none => true
  | some (.ctxKind k) => ctxErr == some k
  | some (.other _) => false

/-! ### reading paths -/

/-- one event of a path (see the head of this file) -/
inductive Ev
  | call (f : String) | fail (f : String) | ok (f : String) | dfr (f : String) | go (f : String)
  | comm (t : String) | swc (t : String) | cond (t : String) | ncond (t : String)
  | set (t : String) | inc (t : String) | dec (t : String) | send (t : String)
  | loop | noloop | jump (t : String) | ret (t : String)
  deriving DecidableEq, Repr

abbrev Path := List Ev

def Path.has (p : Path) (ev : Ev) : Bool := p.contains ev

/-- the events after the first occurrence of `ev` -/
def Path.after (p : Path) (ev : Ev) : Path := (p.dropWhile (· != ev)).drop 1

/-- the text of the `ret` event -/
def Path.retText : Path → String
  | [] => ""
  | .ret t :: _ => t
  | _ :: r => Path.retText r

/-- the watched call whose error made this path return (first `fail f`), if any -/
def Path.failed : Path → Option String
  | [] => none
  | .fail f :: _ => some f
  | _ :: r => Path.failed r

/-- number of occurrences -/
def Path.count (p : Path) (ev : Ev) : Nat := (p.filter (· == ev)).length

/-- a resource acquired by `acq` (event `ok acq`) is released on this path: `call rel` or `dfr rel` after it (or `dfr rel`
between the call and the look at its error) -/
def Path.releasedAfter (p : Path) (acq rel : String) : Bool :=
  let rest := p.after (.ok acq)
  rest.contains (.call rel) || rest.contains (.dfr rel) ||
  -- a release deferred right after the call, before its error is looked at, runs at the return all the same
  (p.has (.ok acq) && (p.after (.call acq)).contains (.dfr rel))

/-- summary of a path through a constructor-like function: (failed call, resource created, resource released) -/
def Path.resource (p : Path) (acq rel : String) : Option String × Bool × Bool :=
  (p.failed, p.has (.ok acq), p.releasedAfter acq rel)

/-- keep the events a predicate selects -/
def Path.only (p : Path) (keep : Ev → Bool) : Path := p.filter keep

end Pandora.Model.C05

/-- (the generated files `open Pandora.Go`; the namespace has to exist in a core-only import closure) -/
def Pandora.Go.C05.unit : Unit := ()
