/-
C18 — a plugin whose configuration contains ANOTHER plugin (`ammo: {type: …, source: {type: file}}`, the nested schedules
of the composite schedule): the config decoder creates the nested component through the hooks WHILE it fills the outer
configuration — `Hook → plugin.New → fillConf → config.Decode → Hook → plugin.New`.  The registry and the hooks are
re-entered, nothing else is shared: the nested registration runs `New` once per fillConf invocation of the outer
creation, and the outer fillConf fails when the nested creation failed.

So the model is a COMPOSITION of two runs of `Model.C18.run`:
  * the nested registration: `New` as often as the outer creation invokes fillConf;
  * the outer creation in the world whose fillConf fails at invocation i iff its own plan says so (an invalid outer
    configuration) or the i-th nested creation failed.
Every theorem about `run` holds for ANY fault plan — in particular for the induced one (Props/C18 `C18_nested`).
-/
import Pandora.Model.C18

namespace Pandora.Model.C18Nest
open Pandora.Model.C18

def stepOk (s : Step) : Bool := match s.res with | .ok _ => true | _ => false

def isFillEv : Ev → Bool | .fill .. => true | _ => false

/-- number of fillConf invocations of a run -/
def fillCount (steps : List Step) : Nat := (steps.map fun s => s.evs.countP isFillEv).sum

/-- the nested registration: `n` creations by `New` -/
def nestInner (inner0 : Input) (n : Nat) : Input := { inner0 with form := .component, k := n }

def innerSteps (inner0 : Input) (bound : Nat) : List Step := ((run (nestInner inner0 bound)).map (·.steps)).getD []

/-- does the i-th nested creation fail? (`bound`: how many are looked at) -/
def innerFails (inner0 : Input) (bound i : Nat) : Bool :=
  match (innerSteps inner0 bound)[i]? with
  | some s => !stepOk s
  | none => false

/-- an outer creation of k calls invokes fillConf at most k + 1 times -/
def bound (outer0 : Input) : Nat := outer0.k + 2

/-- the outer creation: its fillConf (the decoder, always given) fails when its own plan says so or the nested creation
it triggered failed -/
def nestWorld (outer0 inner0 : Input) : World :=
  { outer0.w with
    hasFill := true
    fillFault := fun i => outer0.w.fillFault i || innerFails inner0 (bound outer0) i }

def nestOuter (outer0 inner0 : Input) : Input := { outer0 with w := nestWorld outer0 inner0 }

structure NestObs where
  outer : Obs
  inner : Obs
deriving DecidableEq, Repr

def nestRun (outer0 inner0 : Input) : Option NestObs :=
  match run (nestOuter outer0 inner0) with
  | none => none
  | some oo =>
    match run (nestInner inner0 (fillCount oo.steps)) with
    | none => none
    | some io => some ⟨oo, io⟩

end Pandora.Model.C18Nest
