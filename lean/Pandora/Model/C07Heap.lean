/-
C07 — ownership of the header accumulator (reference level).

The pass functions of `Pandora.Model.C07` treat the running `[Header: value]` set as a VALUE: `hdrs := h` in an ammo is
the set as it was when the entry was decoded.  In the Go code the set is an `http.Header`, i.e. a reference to a map
that later header lines of the same pass keep writing (`commonHeader.Set`), and the request is built from the ammo's map
LATER and on another goroutine (`Provider.Acquire` → `BuildRequest`): at once in streaming mode while the decoder
already scans towards the next entry, after the whole file has been scanned with `preload`, at any time when several
instances call `Acquire`.  Whether the value reading is right depends on where the map stored in the ammo comes from.

This file models exactly that: a heap of header maps, a decoder that writes the accumulator cell and hands out ammo
holding an ADDRESS, and consumers that read the cell of any delivered ammo at ANY later moment (an arbitrary
interleaving of decoder steps and reads: no bound on how far the decoder runs ahead, any number of consumers).
`Pandora.Proofs.C07Heap` proves that with a clone per entry every read returns the value-model headers, whatever the
interleaving, and that without it (the accumulator itself is stored) it does not.
-/
import Pandora.Model.C07Base

namespace Pandora.Model.C07

/-- where the header map given to `Ammo.Setup` comes from (regenerated from `readLine` / `readBlock`) -/
inductive HdrOrigin where
  | clone          -- every value the variable ever holds is `<accumulator>.Clone()`: a fresh map per entry
  | alias          -- the accumulator map itself
  | mixed          -- a clone on some paths, the accumulator itself on others
  | other (what : String)
deriving DecidableEq, Repr

/-- what one line of a pass does to the decoder (the classification `uriLine` / `readBlock` make), plus end of file -/
inductive LineEv where
  | hdr (k v : Bytes)      -- `[k: v]`: `commonHeader.Set(k, v)`
  | req (a : Ammo)         -- an entry (`a.hdrs` is ignored: the header set is what this file is about)
  | newPass                -- end of file: `d.Header = http.Header{}` (a NEW map), seek to 0
deriving DecidableEq, Repr

/-- value semantics (what `uriPass` / `uripostPass` + `withCfgRes` compute): the accumulator is copied into the ammo -/
def valueOut (cfg : Hdrs) : Hdrs → List LineEv → List Ammo
  | _, [] => []
  | h, .hdr k v :: r => valueOut cfg (hset h k v) r
  | h, .req a :: r => { a with hdrs := mergeCfg h cfg } :: valueOut cfg h r
  | _, .newPass :: r => valueOut cfg [] r

/-- decoder + consumers: `heap` maps an address to the contents of the map allocated there (addresses `< next` are
in use), `acc` is `d.Header`, `out` the ammo handed out so far with the address of their header map, `reads` what
`BuildRequest` saw (ammo number, contents of its map at that moment) -/
structure RefState where
  heap : Nat → Hdrs
  next : Nat
  acc : Nat
  out : List (Ammo × Nat)
  reads : List (Nat × Hdrs)

def RefState.init : RefState := { heap := fun _ => [], next := 1, acc := 0, out := [], reads := [] }

/-- one step of the whole system: the decoder processes a line, or some consumer builds the request of ammo `j` -/
inductive Act where
  | dec (e : LineEv)
  | read (j : Nat)
deriving DecidableEq, Repr

def upd (heap : Nat → Hdrs) (a : Nat) (v : Hdrs) : Nat → Hdrs := fun x => if x = a then v else heap x

/-- `copies = true`: `header := commonHeader.Clone()` + the `headers` option merged into the copy;
`copies = false`: the accumulator itself is stored (only meaningful with an empty `headers` option) -/
def stepRef (copies : Bool) (cfg : Hdrs) (s : RefState) : Act → RefState
  | .dec (.hdr k v) => { s with heap := upd s.heap s.acc (hset (s.heap s.acc) k v) }
  | .dec (.req a) =>
    if copies then
      { s with heap := upd s.heap s.next (mergeCfg (s.heap s.acc) cfg), next := s.next + 1, out := s.out ++ [(a, s.next)] }
    else { s with out := s.out ++ [(a, s.acc)] }
  | .dec .newPass => { s with heap := upd s.heap s.next [], next := s.next + 1, acc := s.next }
  | .read j =>
    match s.out[j]? with
    | some x => { s with reads := s.reads ++ [(j, s.heap x.2)] }
    | none => s                     -- nothing delivered at that position yet: `Acquire` blocks

def runRef (copies : Bool) (cfg : Hdrs) : RefState → List Act → RefState
  | s, [] => s
  | s, a :: r => runRef copies cfg (stepRef copies cfg s a) r

/-- the decoder's part of an interleaving -/
def decEvs : List Act → List LineEv
  | [] => []
  | .dec e :: r => e :: decEvs r
  | .read _ :: r => decEvs r

/-- does the decoder copy?  `clone`: always; `mixed` as in "clone only when there is something to merge":
when the `headers` option is non-empty -/
def copiesOf (o : HdrOrigin) (cfg : Hdrs) : Bool :=
  match o with
  | .clone => true
  | .mixed => !cfg.isEmpty
  | _ => false

/-- the header set the consumer of ammo `j` must see: the value model's -/
def valueHdrs (cfg : Hdrs) (acts : List Act) (j : Nat) : Option Hdrs :=
  ((valueOut cfg [] (decEvs acts))[j]?).map (·.hdrs)

/-- every `BuildRequest` of the run saw the header set of the value model -/
def readsRight (copies : Bool) (cfg : Hdrs) (acts : List Act) : Prop :=
  ∀ jh ∈ (runRef copies cfg RefState.init acts).reads, valueHdrs cfg acts jh.1 = some jh.2

/-! ### what the decoder does to its accumulator at the end of a pass (round 3)

`stepRef` gives the decoder a NEW accumulator map at every new pass (`d.Header = http.Header{}`,
`d.header = make(http.Header)`).  What the source really does there is regenerated (`PassReset`), and the system is
modelled for each possibility: a fresh map, the old map emptied in place (`clear(d.header)` / a `delete` loop) — safe
exactly because the delivered ammo hold clones —, or nothing at all. -/

/-- regenerated from `uriDecoder.Scan` / `uripostDecoder.Scan`: how the accumulator is reset when the file wraps around -/
inductive PassReset where
  | fresh          -- the field is assigned a new empty map (`http.Header{}`, `make(http.Header)`)
  | cleared        -- the same map is emptied in place (`clear(m)`, `for k := range m { delete(m, k) }`)
  | kept           -- the accumulator is not touched: header lines of the previous pass stay in force
  | other (what : String)
deriving DecidableEq, Repr

/-- the reset forgets the header lines of the pass that ended -/
def PassReset.forgets : PassReset → Bool
  | .fresh => true
  | .cleared => true
  | _ => false

/-- the cloning decoder (`stepRef true`) with the given end-of-pass behaviour -/
def stepRefR (reset : PassReset) (cfg : Hdrs) (s : RefState) : Act → RefState
  | .dec .newPass =>
    match reset with
    | .fresh => { s with heap := upd s.heap s.next [], next := s.next + 1, acc := s.next }
    | .cleared => { s with heap := upd s.heap s.acc [] }
    | _ => s
  | a => stepRef true cfg s a

def runRefR (reset : PassReset) (cfg : Hdrs) : RefState → List Act → RefState
  | s, [] => s
  | s, a :: r => runRefR reset cfg (stepRefR reset cfg s a) r

/-- every `BuildRequest` of the run saw the header set of the value model (which starts every pass from nothing) -/
def readsRightR (reset : PassReset) (cfg : Hdrs) (acts : List Act) : Prop :=
  ∀ jh ∈ (runRefR reset cfg RefState.init acts).reads, valueHdrs cfg acts jh.1 = some jh.2

end Pandora.Model.C07
