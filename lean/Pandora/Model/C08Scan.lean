/-
C08 (round 2) — the `Scan` methods of components/providers/http/decoders read line by line, and `LoadAmmo`.

`Model.C08.scanStream` abstracts an ammo file to its `n` entries.  The real files also have lines that are NOT
entries (header lines `[Name: value]`, blank lines, the blank line after a body), which the reading loops of
uri.go / uripost.go / raw.go skip.  Here the file is the sequence of what its lines (uri), blocks (uripost),
size-prefixed requests (raw) or JSON values (jsonline) are, and ONE ROUND of the reading loop of `Scan` is a function

    round passes c rd ammoNum passNum : ScanAct

of what the next read yields (`rd : Rd`) and of what `ctx.Err() != nil` reads (`c`).  The round functions of the four
decoders are REGENERATED from the Go source (`Pandora.Gen.ProvLoops`: `uriScanRound`, `uripostScanRound`,
`rawScanRound`, `jsonlScanRound`) and proved equal to `roundEof` / `roundTop` below (`Pandora.Bridge.ProvLoops`);
`Proofs/C08Scan.lean` proves that `scanLines` over any file with `n ≥ 1` entry lines and ANY non-entry lines in
between is the abstract cyclic source (`Proofs.C08.Src`) every provider theorem of C08 / C14 is about.

  uri.go     Scan  for ; ; d.line++ { ctx check; if !scanner.Scan() { EOF block | return Err }; readLine; … }
  raw.go     Scan  for { ctx check; ReadString; if err == io.EOF { EOF block; continue }; …; ammoNum++; … return }
  uripost.go Scan  for i := 0; i < 2; i++ { for { ctx check; readBlock; EOF ⇒ break; … }; EOF block }; "unexpected behavior"
  jsonline.go Scan for { pass check; Decode; EOF ⇒ EOF block (no pass check there) | return ammo }
  decoder.go LoadAmmo  Passes := 1, Limit := 0; for err == nil { ammo, err = scan(ctx); if ammo != nil { append } }; ErrPassLimit ↦ nil
-/
import Pandora.Model.C08

namespace Pandora.Model.C08

/-- what the next read of the ammo file yields -/
inductive Rd where
  | entry   -- a complete ammo (uri line, uripost block, raw request, JSON object)
  | skip    -- something that is not an ammo: header line, blank line
  | eof     -- the end of the file
  | bad     -- an I/O error of the read
  deriving DecidableEq, Repr, Inhabited

/-- result classes of one `Scan` call (finer than `ScanRes`: the context's error and read errors are kept apart) -/
inductive SRes where
  | ammo | errLimit | errPass | errNoAmmo | canceled | failed | unexpected
  deriving DecidableEq, Repr, Inhabited

/-- what one round of the reading loop does; the counters are `d.ammoNum`, `d.passNum` after it -/
inductive ScanAct where
  | ret (r : SRes) (ammoNum passNum : Nat)   -- `Scan` returns
  | next (ammoNum passNum : Nat)             -- the loop goes on where the file is
  | rewind (ammoNum passNum : Nat)           -- `d.file.Seek(0, io.SeekStart)`: the loop goes on at the start of the file
  deriving DecidableEq, Repr, Inhabited

/-- uri.go / uripost.go / raw.go: the pass is counted and checked when the end of the file is hit -/
def roundEof (passes : Nat) (c : Bool) (rd : Rd) (ammoNum passNum : Nat) : ScanAct :=
  if c then .ret .canceled ammoNum passNum
  else match rd with
    | .entry => .ret .ammo (ammoNum + 1) passNum
    | .skip => .next ammoNum passNum
    | .bad => .ret .failed ammoNum passNum
    | .eof =>
      if passes ≠ 0 ∧ passes ≤ passNum + 1 then .ret .errPass ammoNum (passNum + 1)
      else if ammoNum = 0 then .ret .errNoAmmo ammoNum (passNum + 1)
      else .rewind ammoNum (passNum + 1)

/-- jsonline.go (stream of objects): the pass check opens every round, the context is not read.  json.Decoder skips
white space itself: a `Rd.skip` (blank line between two values) is not a read of its own — it is modelled as a round
that re-enters the loop after the (idempotent) pass check -/
def roundTop (passes : Nat) (_c : Bool) (rd : Rd) (ammoNum passNum : Nat) : ScanAct :=
  if passes ≠ 0 ∧ passes ≤ passNum then .ret .errPass ammoNum passNum
  else match rd with
    | .entry => .ret .ammo (ammoNum + 1) passNum
    | .skip => .next ammoNum passNum
    | .bad => .ret .failed ammoNum passNum
    | .eof =>
      if ammoNum = 0 then .ret .errNoAmmo ammoNum passNum
      else .rewind ammoNum (passNum + 1)

def roundOf : Style → Nat → Bool → Rd → Nat → Nat → ScanAct
  | .eofCheck => roundEof
  | .topCheck => roundTop

/-- decoder state over a file given line by line: index of the next line, the two counters -/
structure LDec where
  pos : Nat
  ammoNum : Nat
  passNum : Nat
  deriving DecidableEq, Repr, Inhabited

def LDec.init : LDec := ⟨0, 0, 0⟩

/-- `true` = the line (block, request, value) is an entry -/
abbrev Lines := List Bool

def rdAt (f : Lines) (pos : Nat) : Rd :=
  match f[pos]? with
  | some true => .entry
  | some false => .skip
  | none => .eof

/-- identity of the entry at line `pos`: the number of entries before it -/
def entriesBefore (f : Lines) (pos : Nat) : Nat := (f.take pos).count true

/-- number of rewinds one `Scan` call may make: uripost.go's outer loop `for i := 0; i < 2; i++` (then "unexpected
behavior"); the other decoders never need a second one (Proofs: `.unexpected` is unreachable for a file with an entry) -/
def scanWraps : Nat := 2

/-- the reading loop of `Scan`: `fuel` bounds the rounds, `wraps` counts the rewinds of this call -/
def scanLines (round : Nat → Bool → Rd → Nat → Nat → ScanAct) (passes : Nat) (c : Bool) (f : Lines) :
    Nat → Nat → LDec → SRes × Option Nat × LDec
  | 0, _, d => (.unexpected, none, d)
  | fuel + 1, wraps, d =>
    let rd := rdAt f d.pos
    let pos' := if rd = .eof then d.pos else d.pos + 1
    match round passes c rd d.ammoNum d.passNum with
    | .ret .ammo a p => (.ammo, some (entriesBefore f d.pos), ⟨pos', a, p⟩)
    | .ret r a p => (r, none, ⟨pos', a, p⟩)
    | .next a p => scanLines round passes c f fuel wraps ⟨pos', a, p⟩
    | .rewind a p =>
      if scanWraps ≤ wraps + 1 then (.unexpected, none, ⟨0, a, p⟩)
      else scanLines round passes c f fuel (wraps + 1) ⟨0, a, p⟩

/-- one `Scan` call of the decoder of `style` over the file `f`: the limit check, then the reading loop
(every line is read at most once per pass, and there are at most two passes: `2 * (f.length + 1)` rounds suffice) -/
def scanFile (style : Style) (b : Bounds) (c : Bool) (f : Lines) (d : LDec) : SRes × Option Nat × LDec :=
  if b.limit ≠ 0 ∧ b.limit ≤ d.ammoNum then (.errLimit, none, d)
  else scanLines (roundOf style) b.passes c f (2 * (f.length + 1)) 0 d

/-- in the vocabulary of `Model.C08.ScanRes` (what the provider loops look at) -/
def toScanRes : SRes × Option Nat × LDec → ScanRes × LDec
  | (.ammo, some i, d) => (.ammo i, d)
  | (.errLimit, _, d) => (.errLimit, d)
  | (.errPass, _, d) => (.errPass, d)
  | (.errNoAmmo, _, d) => (.errNoAmmo, d)
  | (_, _, d) => (.unexpected, d)

/-- `Scan` with a live context, as the provider loops see it -/
def scanFileRes (style : Style) (b : Bounds) (f : Lines) (d : LDec) : ScanRes × LDec :=
  toScanRes (scanFile style b false f d)

/-! ## protoDecoder.LoadAmmo -/

/-- what `LoadAmmo` does with one result of `scan(ctx)`: is the ammo appended, does the loop go on -/
structure LoadStep where
  keep : Bool
  goOn : Bool
  deriving DecidableEq, Repr

/-- `for err == nil { ammo, err = scan(ctx); if ammo != nil { result = append(result, ammo) } }` -/
def loadStepOf (r : SRes) : LoadStep :=
  match r with
  | .ammo => ⟨true, true⟩
  | _ => ⟨false, false⟩

/-- `if errors.Is(err, ErrPassLimit) { err = nil }` -/
def loadResOf (r : SRes) : Option SRes := if r = .errPass then none else some r

/-- LoadAmmo over a file given line by line; `Except.error r` = LoadAmmo fails with the class `r` -/
def loadLines (style : Style) (c : Bool) (f : Lines) : Nat → LDec → List Nat → Option (Except SRes (List Nat))
  | 0, _, _ => none
  | fuel + 1, d, acc =>
    match scanFile style ⟨0, 1⟩ c f d with
    | (r, i, d') =>
      let st := loadStepOf r
      let acc' := match i with | some i => if st.keep then acc ++ [i] else acc | none => acc
      if st.goOn then loadLines style c f fuel d' acc'
      else match loadResOf r with
        | none => some (.ok acc')
        | some e => some (.error e)

/-- `Provider.loadAmmo` of components/providers/http/provider: what `Run` gets when `Decoder.LoadAmmo` failed with
the class `e` while the context is (`c`) / is not cancelled: the context's own error when that is what ended the
load, otherwise a wrapped error -/
def httpLoadFail (c : Bool) (e : SRes) : RunRes :=
  if c ∧ e = .canceled then .canceled
  else match e with
    | .errNoAmmo => .errNoAmmo
    | .errLimit => .errLimit
    | _ => .errOther

end Pandora.Model.C08
