/-
C12 — the POOL layer on top of the startup transition system of `Pandora.Model.C12`: where the abstract system has the
events "`Run` of instance `id` returns for reason r", "an out-of-ammo result is awaited", "the shared RPS schedule
reports its end", this layer has what the code does:

* one pass of the loop of `instance.Run` (core/engine/instance.go) per event `iter`: the loop head `IsFinished(ctx)`
  (context, `Left()`), `Acquire`, `Wait`; on the shared RPS schedule a `Left() == 0` or a `Next()` without token runs the
  finish callback (cancels instance START) inside this very pass, before the instance learns it; the pass may end the
  instance — with the error of the body (out of ammo) or with `ctx.Err()`, which is a "cancelled" exit when non-nil and a
  "schedule exhausted" exit when nil — and then the result is SENT to the pool (`runRes`);
* the await loop of the pool (`runAwaitHandle.awaitRun`, core/engine/engine.go) receiving a run result (`recvRun`:
  `awaitedInstances++`, out of ammo ⇒ cancel instance start unless it has finished, an error that is not the run
  context's ⇒ the pool fails, then `checkAllInstancesAreFinished`) and the start result (`recvStart`:
  `startedInstances := started`, a creation error ⇒ the pool fails, then the same check); the pool ITSELF cancels the run
  context only there, when instance start has finished and as many results were awaited as instances were started.

`Proofs/C12Pool` proves that this layer refines the abstract system (so every theorem about all interleavings of the
abstract events holds for it), that an exit produced by a pass is always an ENABLED abstract exit (the link between
the returns of the regenerated `instance.Run` and the model's exit reasons), and that the pool cancels the run by itself
only when no instance is running and no result is in flight.  Core Lean only, executable.
-/
import Pandora.Model.C12

namespace Pandora.Model.C12
open Pandora.Model.C04 Pandora.Go.C12

/-! ### sequential expectations for the await loop (Bridge/C12Startup proves the regenerated ones equal) -/

/-- `allFinished := ah.isStartFinished() && ah.awaitedInstances >= ah.startedInstances` -/
def allFinished (a : Await) : Bool := a.startFinished && decide (a.started ≤ a.awaited)

/-- the counters after `case res := <-ah.runRes` -/
def onRunResAwait (a : Await) : Await := { a with awaited := a.awaited + 1 }

/-- the counters after `case res := <-ah.startRes` -/
def onStartResAwait (a : Await) (resStarted : Int) : Await := { a with startFinished := true, started := resStarted }

/-- what the pool does with the start result: an error that is not the start context's own fails the pool -/
def onStartResult (isCtxErr : Ctx → Bool) : List PoolAct := if isCtxErr .start then [] else [.reportErr]

/-- what the pool does with the result of `Provider.Run` / of `Aggregator.Run` (`case err := <-ah.providerErr`,
`case err := <-ah.aggregatorErr`): an error that is not the run context's own fails the pool -/
def onOtherResult (isCtxErr : Ctx → Bool) : List PoolAct := if isCtxErr .run then [] else [.reportErr]

/-- what the pool does with a run result (the current shape of the `if` chain; `onInstanceResult_spec` states what
matters of it) -/
def onRunResult (outOfAmmo startFinished : Bool) (isCtxErr : Ctx → Bool) : List PoolAct :=
  if outOfAmmo then (if !startFinished then [.cancel .start] else [])
  else if !isCtxErr .run then [.reportErr] else []

/-- `Engine.Run`: `for i := 0; i < len(pools); i++ { select { case res := <-runRes: if res.Err != nil { return err };
case <-ctx.Done(): return ctx.Err() } }; return nil` -/
def engSeq (nPools : Int) (i : Int) : List EngEv → EngRes
  | [] => if i < nPools then { awaited := i, ret := none } else { awaited := i, ret := some .ok }
  | ev :: rest =>
    if i < nPools then
      match ev with
      | .result errNil => if !errNil then { awaited := i, ret := some .failed } else engSeq nPools (i + 1) rest
      | .ctxDone => { awaited := i, ret := some .cancelled }
    else { awaited := i, ret := some .ok }

/-! ### one pass of `instance.Run` -/

/-- the exit reason of an instance whose `Run` returned `r`; `errNonNil`: the `ctx.Err()` of the final `return ctx.Err()`
is non-nil.  (`.body .nil` is never returned; a recovered `Shoot` panic is the separate event `panic`.) -/
def exitReasonOf (r : RunRet) (errNonNil : Bool) : Option ExitReason :=
  match r with
  | .running => none
  | .body .outOfAmmo => some .ammoEnd
  | .body .nil => none
  | .ctxErr => some (if errNonNil then .cancelled else .scheduleEnd)

/-- how one pass of the loop (head + body) ends the instance, if it does -/
def iterOutcome (it : RunIter) (errNonNil : Bool) : Option ExitReason := exitReasonOf (instRun [it]) errNonNil

/-- does the pass reach `waiter.Wait(ctx)` in the body? -/
def reachesWait (it : RunIter) : Bool := !instFinished it.ctxDone it.left && it.ammoOk

/-- does the pass run the finish callback of the shared RPS schedule?  `Left()` is called by the loop head unless the
context is done (`callbackOnLeft`), `Next()` by the `Wait` of the body (`callbackOnNext`; `nextEmpty`: it had no token) -/
def firesCallback (perInstance : Bool) (it : RunIter) (nextEmpty : Bool) : Bool :=
  !perInstance && ((!it.ctxDone && it.left == 0) || (reachesWait it && nextEmpty))

/-! ### the layer -/

/-- what a goroutine started by `startInstances` sends on `runRes` -/
inductive ResKind
  /-- `Run` returned -/
  | exit (r : ExitReason)
  /-- `runNewInstance`: `newInstance` failed (no instance ever ran) -/
  | createErr
deriving Repr, DecidableEq

structure PSt where
  base : St
  aw : Await := {}
  /-- results sent on `runRes` and not yet received by the await loop, oldest first -/
  pending : List (Nat × ResKind) := []
  /-- `checkAllInstancesAreFinished` has called `runCancel()` -/
  poolCancelled : Bool := false
deriving Repr, DecidableEq

def PSt.init (toks : List Int) : PSt := { base := St.init toks }

inductive PEvent
  /-- an event of the start loop or of the caller: `wait`, `timerFire`, `wakeCancelled`, `runCancel` (anything else is not
  an event of this layer and is ignored) -/
  | loop (ev : Event)
  /-- one pass of the loop of `Run` of instance `id` -/
  | iter (id : Nat) (it : RunIter) (errNonNil nextEmpty : Bool)
  /-- `gun.Shoot` of instance `id` panics: recovered into an error result -/
  | panic (id : Nat)
  /-- the await loop receives the `i`-th result in flight -/
  | recvRun (i : Nat)
  /-- the await loop receives the result of `startInstances` -/
  | recvStart
  /-- the await loop receives the result of `Provider.Run` or of `Aggregator.Run` (`isCtxErr`: it is nil or the run
  context's own error) -/
  | recvOther (isCtxErr : Bool)
deriving Repr, DecidableEq

def isLoopEvent : Event → Bool
  | .wait .. => true
  | .timerFire => true
  | .wakeCancelled => true
  | .runCancel => true
  | _ => false

/-- what a pass sees is consistent with the state: the context of an instance is the RUN context (a stale "not done" at
the loop head is possible, a "done" not), `ctx.Err()` is read after the loop head, a `Next()` without token makes
`Wait` answer false -/
def iterMatches (s : St) (it : RunIter) (errNonNil nextEmpty : Bool) : Bool :=
  (!it.ctxDone || s.runCtxDone) && (!errNonNil || s.runCtxDone) && (!it.ctxDone || errNonNil) &&
    (!nextEmpty || !it.waitOk)

/-- the pool acts on the abstract state: cancelling instance start on an out-of-ammo result is the abstract event
`outOfAmmoResult`; a reported error makes `pool.Run` return, which cancels the pool context — the parent of the run
context — i.e. the abstract `runCancel` -/
def applyAct (c : Cfg) (s : St) : PoolAct → St
  | .cancel .start => step c s .outOfAmmoResult
  | .cancel .run => step c s .runCancel
  | .reportErr => step c s .runCancel

/-- `checkAllInstancesAreFinished` -/
def checkAll (p : PSt) : PSt := if allFinished p.aw then { p with poolCancelled := true } else p

/-- results of the goroutines whose `newInstance` failed during this step of the start loop -/
def newFailures (before after : St) : List (Nat × ResKind) :=
  (after.created.drop before.created.length).filterMap fun cr => if cr.ok then none else some (cr.id, ResKind.createErr)

/-- instance `id` leaves with reason `r`: its result is sent -/
def leave (p : PSt) (b : St) (id : Nat) (r : ExitReason) : PSt :=
  { p with base := { b with running := b.running.erase id, ammoOut := b.ammoOut || r == .ammoEnd },
           pending := p.pending ++ [(id, .exit r)] }

def poolStep (c : Cfg) (p : PSt) : PEvent → PSt
  | .loop ev =>
      if !isLoopEvent ev then p else
      let b := step c p.base ev
      { p with base := b, pending := p.pending ++ newFailures p.base b }
  | .iter id it errNonNil nextEmpty =>
      if !p.base.running.contains id || !iterMatches p.base it errNonNil nextEmpty then p else
      let b := if firesCallback c.perInstance it nextEmpty then step c p.base .rpsFinished else p.base
      match iterOutcome it errNonNil with
      | none => { p with base := b }
      | some r => leave p b id r
  | .panic id =>
      if !p.base.running.contains id then p else leave p p.base id .error
  | .recvRun i =>
      match p.pending[i]? with
      | none => p
      | some (_, k) =>
        let ctxErr : Bool := k == .exit .scheduleEnd || k == .exit .cancelled
        let acts := onRunResult (k == .exit .ammoEnd) p.aw.startFinished (fun _ => ctxErr)
        checkAll { p with aw := onRunResAwait p.aw, pending := p.pending.eraseIdx i,
                          base := acts.foldl (applyAct c) p.base }
  | .recvStart =>
      if p.base.phase != .done || p.aw.startFinished then p else
      let acts := onStartResult (fun _ => p.base.ret != .create)
      checkAll { p with aw := onStartResAwait p.aw p.base.started, base := acts.foldl (applyAct c) p.base }
  | .recvOther isCtxErr =>
      { p with base := (onOtherResult (fun _ => isCtxErr)).foldl (applyAct c) p.base }

def poolRun (c : Cfg) (p : PSt) (evs : List PEvent) : PSt := evs.foldl (poolStep c) p

end Pandora.Model.C12
