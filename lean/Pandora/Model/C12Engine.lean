/-
C12 — the ENGINE layer: `n` pools, each an independent instance of the pool layer (`Model/C12Pool`: own start loop, ids,
contexts, await loop), composed with the await loop of `Engine.Run` (core/engine/engine.go) as ONE transition system.

What couples the pools in the code is only this: every pool's context is a child of the engine's context, which is done
when the caller cancels or when `Engine.Run` returns (its deferred `cancel()`); and `Engine.Run` returns when its await
loop has received the results of all pools, or the first result with an error, or has seen its context done.  A pool's
`Run` returns without error only after everything of the pool has finished (`awaitErr` closed: all four results awaited,
in particular `checkAllInstancesAreFinished` went through), with an error when the pool has reported one
(`onErrAwaited`: an instance could not be created, a gun panicked) or when its context is done.

Events: a step of pool `j` (`PEvent`, except the external run cancel), the caller's cancel, `pool.Run` of pool `j`
returning, the engine's loop receiving the result of pool `j` (one step of the REGENERATED loop, `engSeq`), the engine's
loop seeing its context done.  Whenever the engine's context becomes done every pool gets the run cancel.
`Proofs/C12Engine` proves, for all interleavings: every pool stays a reachable state of the single-pool layer (so every
per-pool theorem holds inside an engine), the engine state is what the regenerated loop computes from what it received,
and the run of a pool is cancelled only if the caller cancelled, or a pool FAILED, or ALL pools had finished everything
by themselves — never because another pool ran out of ammo, finished its profiles or finished altogether.
Core Lean only, executable.
-/
import Pandora.Model.C12Pool

namespace Pandora.Model.C12
open Pandora.Go.C12

/-- one pool inside the engine -/
structure EPool where
  p : PSt
  /-- the pool has reported an error to its `Run` (`onErrAwaited`) -/
  failed : Bool := false
  /-- `pool.Run` has returned (`some true`: without error) -/
  ret : Option Bool := none
  /-- the engine's await loop has received that result -/
  awaited : Bool := false

structure ESt where
  n : Nat
  pool : Nat → EPool
  /-- the state of the await loop of `Engine.Run`: results awaited without error, and how it returned (if it has) -/
  eng : EngRes
  /-- ghost: what that loop has received so far -/
  recvd : List EngEv := []
  callerCancelled : Bool := false

/-- `Engine.Run` has returned -/
def ESt.returned (e : ESt) : Bool := e.eng.ret.isSome

/-- the engine's context (parent of every pool's context) is done: the caller cancelled, or `Engine.Run` returned -/
def ESt.ctxDone (e : ESt) : Bool := e.callerCancelled || e.returned

def ESt.init (n : Nat) (toks : Nat → List Int) : ESt :=
  { n := n, pool := fun j => { p := PSt.init (toks j) }, eng := engSeq n 0 [] }

inductive EEvent
  /-- pool `j` does a step of its own (start loop, a pass of an instance, its await loop) -/
  | pool (j : Nat) (ev : PEvent)
  /-- the caller of `Engine.Run` cancels the context -/
  | callerCancel
  /-- `Run` of pool `j` returns, without (`errNil`) or with an error -/
  | poolReturn (j : Nat) (errNil : Bool)
  /-- the await loop of `Engine.Run` receives the result of pool `j` -/
  | engineRecv (j : Nat)
  /-- the await loop of `Engine.Run` takes its `ctx.Done()` case -/
  | engineSeesCancel
deriving Repr, DecidableEq

/-- does this step of a pool report an error (`ah.onErrAwaited`)?  Only the two cases of the await loop do: a run
result that is neither out-of-ammo nor a context error of the run context (a failed creation, a panicked gun), a
start result with a creation error, and a provider / aggregator result that is a real error. -/
def reportsErr (p : PSt) : PEvent → Bool
  | .recvRun i =>
      match p.pending[i]? with
      | none => false
      | some (_, k) =>
        (onRunResult (k == .exit .ammoEnd) p.aw.startFinished
          (fun _ => k == .exit .scheduleEnd || k == .exit .cancelled)).contains .reportErr
  | .recvStart =>
      !(p.base.phase != .done || p.aw.startFinished) &&
        (onStartResult (fun _ => p.base.ret != .create)).contains .reportErr
  | .recvOther isCtxErr => (onOtherResult (fun _ => isCtxErr)).contains .reportErr
  | _ => false

def setPool (f : Nat → EPool) (j : Nat) (q : EPool) : Nat → EPool := fun k => if k = j then q else f k

/-- the engine's context has become done: the run context of every pool is cancelled (parent → child) -/
def cancelAll (c : Nat → Cfg) (e : ESt) : ESt :=
  { e with pool := fun j => { e.pool j with p := poolStep (c j) (e.pool j).p (.loop .runCancel) } }

/-- the await loop of `Engine.Run` receives `ev`: one step of the sequential loop `engSeq` from its current counter -/
def engRecv (c : Nat → Cfg) (e : ESt) (ev : EngEv) : ESt :=
  let e' := { e with eng := engSeq e.n e.eng.awaited [ev], recvd := e.recvd ++ [ev] }
  if e'.returned then cancelAll c e' else e'

def estep (c : Nat → Cfg) (e : ESt) : EEvent → ESt
  | .pool j ev =>
      -- the run cancel coming from outside is not an event of the pool's own
      if e.n ≤ j || ev == .loop .runCancel then e else
      let q := e.pool j
      let q' : EPool := { q with p := poolStep (c j) q.p ev, failed := q.failed || reportsErr q.p ev }
      { e with pool := setPool e.pool j q' }
  | .callerCancel => cancelAll c { e with callerCancelled := true }
  | .poolReturn j errNil =>
      let q := e.pool j
      if e.n ≤ j || q.ret.isSome then e
      else if errNil then
        -- `awaitErr` closed: everything of the pool was awaited, `checkAllInstancesAreFinished` went through
        (if q.p.poolCancelled then { e with pool := setPool e.pool j ({ q with ret := some true } : EPool) } else e)
      else
        -- the error the pool reported, or `ctx.Err()` of its done context
        (if q.failed || e.ctxDone then { e with pool := setPool e.pool j ({ q with ret := some false } : EPool) } else e)
  | .engineRecv j =>
      let q := e.pool j
      if e.n ≤ j || e.returned || q.awaited then e else
      match q.ret with
      | none => e
      | some b => engRecv c { e with pool := setPool e.pool j ({ q with awaited := true } : EPool) } (.result b)
  | .engineSeesCancel =>
      if !e.callerCancelled || e.returned then e else engRecv c e .ctxDone

def erun (c : Nat → Cfg) (e : ESt) (evs : List EEvent) : ESt := evs.foldl (estep c) e

end Pandora.Model.C12
