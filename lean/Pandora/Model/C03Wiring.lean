/-
C03, round 6 — the glue around the instance loop that the accounting model takes for granted, as tables the regenerated
facts (`Pandora.Gen.InstLoop`, part 5: gen/area_instloop_r6.go) are compared with (`Pandora.Bridge.C03Wiring`).

`Model.C03` has ONE provider per pool (`ammoLeft`), ONE `discardOn` per pool that every instance obeys, ONE pair of
Request / Response counters for the whole engine (`C03_metrics_engine` sums over the pools), the discard reports go to the
pool's aggregator, every instance asks the factory chosen by `buildNewInstanceSchedule` for its schedule.  In the source that
is the wiring of `instanceDeps` / `instanceSharedDeps` in `startInstances`, of the pool in `newPool` and of `newPool`'s
arguments in `Engine.Run` (`$` = receiver, `param#k` = k-th parameter of the function).
-/
namespace Pandora.Model.C03Wiring

/-- the fields of the instances' dependencies the model relies on, and what each must be wired to -/
def deps : List (String × String) :=
  [("aggregator", "$.Aggregator"),            -- discards are reported to the POOL's aggregator
   ("discardOverflow", "$.DiscardOverflow"),  -- `Cfg.discardOn` is the pool's `discard_overflow`
   ("metrics", "$.metrics"),                  -- Request / Response / InstanceStart / InstanceFinish are the pool's (= the engine's)
   ("newSchedule", "param#2"),                -- the factory `buildNewInstanceSchedule` returned (shared object or per instance)
   ("provider", "$.Provider")]                -- one provider for all instances of the pool: `ammoLeft`

/-- the pool `newPool` returns: its metrics are the ones it is given, its configuration the one it is given -/
def pool : List (String × String) := [("InstancePoolConfig", "param#3"), ("metrics", "param#1")]

/-- `Engine.Run` hands every pool the engine's own metrics (second argument) -/
def engineNewPool : List String := ["newPool($.log, $.metrics, $.wait.Done, conf)"]

/-- the entries of a regenerated wiring table about the fields of `expected` -/
def restrict (table expected : List (String × String)) : List (String × String) :=
  table.filter fun kv => (expected.map (·.1)).contains kv.1

/-- how the end of the ammo travels from an instance to the pool's bookkeeping: the iteration returns the package-level
error VALUE itself (not a wrapped copy), `awaitRun` compares the run result's error with that value by identity -/
def outOfAmmoReturns : List String := ["return outOfAmmoErr"]
def outOfAmmoTests : List String := ["<run result>.Err == outOfAmmoErr"]

/-- `metrics.Request.Add(1)` / `Response.Add(1)` take effect as ONE atomic addition of the delta given (the model's `reqAdd` /
`respAdd` events are atomic steps), `Get` is one atomic load (what the harness and the users read after the run) -/
def counterAdd : List String := ["i.Add"]
def counterGet : List String := ["i.Load"]

end Pandora.Model.C03Wiring
