/-
C12 — the STATEMENT layer below the pool layer: a pass of the loop of `instance.Run` (core/engine/instance.go) is no longer one
event but three, each interleaved freely with everything else (the other instances' statements, the start loop, the await
loop, cancellations):

  `head`      the loop head `!waiter.IsFinished(ctx)`: reads the context and `Left()` (which, on the shared RPS schedule,
              runs the finish callback when it is 0); if "finished", `return ctx.Err()` — the instance ends;
  `acquire`   `provider.Acquire()`: refused ⇒ `return outOfAmmoErr` — the instance ends;
  `waitNext`  `waiter.Wait(ctx)`: entry check of the context, `Next()` (which runs the finish callback when it has no token);
              whatever `Wait` answers, the pass is over (a shot, or not) and the instance is back at the loop head.

Only one statement of a pass touches anything another party reads (the callback, or the exit with its result), so each of
them is DEFINED here as the pool-layer pass that has seen exactly what this statement saw and, of what the earlier
statements of the pass saw, the harmless answer ("context not done, tokens left, ammo granted") — which the pool layer
permits as a stale reading.  `Proofs/C12Fine`: every run of this layer reaches only pool states the pool layer reaches
(statement-level interleaving adds nothing), and conversely a pass whose three statements run back to back with the
readings of a pool-layer pass does to the pool state exactly what that atomic pass does.  Core Lean only, executable.
-/
import Pandora.Model.C12Pool

namespace Pandora.Model.C12
open Pandora.Go.C12

/-- where an instance is inside a pass of its loop -/
inductive IPc
  /-- about to evaluate the loop head -/
  | head
  /-- loop head passed, about to `Acquire` -/
  | body
  /-- ammo in hand, about to call `waiter.Wait(ctx)` -/
  | wait
deriving Repr, DecidableEq

structure FSt where
  p : PSt
  /-- program counter of every instance (meaningful for running ones) -/
  pc : Nat → IPc := fun _ => .head

def FSt.init (toks : List Int) : FSt := { p := PSt.init toks }

inductive FEvent
  /-- an event of the pool layer other than a pass of an instance: start loop, caller's cancel, the await loop, a gun panic -/
  | pool (ev : PEvent)
  /-- instance `id` evaluates its loop head: context read as `ctxDone`, `Left()` = `left`; `errNonNil`: the `ctx.Err()` of
  the `return` that follows when the head says "finished" -/
  | head (id : Nat) (ctxDone : Bool) (left : Int) (errNonNil : Bool)
  /-- instance `id` calls `provider.Acquire()` -/
  | acquire (id : Nat) (ok : Bool)
  /-- instance `id` calls `waiter.Wait(ctx)`: its entry check reads the context as `ctxDone`; if not done, `Next()` is
  called and `nextEmpty` says it had no token -/
  | waitNext (id : Nat) (ctxDone nextEmpty : Bool)
deriving Repr, DecidableEq

def setPc (f : Nat → IPc) (id : Nat) (v : IPc) : Nat → IPc := fun k => if k = id then v else f k

def isIter : PEvent → Bool
  | .iter .. => true
  | _ => false

/-- the pool-layer pass a statement is (see the header) -/
def headPass (ctxDone : Bool) (left : Int) : RunIter := { ctxDone := ctxDone, left := left }
def acquirePass : RunIter := { ammoOk := false }
def waitPass : RunIter := { waitOk := false }

def fineStep (c : Cfg) (f : FSt) : FEvent → FSt
  | .pool ev => if isIter ev then f else { f with p := poolStep c f.p ev }
  | .head id cd left e =>
      if !f.p.base.running.contains id || f.pc id != .head then f
      else if instFinished cd left then
        -- `return ctx.Err()` (the pool layer refuses the event if the claimed reading is impossible)
        { f with p := poolStep c f.p (.iter id (headPass cd left) e false) }
      else { f with pc := setPc f.pc id .body }
  | .acquire id ok =>
      if !f.p.base.running.contains id || f.pc id != .body then f
      else if ok then { f with pc := setPc f.pc id .wait }
      else { p := poolStep c f.p (.iter id acquirePass false false), pc := setPc f.pc id .head }
  | .waitNext id cd ne =>
      if !f.p.base.running.contains id || f.pc id != .wait then f
      else
        { p := if !cd && ne then poolStep c f.p (.iter id waitPass false true) else f.p,
          pc := setPc f.pc id .head }

def fineRun (c : Cfg) (f : FSt) (evs : List FEvent) : FSt := evs.foldl (fineStep c) f

/-- the three statements of one pass of instance `id`, back to back, with the readings of the pool-layer pass `it`
(`errNonNil`, `nextEmpty` as there) -/
def passEvents (id : Nat) (it : RunIter) (errNonNil nextEmpty : Bool) : List FEvent :=
  [.head id it.ctxDone it.left errNonNil, .acquire id it.ammoOk, .waitNext id false nextEmpty]

end Pandora.Model.C12
