/-
C13 — checked models of the helper functions a malformed scenario / config value reaches:

* `str.ParseStringFunc`, `config.ParseShootName`, `convertScenarioToAmmo` (http and grpc are the same code shape)
* `mp.calcIndex` / `extractFromSlice` / `mp.GetMapValue`
* `confutil.findTags`, `propertyTokenResolver`, `ResolveCustomTags` (string targets)
* `templater.randInt`
* the pool-map massage of `cli.readConfig`
* `math.GCD` / `GCDM`, `config.SpreadNames` and the `make(…, 0, size)` of the scenario `decodeAmmo`
* `templater.randString` / `str.RandStringRunes`

`fixed = false` mirrors the tree as found, `fixed = true` the repaired code (the `fix:` commits of /repo and
fixes/C13-scenario-negative-weight.diff, fixes/C13-randstring-negative-length.diff).
-/
import Pandora.Model.C13Base

namespace Pandora.Model.C13

/-! ### `str.ParseStringFunc` (lib/str/string.go) -/

/-- `name(arg, arg)` → name and arguments (`none` = no parentheses at all: Go returns a nil slice).
The three slice expressions `shoot[:openIdx]`, `shoot[openIdx+1:]`, `arg[:closeIdx]` are checked. -/
def parseStringFunc (shoot : Bytes) : Res (Bytes × Option (List Bytes)) :=
  let openIdx := indexByte shoot 40
  if openIdx = -1 then
    if indexByte shoot 41 ≠ -1 then .err "bracket" else .ok (shoot, none)
  else
    (sliceC shoot 0 openIdx).bind fun nameRaw =>
    (sliceC shoot (openIdx + 1) shoot.length).bind fun argRaw =>
      let arg := trimSpace argRaw
      let closeIdx := indexByte arg 41
      if closeIdx ≠ (arg.length : Int) - 1 ∨ closeIdx = -1 then .err "bracket"
      else (sliceC arg 0 closeIdx).bind fun inner =>
        .ok (trimSpace nameRaw, some ((split (trimSpace inner) 44).map trimSpace))

/-! ### `config.ParseShootName` (components/providers/scenario/config/decode.go) -/

structure Shoot where
  name : Bytes
  cnt : Int
  sleep : Int
  deriving Repr, DecidableEq

/-- `args[i]` parsed as a count when present and non-empty, else the default -/
def argInt (args : List Bytes) (i : Nat) (dflt : Int) : Res Int :=
  if args.length > i then
    match indexC args i with
    | .ok a =>
      if a.isEmpty then .ok dflt
      else match atoi a with
        | none => .err "count"
        | some n => .ok n
    | .err c => .err c
    | .panic w => .panic w
    | .fatal w => .fatal w
  else .ok dflt

def parseShootName (shoot : Bytes) : Res Shoot :=
  match parseStringFunc shoot with
  | .ok (name, args) =>
    let args := args.getD []
    match argInt args 0 1 with
    | .ok cnt =>
      match argInt args 1 0 with
      | .ok sleep => .ok ⟨name, cnt, sleep⟩
      | .err c => .err c
      | .panic w => .panic w
      | .fatal w => .fatal w
    | .err c => .err c
    | .panic w => .panic w
    | .fatal w => .fatal w
  | .err c => .err c
  | .panic w => .panic w
  | .fatal w => .fatal w

/-! ### `convertScenarioToAmmo` (components/providers/scenario/{http,grpc}/decode.go) -/

/-- one element of `Scenario.Requests` / `Scenario.Calls`: request name and its `Sleep` in ms -/
abbrev ScnStep := Bytes × Int

def sleepName : Bytes := [115, 108, 101, 101, 112]

/-- `config.MaxScenarioRequests` (1eaf10a; regenerated: `Gen.C13Src.maxScenarioRequests`) -/
def maxScenarioRequests : Int := 1048576

/-- `config.MaxSpreadSize` (4cfc662; regenerated: `Gen.C13Src.maxSpreadSize`) -/
def maxSpreadSize : Int := 16777216

/-- `templater.maxRandStringLength` (28b7d1e; regenerated: `Gen.C13Src.maxRandStringLength`) -/
def maxRandStringLength : Int := 16777216

/-- `result.Requests[len(result.Requests)-1].Sleep += cnt` on the list built so far (kept reversed: head = last) -/
def addSleep (fixed : Bool) (acc : List ScnStep) (cnt : Int) : Res (List ScnStep) :=
  match acc with
  | (n, s) :: tl => .ok ((n, s + cnt) :: tl)
  | [] => if fixed then .err "leading-sleep" else .panic "index out of range [-1]"

def expandGo (fixed : Bool) (known : Bytes → Bool) : List Bytes → List ScnStep → Res (List ScnStep)
  | [], acc => .ok acc.reverse
  | sh :: rest, acc =>
    match parseShootName sh with
    | .ok ⟨name, cnt, sleep⟩ =>
      if name = sleepName then
        match addSleep fixed acc cnt with
        | .ok acc' => expandGo fixed known rest acc'
        | .err c => .err c
        | .panic w => .panic w
        | .fatal w => .fatal w
      else if !known name then .err "unknown-request"
      else
        let r : ScnStep := (name, if sleep > 0 then sleep else 0)
        -- 1eaf10a: `if cnt > config.MaxScenarioRequests-len(result.Requests) { return nil, … }` in front of the append loop
        if fixed && decide (cnt > maxScenarioRequests - (acc.length : Int)) then .err "too-many-requests"
        else expandGo fixed known rest (List.replicate cnt.toNat r ++ acc)
    | .err c => .err c
    | .panic w => .panic w
    | .fatal w => .fatal w

/-- the request list of one scenario expanded to its steps -/
def expand (fixed : Bool) (known : Bytes → Bool) (reqs : List Bytes) : Res (List ScnStep) :=
  expandGo fixed known reqs []

/-! ### `mp.calcIndex`, `extractFromSlice`, `GetMapValue` (lib/mp/map.go) -/

def kwNext : Bytes := [110, 101, 120, 116]
def kwRand : Bytes := [114, 97, 110, 100]
def kwLast : Bytes := [108, 97, 115, 116]

def isKw (s : Bytes) : Bool := s = kwNext ∨ s = kwRand ∨ s = kwLast

/-- `calcIndex(indexStr, segment, length, iter)`: `next` is what `iter.Next(segment)` returns, `rnd` the raw random number -/
def calcIndex (fixed : Bool) (indexStr : Bytes) (length : Int) (next : Int) (rnd : Nat) : Res Int :=
  let parsed := atoi indexStr
  if parsed.isNone && !isKw indexStr then .err "index"
  else if fixed && decide (length ≤ 0) then .err "empty"
  else if !isKw indexStr then
    let index := parsed.getD 0
    if 0 ≤ index ∧ index < length then .ok index
    else
      match tmodC index length with
      | .ok index => .ok (if index < 0 then index + length else index)
      | r => r
  else if indexStr = kwLast then .ok (length - 1)
  else if indexStr = kwRand then intnC length rnd
  else if next ≥ length then tmodC next length
  else .ok next

/-- template variables: scalars, maps, slices (`valid` = one of the seven slice types `extractFromSlice` accepts) -/
inductive Val where
  | str (s : Bytes)
  | int (i : Int)
  | map (kvs : List (Bytes × Val))
  | arr (valid : Bool) (elems : List Val)

/-- per-segment counters of `mp.NextIterator` -/
abbrev IterState := List (Bytes × Nat)

/-- `NextIterator.Next(segment)`: 0 on first use, then 1, 2, … -/
def iterNext (st : IterState) (seg : Bytes) : Int × IterState :=
  match st.lookup seg with
  | none => (0, (seg, 0) :: st)
  | some n => ((n + 1 : Nat), (seg, n + 1) :: st.filter (fun p => p.1 != seg))

/-- does this index string consult the iterator's `Next`? (only then the counter advances) -/
def usesNext (indexStr : Bytes) : Bool := indexStr = kwNext

def Res.castFail {α β : Type} : Res α → Res β
  | .ok _ => .panic "castFail"
  | .err c => .err c
  | .panic w => .panic w
  | .fatal w => .fatal w

def extractFromSlice (fixed : Bool) (cur : Val) (indexStr curSeg : Bytes) (st : IterState) (rnd : Nat) : Res Val × IterState :=
  match cur with
  | .arr true elems =>
    -- Go evaluates iter.Next only on the `next` path of calcIndex (after the emptiness check of the repaired code)
    let reachesNext : Bool := usesNext indexStr && !(fixed && elems.length == 0)
    let it : Int × IterState := if reachesNext then iterNext st curSeg else (0, st)
    match calcIndex fixed indexStr elems.length it.1 rnd with
    | .ok i => (indexC elems i, it.2)
    | r => (r.castFail, it.2)
  | _ => (.err "type", st)

structure MpState where
  cur : List (Bytes × Val)
  seg : Bytes            -- `curSegment` builder
  st : IterState

/-- the loop of `GetMapValue` over the path segments -/
def getGo (fixed : Bool) (rnd : Nat) : List Bytes → MpState → Res Val × IterState
  | [], s => (.ok (.map s.cur), s.st)
  | segment :: rest, s =>
    let segment := trimSpace segment
    let curSeg := s.seg ++ 46 :: segment
    let isLast := rest.isEmpty
    if decide (indexByte segment 91 ≠ -1) && hasSuffix segment [93] then
      let openBraceIdx := indexByte segment 91
      match sliceC segment (openBraceIdx + 1) ((segment.length : Int) - 1) with
      | .ok inner =>
        match sliceC segment 0 openBraceIdx with
        | .ok key =>
          let indexStr := asciiLower (trimSpace inner)
          match s.cur.lookup key with
          | none => (.err "notfound", s.st)
          | some pathVal =>
            match extractFromSlice fixed pathVal indexStr curSeg s.st rnd with
            | (.ok (.map m), st') => getGo fixed rnd rest { cur := m, seg := curSeg, st := st' }
            | (.ok v, st') => if isLast then (.ok v, st') else (.err "notlast", st')
            | (r, st') => (r, st')
        | r => (r.castFail, s.st)
      | r => (r.castFail, s.st)
    else
      match s.cur.lookup segment with
      | none => (.err "notfound", s.st)
      | some (.map m) => getGo fixed rnd rest { cur := m, seg := curSeg, st := s.st }
      | some v => if isLast then (.ok v, s.st) else (.err "notlast", s.st)

def trimDotPrefix (p : Bytes) : Bytes :=
  match p with
  | 46 :: r => r
  | _ => p

/-- `mp.GetMapValue(current, path, iter)` for a non-nil map -/
def getMapValue (fixed : Bool) (cur : List (Bytes × Val)) (path : Bytes) (st : IterState) (rnd : Nat) : Res Val × IterState :=
  getGo fixed rnd (split (trimDotPrefix path) 46) { cur := cur, seg := [], st := st }

/-! ### `${type:var}` placeholders (lib/confutil) -/

structure Tag where
  tagType : Bytes
  varname : Bytes
  whole : Bytes
  deriving Repr, DecidableEq

/-- the content between `${` and the first `}`: `(content, rest after the brace)` -/
def untilBrace (s : Bytes) : Option (Bytes × Bytes) := cut s 125

/-- smallest k ≥ 1 with c[k] = ':' and c[k+1..] non-empty without '{' (the lazy `([^}]+?):` group) -/
def splitType : Nat → Bytes → Bytes → Option (Bytes × Bytes)
  | 0, _, _ => none
  | _ + 1, _, [] => none
  | fuel + 1, pre, b :: rest =>
    if b == 58 && !pre.isEmpty && !rest.isEmpty && !rest.contains 123 then some (pre, rest)
    else splitType fuel (pre ++ [b]) rest

/-- match of `\$\{(?:([^}]+?):)?([^{}]+?)\}` anchored at the head of `s` (which starts after "${") -/
def matchTagAt (s : Bytes) : Option (Tag × Bytes) :=
  match untilBrace s with
  | none => none
  | some (c, rest) =>
    match splitType (c.length + 1) [] c with
    | some (t, v) => some (⟨trimSpace t, trimSpace v, [36, 123] ++ c ++ [125]⟩, rest)
    | none =>
      if !c.isEmpty && !c.contains 123 then some (⟨[], trimSpace c, [36, 123] ++ c ++ [125]⟩, rest)
      else none

/-- `findTags`: all non-overlapping leftmost matches -/
def findTags : Nat → Bytes → List Tag
  | 0, _ => []
  | _ + 1, [] => []
  | fuel + 1, b :: rest =>
    if b == 36 then
      match rest with
      | 123 :: r2 =>
        match matchTagAt r2 with
        | some (t, after) => t :: findTags fuel after
        | none => findTags fuel rest
      | _ => findTags fuel rest
    else findTags fuel rest

/-- the scan of the property file: first `key=value` line whose key is `property` -/
def propScan (property : Bytes) : List Bytes → Res Bytes
  | [] => .err "noprop"
  | l :: ls =>
    match cut l 61 with
    | some (k, v) => if k = property then .ok v else propScan property ls
    | none => propScan property ls

/-- `propertyTokenResolver`: `file#property`; `fileOf` gives the lines of a readable file.
`split := strings.SplitN(in, "#", 2); filename, property := split[0], split[1]` -/
def propertyResolve (fixed : Bool) (fileOf : Bytes → Option (List Bytes)) (inp : Bytes) : Res Bytes :=
  let parts : List Bytes := match cut inp 35 with
    | some (a, b) => [a, b]
    | none => [inp]
  if fixed && decide (parts.length < 2) then .err "format"
  else
    (indexC parts 0).bind fun filename =>
    (indexC parts 1).bind fun property =>
      match fileOf filename with
      | none => .err "open"
      | some lines => propScan property lines

def kwEnv : Bytes := [101, 110, 118]
def kwProperty : Bytes := [112, 114, 111, 112, 101, 114, 116, 121]

/-- the token loop of `ResolveCustomTags` -/
def resolveGo (fixed : Bool) (env : Bytes → Option Bytes) (fileOf : Bytes → Option (List Bytes)) : List Tag → Bytes → Res Bytes
  | [], res => .ok res
  | t :: ts, res =>
    let ty := asciiLower t.tagType
    if ty.isEmpty || ty = kwEnv then
      match env t.varname with
      | none => .err "env"
      | some v => resolveGo fixed env fileOf ts (replaceAll res t.whole v)
    else if ty = kwProperty then
      match propertyResolve fixed fileOf t.varname with
      | .ok v => resolveGo fixed env fileOf ts (replaceAll res t.whole v)
      | r => r
    else resolveGo fixed env fileOf ts res

/-- `ResolveCustomTags` for a string target (no tags: the value is left as it is) -/
def resolveTags (fixed : Bool) (env : Bytes → Option Bytes) (fileOf : Bytes → Option (List Bytes)) (s : Bytes) : Res Bytes :=
  resolveGo fixed env fileOf (findTags (s.length + 1) s) s

/-! ### `templater.randInt` (components/providers/scenario/templater/func.go) -/

/-- the bounds `randInt` ends up with: reversed bounds are swapped, (0,0) means [0,10), equal bounds are meant
to give a window of 10 (the unrepaired code moves the LOWER bound up instead: `f = t + 10`) -/
def randIntBounds (fixed : Bool) (f t : Int) : Int × Int :=
  let p : Int × Int := if t < f then (t, f) else (f, t)
  let t := if p.1 = 0 ∧ p.2 = 0 then 10 else p.2
  if fixed then (p.1, if t = p.1 then wrap64 (p.1 + 10) else t)
  else (if t = p.1 then wrap64 (t + 10) else p.1, t)

/-- `randInt(f, t)` on int64 arguments; `rnd` = raw output of the generator.
`n := rand.Int63n(t - f)` panics unless `t - f > 0` (in wrap-around int64 arithmetic). -/
def randInt (fixed : Bool) (f t : Int) (rnd : Nat) : Res Int :=
  let b := randIntBounds fixed f t
  let d := wrap64 (b.2 - b.1)
  if fixed && decide (d ≤ 0) then .err "range"
  else match intnC d rnd with
    | .ok n => .ok (wrap64 (n + b.1))
    | r => r

/-! ### `cli.readConfig`: `pools := v.Get("pools").([]any)` … `pool.(map[string]any)` -/

inductive PoolItem where
  | mapping (hasDiscard : Bool)
  | other
  deriving Repr, DecidableEq

inductive PoolsVal where
  | absent          -- key missing or null: `v.Get` returns nil
  | notList         -- scalar, string or mapping
  | list (items : List PoolItem)
  deriving Repr, DecidableEq

def PoolItem.isMapping : PoolItem → Bool
  | .mapping _ => true
  | .other => false

/-- the loop over the pools: every mapping gets `discard_overflow` -/
def massageItems (fixed : Bool) : List PoolItem → Res (List PoolItem)
  | [] => .ok []
  | .mapping _ :: rest =>
    match massageItems fixed rest with
    | .ok r => .ok (.mapping true :: r)
    | r => r
  | .other :: rest =>
    if fixed then
      match massageItems fixed rest with
      | .ok r => .ok (.other :: r)
      | r => r
    else .panic "interface conversion: not map[string]interface {}"

/-- the massage of `readConfig`; result = the pools value handed to DecodeAndValidate -/
def massagePools (fixed : Bool) (p : PoolsVal) : Res PoolsVal :=
  match p with
  | .list items =>
    match massageItems fixed items with
    | .ok l => .ok (.list l)
    | r => r.castFail
  | .absent => if fixed then .ok .absent else .panic "interface conversion: not []interface {}"
  | .notList => if fixed then .ok .notList else .panic "interface conversion: not []interface {}"

/-- what DecodeAndValidate then says about a pools value none of whose pools is complete
(`validate:"required,dive"`): only a list of mappings can get past the type checks -/
def poolsAcceptable : PoolsVal → Bool
  | .list items => items.all PoolItem.isMapping
  | .absent => false
  | .notList => false

/-! ### scenario weights: `math.GCD`, `math.GCDM` (lib/math), `config.SpreadNames`, `decodeAmmo` -/

/-- `for a > 0 && b > 0 { if a >= b { a = a % b } else { b = b % a } }; if a > b { return a }; return b` -/
def gcdGo : Nat → Int → Int → Int
  | 0, a, b => if a > b then a else b
  | fuel + 1, a, b =>
    if 0 < a ∧ 0 < b then
      if b ≤ a then gcdGo fuel (Int.tmod a b) b else gcdGo fuel a (Int.tmod b a)
    else if a > b then a else b

/-- `math.GCD`; the measure of the loop is `a + b` (`gcdGo_fuel` in Proofs/C13Funcs.lean) -/
def gcd64 (a b : Int) : Int := gcdGo (a.toNat + b.toNat + 1) a b

/-- `math.GCDM(weights...)` on the REVERSED weight list (head = last weight):
`res := GCD(w[l-2], w[l-1]); if l == 2 { return res }; return GCD(GCDM(w[:l-1]...), res)`; fewer than two weights: 0 -/
def gcdmRev : List Int → Int
  | [] => 0
  | [_] => 0
  | b :: a :: rest => if rest.isEmpty then gcd64 a b else gcd64 (gcdmRev (a :: rest)) (gcd64 a b)

/-- Go `a / b` on ints (truncated), panics on a zero divisor -/
def tdivC (a b : Int) : Res Int :=
  if b = 0 then .panic "integer divide by zero" else .ok (Int.tdiv a b)

/-- a weight of 0 (or no weight) counts as 1 -/
def normWeight (w : Int) : Int := if w = 0 then 1 else w

def mapRes {α β} (f : α → Res β) : List α → Res (List β)
  | [] => .ok []
  | a :: as =>
    match f a with
    | .ok b =>
      match mapRes f as with
      | .ok bs => .ok (b :: bs)
      | .err c => .err c
      | .panic w => .panic w
      | .fatal w => .fatal w
    | .err c => .err c
    | .panic w => .panic w
    | .fatal w => .fatal w

/-- `config.SpreadNames`: how many copies of each scenario (scenario names are distinct) -/
def spreadCounts (weights : List Int) : Res (List Int) :=
  match weights with
  | [] => .ok []
  | [_] => .ok [1]
  | _ =>
    let ws := weights.map normWeight
    let div := gcdmRev ws.reverse
    mapRes (fun w => tdivC w div) ws

def sumInt (l : List Int) : Int := l.foldr (· + ·) 0

/-- pointer size: `make([]*Scenario, 0, size)` asks for `8 * size` bytes -/
def makeCapC (size : Int) : Res Unit :=
  if size < 0 then .panic "makeslice: cap out of range"
  else if size * 8 > maxAlloc then .panic "makeslice: cap out of range"
  else if size * 8 > memCap then .fatal "out of memory"
  else .ok ()

/-- `config.CheckSpread(names, total)`: `true` = an error is returned (scenario names are distinct: the map holds the counts) -/
def checkSpread (counts : List Int) (total : Int) : Bool :=
  decide (total < 0 ∨ total > maxSpreadSize) || counts.any (fun c => decide (c < 0 ∨ c > maxSpreadSize))

/-- `decodeAmmo` (http and grpc scenario providers) as far as the weights go: the copies per scenario.
`fixed = false` (before 4cfc662): the sum is taken without wrap-around and nothing stands between it and the `make`. -/
def spread (fixed : Bool) (weights : List Int) : Res (List Int) :=
  if fixed && weights.any (fun w => decide (w < 0)) then .err "weight"
  else match spreadCounts weights with
    | .ok counts =>
      -- 4cfc662: `total += cnt` on a Go int wraps around; `CheckSpread(names, total)` stands in front of the `make`
      let total := if fixed then wrap64 (sumInt counts) else sumInt counts
      if fixed && checkSpread counts total then .err "spread"
      else match makeCapC total with
        | .ok () => .ok counts
        | r => r.castFail
    | r => r

/-! ### `templater.randString`, `str.RandStringRunes` -/

/-- the 64 default letters of lib/str -/
def defaultLetters : Nat := 64

/-- `make([]rune, n)` -/
def makeRunesC (n : Int) : Res Unit :=
  if n < 0 then .panic "makeslice: len out of range"
  else if n * 4 > maxAlloc then .panic "makeslice: len out of range"
  else if n * 4 > memCap then .fatal "out of memory"
  else .ok ()

/-- one letter: `letterRunes[randSource.Intn(len(letterRunes))]`; `nLetters` = number of runes of the `letters` argument -/
def pickLetter (nLetters : Nat) (rnd : Nat) : Res Nat :=
  let k := if nLetters = 0 then defaultLetters else nLetters
  (intnC k rnd).bind fun i => indexC (List.range k) i

/-- `randString(cnt, letters)` after `numbers.ParseInt`: the length (in runes) of the result -/
def randStringLen (fixed : Bool) (n : Int) : Res Nat :=
  let n := if n = 0 then 1 else n
  if fixed && decide (n < 0) then .err "length"
  -- 28b7d1e: `if n > maxRandStringLength { return "", … }`
  else if fixed && decide (n > maxRandStringLength) then .err "length"
  else match makeRunesC n with
    | .ok () => .ok n.toNat
    | r => r.castFail

/-! ### an empty list item (`-` / null) in a scenario file

yaml.v2 + mapstructure decode it to the zero value: a nil interface where a plugin is expected
(variable source, post-processor, grpc pre-processor), an empty struct for a request, call or scenario. -/

inductive NullSite where
  | variableSource      -- `variable_sources: [null]`
  | postprocessor       -- `postprocessors: [null]` of a request or call
  | grpcPreprocessor    -- `preprocessors: [null]` of a call
  | request             -- `requests: [null]` / `calls: [null]`: a request without name
  | scenario            -- `scenarios: [null]`: a scenario without requests
  | templater           -- `templater: null`: the default templater is used
  | httpPreprocessor    -- `preprocessor: null`: a nil `*Preprocessor`, whose methods test for nil
  deriving Repr, DecidableEq

/-- what provider construction does with it. `fixed = false` (the tree as found): `ExtractVariableStorage` calls
`source.Init()` on the nil interface; nil processors are accepted and the gun calls `Process` on them at its first shot.
`fixed = true`: fixes/C13-scenario-empty-plugin-item.diff (`checkNoEmptyItems` in `DecodeMap`). -/
def nullItem (fixed : Bool) : NullSite → Res Unit
  | .variableSource => if fixed then .err "empty-item" else .panic "invalid memory address or nil pointer dereference"
  | .postprocessor => if fixed then .err "empty-item" else .ok ()
  | .grpcPreprocessor => if fixed then .err "empty-item" else .ok ()
  | .request => .ok ()
  | .scenario => .ok ()
  | .templater => .ok ()
  | .httpPreprocessor => .ok ()

/-- is a nil plugin left in the decoded configuration (to be dereferenced later by the provider or the gun)? -/
def nilPluginLeft (fixed : Bool) (site : NullSite) : Bool :=
  (nullItem fixed site).isOk && (site == .variableSource || site == .postprocessor || site == .grpcPreprocessor)

end Pandora.Model.C13
