/-
C13 — byte-string primitives and the `Res` (checked result) type used by all C13 models.

Every Go operation that can panic is an explicit `Res.panic` outcome here:
slice expressions (`sliceC`), index expressions (`indexC`), `make([]byte, n)` (`makeC`),
integer remainder (`tmodC`), `rand.Int63n` / `rand.Intn` (`intnC`), type assertions
(modelled where they occur). Nothing is silently totalised.

Core Lean only (linked into the `model-C13` executable).
-/
namespace Pandora.Go
/-- makes `open Pandora Pandora.Go` (written by the translator /verif/gen into `Gen/C13Src.lean`) resolve without Mathlib -/
def c13NamespaceAnchor : Unit := ()
end Pandora.Go

namespace Pandora.Model.C13

abbrev Bytes := List UInt8

/-- outcome of a Go function: value, returned error (with a small class), run-time panic,
or a fatal runtime error (out of memory: not recoverable, kills the process) -/
inductive Res (α : Type) where
  | ok (a : α)
  | err (cls : String)
  | panic (why : String)
  | fatal (why : String)
  deriving Repr, DecidableEq

namespace Res
def bind {α β} (r : Res α) (f : α → Res β) : Res β :=
  match r with
  | ok a => f a
  | err c => err c
  | panic w => panic w
  | fatal w => fatal w

instance : Monad Res where
  pure := Res.ok
  bind := Res.bind

def isPanic {α} : Res α → Bool
  | panic _ => true
  | _ => false

def isFatal {α} : Res α → Bool
  | fatal _ => true
  | _ => false

def isErr {α} : Res α → Bool
  | err _ => true
  | _ => false

def isOk {α} : Res α → Bool
  | ok _ => true
  | _ => false

/-- neither panic nor fatal: the function returned (a value or an error) -/
def returns {α} (r : Res α) : Bool := !r.isPanic && !r.isFatal
end Res

/-! ### checked partial operations -/

/-- Go `s[lo:hi]` on a string/slice of length `len s` (indices are Go ints) -/
def sliceC (s : Bytes) (lo hi : Int) : Res Bytes :=
  if 0 ≤ lo ∧ lo ≤ hi ∧ hi ≤ s.length then .ok ((s.take hi.toNat).drop lo.toNat)
  else .panic "slice bounds out of range"

/-- Go `s[i]` -/
def indexC {α} (s : List α) (i : Int) : Res α :=
  if 0 ≤ i then
    match s[i.toNat]? with
    | some a => .ok a
    | none => .panic "index out of range"
  else .panic "index out of range"

/-- Go `s[i]` where only the length of `s` matters: `i` is inside a slice of `len` elements -/
def boundC (i len : Int) : Res Unit :=
  if 0 ≤ i ∧ i < len then .ok () else .panic "index out of range"

/-- largest allocation the Go runtime accepts on linux/amd64 (`maxAlloc`, 2^48): above it `make` panics -/
def maxAlloc : Int := 281474976710656
/-- memory the process can actually get (the harness child runs under a 4 GiB address-space limit) -/
def memCap : Int := 4294967296

/-- Go `make([]byte, n)` -/
def makeC (n : Int) : Res Unit :=
  if n < 0 then .panic "makeslice: len out of range"
  else if n > maxAlloc then .panic "makeslice: len out of range"
  else if n > memCap then .fatal "out of memory"
  else .ok ()

/-- Go `a % b` on ints (truncated), panics on zero divisor -/
def tmodC (a b : Int) : Res Int :=
  if b = 0 then .panic "integer divide by zero" else .ok (Int.tmod a b)

/-- `rand.Intn(n)` / `rand.Int63n(n)`: panics unless `n > 0`; `rnd` is the generator's raw output -/
def intnC (n : Int) (rnd : Nat) : Res Int :=
  if n ≤ 0 then .panic "invalid argument to Intn" else .ok (Int.ofNat rnd % n)

/-! ### strings -/

def ofString (s : String) : Bytes := s.toUTF8.toList

def isAsciiSpace (b : UInt8) : Bool :=
  b == 9 || b == 10 || b == 11 || b == 12 || b == 13 || b == 32

/-- number of bytes of the white-space rune (unicode.IsSpace) encoded at the head of `s`, 0 if none.
Non-ASCII spaces: U+0085 U+00A0 (C2 85, C2 A0), U+1680 (E1 9A 80), U+2000..U+200A, U+2028, U+2029, U+202F
(E2 80 80..8A, A8, A9, AF), U+205F (E2 81 9F), U+3000 (E3 80 80). -/
def spacePrefixLen : Bytes → Nat
  | [] => 0
  | b :: rest =>
    if isAsciiSpace b then 1
    else if b == 0xC2 then
      match rest with
      | c :: _ => if c == 0x85 || c == 0xA0 then 2 else 0
      | _ => 0
    else if b == 0xE1 then
      match rest with
      | c :: d :: _ => if c == 0x9A && d == 0x80 then 3 else 0
      | _ => 0
    else if b == 0xE2 then
      match rest with
      | c :: d :: _ =>
        if c == 0x80 && ((0x80 ≤ d && d ≤ 0x8A) || d == 0xA8 || d == 0xA9 || d == 0xAF) then 3
        else if c == 0x81 && d == 0x9F then 3 else 0
      | _ => 0
    else if b == 0xE3 then
      match rest with
      | c :: d :: _ => if c == 0x80 && d == 0x80 then 3 else 0
      | _ => 0
    else 0

/-- the same for the END of the string, given the REVERSED string -/
def spaceSuffixLenRev : Bytes → Nat
  | [] => 0
  | b :: rest =>
    if isAsciiSpace b then 1
    else
      match rest with
      | c :: rest2 =>
        if c == 0xC2 && (b == 0x85 || b == 0xA0) then 2
        else
          match rest2 with
          | d :: _ =>
            if d == 0xE1 && c == 0x9A && b == 0x80 then 3
            else if d == 0xE2 && c == 0x80 && ((0x80 ≤ b && b ≤ 0x8A) || b == 0xA8 || b == 0xA9 || b == 0xAF) then 3
            else if d == 0xE2 && c == 0x81 && b == 0x9F then 3
            else if d == 0xE3 && c == 0x80 && b == 0x80 then 3
            else 0
          | _ => 0
      | _ => 0

def trimWith (pre : Bytes → Nat) : Nat → Bytes → Bytes
  | 0, s => s
  | fuel + 1, s =>
    let n := pre s
    if n = 0 then s else trimWith pre fuel (s.drop n)

def trimLeft (s : Bytes) : Bytes := trimWith spacePrefixLen s.length s
def trimRight (s : Bytes) : Bytes := (trimWith spaceSuffixLenRev s.length s.reverse).reverse
/-- `strings.TrimSpace` -/
def trimSpace (s : Bytes) : Bytes := trimRight (trimLeft s)

/-- `strings.IndexByte` as a Go int (-1 = absent) -/
def indexByte (s : Bytes) (c : UInt8) : Int :=
  match s.findIdx? (· == c) with
  | some i => i
  | none => -1

/-- `strings.Cut(s, string(c))` -/
def cut (s : Bytes) (c : UInt8) : Option (Bytes × Bytes) :=
  match s with
  | [] => none
  | b :: rest =>
    if b == c then some ([], rest)
    else match cut rest c with
      | some (l, r) => some (b :: l, r)
      | none => none

/-- `strings.Split(s, string(c))` (always at least one element) -/
def split (s : Bytes) (c : UInt8) : List Bytes :=
  match s with
  | [] => [[]]
  | b :: rest =>
    if b == c then [] :: split rest c
    else match split rest c with
      | hd :: tl => (b :: hd) :: tl
      | [] => [[b]]

def joinWith (sep : UInt8) : List Bytes → Bytes
  | [] => []
  | [x] => x
  | x :: rest => x ++ sep :: joinWith sep rest

def isDigit (b : UInt8) : Bool := 48 ≤ b && b ≤ 57

def digitsVal : Bytes → Nat → Option Nat
  | [], acc => some acc
  | b :: rest, acc => if isDigit b then digitsVal rest (acc * 10 + (b.toNat - 48)) else none

def minInt64 : Int := -9223372036854775808
def maxInt64 : Int := 9223372036854775807

/-- `strconv.Atoi` on a 64-bit platform: optional sign, one or more decimal digits, value in int64 -/
def atoi (s : Bytes) : Option Int :=
  let (neg, ds) : Bool × Bytes :=
    match s with
    | 43 :: r => (false, r)
    | 45 :: r => (true, r)
    | _ => (false, s)
  match ds with
  | [] => none
  | _ =>
    match digitsVal ds 0 with
    | none => none
    | some n =>
      let v : Int := if neg then - (n : Int) else n
      if minInt64 ≤ v ∧ v ≤ maxInt64 then some v else none

def asciiLower (s : Bytes) : Bytes :=
  s.map fun b => if 65 ≤ b && b ≤ 90 then b + 32 else b

def hasPrefix (s p : Bytes) : Bool := p.isPrefixOf s
def hasSuffix (s p : Bytes) : Bool := p.isSuffixOf s

/-- first occurrence of the sub-string `p` in `s` (byte offset) -/
def indexOfSub (s p : Bytes) : Option Nat :=
  go s 0 (s.length + 1)
where
  go (s : Bytes) (i : Nat) : Nat → Option Nat
    | 0 => none
    | fuel + 1 =>
      if p.isPrefixOf s then some i
      else match s with
        | [] => none
        | _ :: rest => go rest (i + 1) fuel

/-- `strings.ReplaceAll(s, old, new)` for non-empty `old` -/
def replaceAll (s old new : Bytes) : Bytes :=
  if old.isEmpty then s else go s (s.length + 1)
where
  go (s : Bytes) : Nat → Bytes
    | 0 => s
    | fuel + 1 =>
      if old.isPrefixOf s then new ++ go (s.drop old.length) fuel
      else match s with
        | [] => []
        | b :: rest => b :: go rest fuel

/-- wrap-around of Go int64 arithmetic -/
def wrap64 (x : Int) : Int := (x + 9223372036854775808) % 18446744073709551616 - 9223372036854775808

end Pandora.Model.C13
