/-
C06 (ii) — reporters, the bounded sample queue and the aggregator's Run loop, as a transition system.

Mirror of
* `core/aggregator/netsample/phout.go`  `Report` (blocking `a.sink <- s`) and `Run`
  (`select { sample | time.After flush | ctx.Done → drain until empty }`, deferred `Flush`, `Close`);
* `core/aggregator/reporter.go` `Report` (non-blocking send, `samplesDropped.Inc()` on a full queue),
  `DroppedErr`; `core/aggregator/encoder.go` `Run` (`select { sample | flushTick | ctx.Done → break }`,
  drain loop with `default: return`, deferred final `Flush`/`Close` of the encoder, `sink.Close()`,
  `errutil.Join(err, a.DroppedErr())`).

A schedule is an arbitrary list of events; an event that is not enabled in the current state leaves the
state unchanged (so every interleaving of any number of goroutines is some schedule). Sink writes are
assumed to succeed (the write-error return path is not part of this model).
-/
namespace Pandora.Model.AggQueue

inductive Kind
  | phout     -- blocking Report, never drops
  | encoder   -- non-blocking Report with dropped counter (jsonlines and every NewEncoderAggregator user)
  deriving DecidableEq, Repr

inductive Phase
  | running    -- in the main select loop
  | draining   -- saw ctx.Done, reading what is still queued
  | returned   -- Run returned (deferred flush/close done)
  deriving DecidableEq, Repr

structure Cfg where
  kind : Kind
  cap : Nat          -- SampleQueueSize

/-- a sample in flight: (reporter goroutine, payload) -/
abbrev Item (β : Type) := Nat × β

inductive Ev
  | report (r : Nat)        -- reporter goroutine r executes (or, phout with a full queue: keeps blocking in) its next Report call
  | recv (tickFired : Bool) -- Run takes `case sample := <-queue`; phout: the nested `select` on the 1 s ticker fires iff tickFired
  | tick                    -- Run takes the flush branch (phout: `time.After(1s)`, encoder: `flushTick`)
  | spill (k : Nat)         -- the buffered writer's buffer is full: its first k buffered lines go to the sink
  | cancel                  -- the run context is cancelled
  | seeCancel               -- Run takes `case <-ctx.Done()`
  | drain                   -- one iteration of the drain loop: receive one queued sample, or `default` → return
  deriving DecidableEq, Repr

structure St (β : Type) where
  /-- samples each reporter goroutine has still to report, in order -/
  pending : Nat → List β
  /-- the channel buffer, FIFO -/
  q : List (Item β)
  /-- handled (encoded into the writer's buffer) but not yet handed to the sink -/
  buf : List (Item β)
  /-- handed to the sink -/
  out : List (Item β)
  /-- `samplesDropped` -/
  droppedCount : Nat
  /-- ghost: which samples the counter stands for -/
  dropped : List (Item β)
  /-- ghost: every completed Report call in real-time order, with "was enqueued" -/
  log : List (Item β × Bool)
  cancelled : Bool
  /-- ghost: some Report call completed after the cancel -/
  late : Bool
  phase : Phase
  closed : Bool
  /-- Run's return value: `none` = nil, `some n` = "n samples were dropped" -/
  err : Option Nat
  /-- encoder.go's `flushes` (bumped by the callback writer) and `previousFlushes` -/
  flushes : Nat
  prevFlushes : Nat

def init (progs : Nat → List β) : St β :=
  { pending := progs, q := [], buf := [], out := [], droppedCount := 0, dropped := [], log := [],
    cancelled := false, late := false, phase := .running, closed := false, err := none,
    flushes := 0, prevFlushes := 0 }

/-- `writer.Flush()`: everything buffered goes to the sink -/
def St.flush (st : St β) : St β :=
  { st with out := st.out ++ st.buf, buf := [], flushes := if st.buf.isEmpty then st.flushes else st.flushes + 1 }

/-- `handle(sample)` / `handleSample(encoder, sample)` -/
def St.handle (st : St β) (x : Item β) (rest : List (Item β)) : St β :=
  { st with q := rest, buf := st.buf ++ [x] }

/-- `DroppedErr()` -/
def droppedErr (n : Nat) : Option Nat := if n = 0 then none else some n

def setPending (p : Nat → List β) (r : Nat) (l : List β) : Nat → List β :=
  fun r' => if r' = r then l else p r'

/-- the capacity the model uses. phout's channel may be unbuffered (`sample-queue-size: 0`; nothing validates
it): a send then completes only together with the aggregator's receive. A one-slot queue has all of those
behaviours (and a few more: the send may complete slightly before the receive), so what is proved for it holds
for the rendezvous channel. The encoder aggregators' size is validated `min=1`. -/
def effCap (cfg : Cfg) : Nat :=
  match cfg.kind with
  | .phout => max cfg.cap 1
  | .encoder => cfg.cap

def step (cfg : Cfg) (st : St β) : Ev → St β
  | .report r =>
    match st.pending r with
    | [] => st
    | x :: rest =>
      if st.q.length < effCap cfg then
        -- `a.sink <- s` / `case a.Incomming <- s:` succeeds
        { st with pending := setPending st.pending r rest, q := st.q ++ [(r, x)],
                  log := st.log ++ [((r, x), true)], late := st.late || st.cancelled }
      else match cfg.kind with
        | .phout => st     -- the sender stays blocked in `a.sink <- s`
        | .encoder =>      -- `default: a.dropSample(s)`
          { st with pending := setPending st.pending r rest, droppedCount := st.droppedCount + 1,
                    dropped := st.dropped ++ [(r, x)], log := st.log ++ [((r, x), false)],
                    late := st.late || st.cancelled }
  | .recv tickFired =>
    match st.phase, st.q with
    | .running, x :: rest =>
      let st' := st.handle x rest
      match cfg.kind with
      | .phout => if tickFired then st'.flush else st'
      | .encoder => st'
    | _, _ => st
  | .tick =>
    match st.phase with
    | .running =>
      match cfg.kind with
      | .phout => st.flush
      | .encoder =>
        let st' := if st.prevFlushes = st.flushes then st.flush else st
        { st' with prevFlushes := st'.flushes }
    | _ => st
  | .spill k =>
    if k = 0 ∨ st.buf.isEmpty then st
    else { st with out := st.out ++ st.buf.take k, buf := st.buf.drop k, flushes := st.flushes + 1 }
  | .cancel => { st with cancelled := true }
  | .seeCancel =>
    match st.phase with
    | .running => if st.cancelled then { st with phase := .draining } else st
    | _ => st
  | .drain =>
    match st.phase, st.q with
    | .draining, x :: rest => st.handle x rest
    | .draining, [] =>
      -- `default:` → return; deferred: final Flush (or encoder Close), sink/file Close, DroppedErr
      let st' := st.flush
      { st' with phase := .returned, closed := true,
                 err := match cfg.kind with
                        | .phout => none
                        | .encoder => droppedErr st.droppedCount }
    | _, _ => st

def run (cfg : Cfg) (st : St β) : List Ev → St β
  | [] => st
  | e :: es => run cfg (step cfg st e) es

/-- the samples of the completed Report calls, in real-time order -/
def St.reports (st : St β) : List (Item β) := st.log.map (·.1)

/-- of one reporter goroutine -/
def ofReporter (r : Nat) (l : List (Item β)) : List β := (l.filter (fun x => x.1 == r)).map (·.2)

def isReportEv : Ev → Bool
  | .report _ => true
  | _ => false

/-- every Report call happens before the cancel: no `report` event after the first `cancel` -/
def NoReportAfterCancel : List Ev → Prop
  | [] => True
  | .cancel :: rest => ∀ e ∈ rest, isReportEv e = false
  | _ :: rest => NoReportAfterCancel rest

end Pandora.Model.AggQueue
