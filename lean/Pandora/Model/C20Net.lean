/-
C20 — which endpoint every connection of the gRPC guns is dialled to (core Lean only).

components/guns/grpc/core.go:

  makeConnect            dials  g.Conf.Target
  makeReflectionConnect  dials  replacePort(g.Conf.Target, g.Conf.ReflectPort)
  prepareMethodList      (warm-up, once)           uses makeReflectionConnect — descriptors only, closed afterwards
  prepareClientPool      (warm-up, shared client)  uses makeConnect, `client-number` times
  Bind                   (per instance)            takes the pool's next stub, or uses makeConnect

(the scenario gun wraps a plain gun and hands `Target`, `ReflectPort`, `ReflectMetadata`, `Timeout`, `TLS` down to it).
These facts are regenerated from the source (`Gen.GrpcGun.connectTarget`, `reflectionTarget`, `reflectDial`,
`poolDial`, `bindDial`, `replacePortRows`, `scenarioConfCopies`) and proved equal in `Bridge/C20.lean`.
-/
import Pandora.Model.C20

namespace Pandora.Model.C20

/-! ### `replacePort` -/

/-- split at every `:` (structural, so that `decide` can run it) -/
def splitColon : List Char → List Char → List (List Char)
  | acc, [] => [acc.reverse]
  | acc, c :: rest => if c = ':' then acc.reverse :: splitColon [] rest else splitColon (c :: acc) rest

/-- `strconv.ParseInt(s, 10, 64)` succeeds: optional sign, at least one digit, inside the int64 range -/
def parsesInt64 (cs : List Char) : Bool :=
  let (neg, ds) := match cs with
    | '-' :: r => (true, r)
    | '+' :: r => (false, r)
    | _ => (false, cs)
  isDigits ds &&
    (let v : Nat := ds.foldl (fun a c => a * 10 + (c.toNat - 48)) 0
     if neg then v ≤ 9223372036854775808 else v ≤ 9223372036854775807)

def joinColon : List (List Char) → List Char
  | [] => []
  | [x] => x
  | x :: rest => x ++ ':' :: joinColon rest

/-- `replacePort(host, port)`: port 0 = not configured; a host without port gets one appended; a last `:`-separated
part that is not a number is taken as part of the host; otherwise the last part is replaced -/
def replacePort (host : String) (port : Nat) : String :=
  if port == 0 then host else
  let parts := splitColon [] host.toList
  if parts.length == 1 then host ++ ":" ++ toString port
  else if !(parsesInt64 (parts.getLastD [])) then host ++ ":" ++ toString port
  else String.ofList (joinColon (parts.dropLast ++ [(toString port).toList]))

/-! ### connections -/

structure Net where
  /-- the gun's `target` option -/
  target : String
  /-- the gun's `reflect_port` option (0 = not configured) -/
  reflectPort : Nat := 0
  deriving Repr

/-- a connection the gun makes: the warm-up's reflection connection, the `k`-th connection of the shared client pool,
instance `i`'s own connection -/
inductive Dial where
  | reflection
  | pool (k : Nat)
  | own (i : Nat)
  deriving DecidableEq, Repr

def dialAddr (c : Net) : Dial → String
  | .reflection => replacePort c.target c.reflectPort
  | .pool _ => c.target
  | .own _ => c.target

/-- every connection made by the warm-up and by the `Bind` of `n` instances (`sc` = size of the shared client pool,
0 = shared client off) -/
def dialPlan (sc n : Nat) : List Dial :=
  Dial.reflection :: ((List.range sc).map Dial.pool ++ (if sc == 0 then (List.range n).map Dial.own else []))

/-- the connection behind the stub of the `k`-th bound instance (`stubOf`: the pool's round robin) -/
def stubDial (sc k : Nat) : Dial := if sc == 0 then .own k else .pool (stubOf sc k)

/-- the address the calls of instance `k` go to -/
def stubAddr (c : Net) (sc k : Nat) : String := dialAddr c (stubDial sc k)

/-- calls of a pool trace that went anywhere else than to the target -/
def strayCalls (c : Net) (sc : Nat) (tr : List (Nat × Nat × Outcome)) : Nat :=
  ((tr.filter fun (i, _, _) => stubAddr c sc i != c.target).map fun (_, _, o) => o.calls.length).foldl (· + ·) 0

end Pandora.Model.C20

/-! ### grpc/json: a line of the ammo file becomes the POOLED ammo object

`grpcjson.decodeAmmo(line, pooled)`: the provider takes an `Ammo` from a `sync.Pool` (whatever its previous use left in
it), decodes the JSON line into a FRESH zero-valued `Ammo` and resets the pooled one with the four fields of the fresh
one (`Reset` assigns the whole struct). JSON decoding INTO an existing object leaves the fields whose keys are absent
from the line as they are and merges into an existing map — which is why the fresh object matters. -/

namespace Pandora.Model.C20

/-- a line of the ammo file: every key may be absent -/
structure Line where
  tag : Option String := none
  call : Option String := none
  md : Option (List (String × String)) := none
  payload : Option (List (String × PVal)) := none

def zeroEntry : Entry := { tag := "", call := "", md := [], payload := [] }

/-- merge `new` into an existing map: keys of `new` overwrite / are added, other keys of `old` stay -/
def mergeMap {β : Type} (old new : List (String × β)) : List (String × β) :=
  (old.filter fun (k, _) => !(new.any fun (k', _) => k' == k)) ++ new

/-- `json.Unmarshal(line, &target)`: present keys overwrite (maps: merge into the existing one), absent keys keep -/
def unmarshalInto (target : Entry) (l : Line) : Entry :=
  { tag := l.tag.getD target.tag, call := l.call.getD target.call,
    md := match l.md with | some m => mergeMap target.md m | none => target.md,
    payload := match l.payload with | some m => mergeMap target.payload m | none => target.payload }

/-- `(*Ammo).Reset(tag, call, metadata, payload)`: the whole struct is assigned -/
def resetAmmo (_pooled : Entry) (tag call : String) (md : List (String × String)) (payload : List (String × PVal)) : Entry :=
  { tag := tag, call := call, md := md, payload := payload }

/-- the code as it is: decode into a fresh object, reset the pooled one from it -/
def decodeAmmo (pooled : Entry) (l : Line) : Entry :=
  let fresh := unmarshalInto zeroEntry l
  resetAmmo pooled fresh.tag fresh.call fresh.md fresh.payload

/-- the "allocation optimisation": clear tag and call, keep the maps, decode in place -/
def decodeAmmoInPlace (pooled : Entry) (l : Line) : Entry :=
  unmarshalInto (resetAmmo pooled "" "" pooled.md pooled.payload) l

end Pandora.Model.C20
