/-
C06 (iii') — the pool's `runRes` channel (core/engine/engine.go): `make(chan instanceRunResult, runResultBufSize)`,
every instance goroutine does ONE send `runRes <- instanceRunResult{…}` when its instance is over, the await loop
receives. The pool's transition system (`Model.C06Pool`) counts results "sent (or being sent)" and lets the await
loop take one whenever fewer were taken than sent — that is a channel whose sends BLOCK when the buffer is full
(a sender waits, its result is not lost). Here the channel itself: capacity, buffered results, blocked senders.
`blocking := false` is the variant `select { case runRes <- res: default: }`.
An event that is not enabled leaves the state unchanged.
-/
namespace Pandora.Model.C06ResChan

inductive Ev
  | send   -- an instance goroutine reaches its send
  | recv   -- the await loop's `case res := <-ah.runRes`
  deriving DecidableEq, Repr

structure St where
  cap : Nat
  buffered : Nat := 0    -- results in the channel's buffer
  blocked : Nat := 0     -- senders waiting for room
  sent : Nat := 0        -- sends reached
  received : Nat := 0
  lost : Nat := 0        -- results dropped by a non-blocking send
  deriving DecidableEq, Repr

def step (blocking : Bool) (st : St) : Ev → St
  | .send =>
    if st.buffered < st.cap then { st with buffered := st.buffered + 1, sent := st.sent + 1 }
    else if blocking then { st with blocked := st.blocked + 1, sent := st.sent + 1 }
    else { st with lost := st.lost + 1, sent := st.sent + 1 }
  | .recv =>
    if st.buffered > 0 then
      -- one result is taken; a waiting sender (if any) moves into the free slot
      if st.blocked > 0 then { st with blocked := st.blocked - 1, received := st.received + 1 }
      else { st with buffered := st.buffered - 1, received := st.received + 1 }
    else if st.blocked > 0 then
      -- an unbuffered channel (cap = 0): direct hand-over from a waiting sender
      { st with blocked := st.blocked - 1, received := st.received + 1 }
    else st

def run (blocking : Bool) (st : St) : List Ev → St
  | [] => st
  | e :: es => run blocking (step blocking st e) es

/-- the await loop's receive case is enabled -/
def canRecv (st : St) : Bool := st.buffered > 0 || st.blocked > 0

end Pandora.Model.C06ResChan
