/-
Model C16, from `AmmoConfig` to ammo (`components/providers/scenario/http/decode.go`, `grpc/decode.go`: `decodeAmmo`,
`convertScenarioToAmmo`; `config/decode.go`: `ParseShootName`, `SpreadNames`; `lib/str.ParseStringFunc`).

Both providers run the same algorithm on the decoded record (the http one over `Requests`, the grpc one over `Calls`):

* a scenario with a negative weight refuses the file;
* `SpreadNames`: no scenario → no ammo; one scenario → once; otherwise weight 0 counts as 1 and every scenario is
  repeated `weight / gcd(weights)` times (the count is looked up by NAME: of two scenarios with the same name the
  count of the later one serves both);
* every entry of a scenario's `requests` is `name`, `name(count)` or `name(count, sleep)` (`ParseShootName`); the step is
  looked up by name (of two steps with the same name the later wins) and repeated `count` times, `sleep` (ms, when
  positive) is added to each copy; the pseudo step `sleep(ms)` adds to the LAST copy before it and is refused when
  nothing precedes it.

The ammo of one pass is the list of (scenario name, min waiting time, [(step name, sleep)]) — the content of a step
(method, headers, body, processors …) is the step's config record, copied field by field.  Waiting times and sleeps
are `time.Duration`s: `time.Millisecond * time.Duration(ms)` and `+=` are int64 operations and WRAP AROUND (`wrap64`);
they are kept in nanoseconds, exactly as the gun receives them.  Core Lean only.
-/
import Pandora.Model.C16

namespace Pandora.Model.C16

/-- `unicode.IsSpace` -/
def goSpace (c : Char) : Bool :=
  c == '\t' || c == '\n' || c == '\x0b' || c == '\x0c' || c == '\r' || c == ' ' || c.toNat == 0x85 || c.toNat == 0xa0 ||
  c.toNat == 0x1680 || (0x2000 ≤ c.toNat && c.toNat ≤ 0x200a) || c.toNat == 0x2028 || c.toNat == 0x2029 ||
  c.toNat == 0x202f || c.toNat == 0x205f || c.toNat == 0x3000

/-- `strings.TrimSpace` -/
def goTrim (cs : List Char) : List Char := ((cs.dropWhile goSpace).reverse.dropWhile goSpace).reverse

def idxOf (c : Char) : List Char → Option Nat
  | [] => none
  | x :: xs => if x == c then some 0 else (idxOf c xs).map (· + 1)

def splitComma : List Char → List Char → List (List Char)
  | [], cur => [cur.reverse]
  | c :: rest, cur => if c == ',' then cur.reverse :: splitComma rest [] else splitComma rest (c :: cur)

/-- `str.ParseStringFunc`: `none` = "invalid close bracket position" -/
def parseStringFunc (cs : List Char) : Option (List Char × List (List Char)) :=
  match idxOf '(' cs with
  | none => if cs.contains ')' then none else some (cs, [])
  | some i =>
    let name := goTrim (cs.take i)
    let arg := goTrim (cs.drop (i + 1))
    match idxOf ')' arg with
    | none => none
    | some j =>
      if j + 1 != arg.length then none
      else some (name, (splitComma (goTrim (arg.take j)) []).map goTrim)

def digitsVal : List Char → Nat → Option Nat
  | [], acc => some acc
  | c :: rest, acc => if '0' ≤ c ∧ c ≤ '9' then digitsVal rest (acc * 10 + (c.toNat - '0'.toNat)) else none

/-- `strconv.Atoi` (64-bit int) -/
def atoi (cs : List Char) : Option Int :=
  let (neg, ds) := match cs with
    | '-' :: r => (true, r)
    | '+' :: r => (false, r)
    | r => (false, r)
  if ds.isEmpty then none
  else match digitsVal ds 0 with
    | none => none
    | some n =>
      if neg then (if n ≤ 2 ^ 63 then some (-(n : Int)) else none)
      else (if n < 2 ^ 63 then some (n : Int) else none)

/-- Go int64 arithmetic: the result modulo 2^64, as a signed number -/
def wrap64 (x : Int) : Int := (x + 9223372036854775808) % 18446744073709551616 - 9223372036854775808

/-- `time.Millisecond * time.Duration(ms)` (nanoseconds; wraps for |ms| ≥ 2^63 / 10^6) -/
def msToNs (ms : Int) : Int := wrap64 (ms * 1000000)

/-- `d / time.Millisecond` (Go integer division truncates toward zero): what a duration shows as, in ms -/
def nsToMs (ns : Int) : Int := Int.tdiv ns 1000000

/-- `config.ParseShootName`: (name, count, sleep) -/
def parseShootName (sh : String) : Option (String × Int × Int) :=
  match parseStringFunc sh.toList with
  | none => none
  | some (name, args) =>
    let cnt : Option Int := match args with
      | a :: _ => if a.isEmpty then some 1 else atoi a
      | [] => some 1
    let slp : Option Int := match args with
      | _ :: b :: _ => if b.isEmpty then some 0 else atoi b
      | _ => some 0
    match cnt, slp with
    | some c, some s => some (String.ofList name, c, s)
    | _, _ => none

/-- `convertScenarioToAmmo`: the steps of one scenario with their `Sleep` (ns), most recent first -/
def convertSteps (known : List String) : List String → List (String × Int) → Option (List (String × Int))
  | [], acc => some acc
  | sh :: rest, acc =>
    match parseShootName sh with
    | none => none
    | some (name, cnt, slp) =>
      if name == "sleep" then
        match acc with
        | [] => none
        | (n, s) :: acc' => convertSteps known rest ((n, wrap64 (s + msToNs cnt)) :: acc')
      else if !known.contains name then none
      else convertSteps known rest (List.replicate cnt.toNat (name, if slp > 0 then msToNs slp else 0) ++ acc)

/-- one scenario of the decoded config -/
structure ScenarioRow where
  name : String
  weight : Int
  minWait : Int
  requests : List String
  deriving Repr, Inhabited

/-- one ammo: scenario name, min waiting time (ns), steps with their sleep (ns) -/
structure AmmoRow where
  name : String
  minWait : Int
  steps : List (String × Int)
  deriving Repr, Inhabited, DecidableEq

/-- `config.SpreadNames`: how often each scenario (by position) is repeated -/
def spreadCounts (scs : List ScenarioRow) : List (String × Nat) :=
  match scs with
  | [] => []
  | [s] => [(s.name, 1)]
  | _ =>
    let ws := scs.map fun s => if s.weight == 0 then 1 else s.weight.toNat
    let g := ws.foldl Nat.gcd 0
    scs.map fun s => (s.name, (if s.weight == 0 then 1 else s.weight.toNat) / g)

/-- the count `decodeAmmo` finds under a scenario's name: the last entry written to the map -/
def countOf (counts : List (String × Nat)) (name : String) : Nat :=
  match counts.reverse.find? (fun p => p.1 == name) with
  | some p => p.2
  | none => 0

def buildAmmo (known : List String) (counts : List (String × Nat)) : List ScenarioRow → Option (List AmmoRow)
  | [] => some []
  | s :: rest =>
    match convertSteps known s.requests [], buildAmmo known counts rest with
    | some steps, some more => some (List.replicate (countOf counts s.name) ⟨s.name, msToNs s.minWait, steps.reverse⟩ ++ more)
    | _, _ => none

/-- `decodeAmmo` of scenario/http (steps = requests) and scenario/grpc (steps = calls): `none` = the provider refuses -/
def decodeAmmo (stepNames : List String) (scs : List ScenarioRow) : Option (List AmmoRow) :=
  if scs.any (fun s => s.weight < 0) then none
  else buildAmmo stepNames (spreadCounts scs) scs

/-! ### reading the decoded record -/

def recField (v : V) (k : String) : Option V :=
  match v with
  | .map kvs => (kvs.find? (fun p => p.1 == k)).map (·.2)
  | _ => none

def recStr (v : V) (k : String) : String :=
  match recField v k with
  | some (.str s) => s
  | _ => ""

def recInt (v : V) (k : String) : Int :=
  match recField v k with
  | some (.int i) => i
  | _ => 0

def recList (v : V) (k : String) : List V :=
  match recField v k with
  | some (.seq xs) => xs
  | _ => []

def strItems : List V → List String
  | [] => []
  | .str s :: r => s :: strItems r
  | _ :: r => "" :: strItems r

def scenarioRows (r : V) : List ScenarioRow :=
  (recList r "Scenarios").map fun s => ⟨recStr s "Name", recInt s "Weight", recInt s "MinWaitingTime", strItems (recList s "Requests")⟩

/-- the provider the file is for: grpc when it has calls and no requests -/
def stepNames (r : V) : List String :=
  let reqs := recList r "Requests"
  let calls := recList r "Calls"
  if reqs.isEmpty && !calls.isEmpty then calls.map (recStr · "Name") else reqs.map (recStr · "Name")

/-- the ammo of one pass from the decoded `AmmoConfig` record (`none` record = the zero `AmmoConfig`) -/
def ammoOf (r : Option V) : Option (List AmmoRow) :=
  match r with
  | none => some []
  | some v => decodeAmmo (stepNames v) (scenarioRows v)

end Pandora.Model.C16
