/-
C06 (i) — the phout line layout.

Mirror of `core/aggregator/netsample/phout.go` (`appendPhout`, `appendTimestamp`, the `'\n'` of
`handle`) and of the field array of `sample.go`. Core Lean only.

Go facts the model keeps explicit
* `appendTimestamp` prints `ts.UnixNano()/1e6` in decimal and then moves the last three bytes one
  place to the right (a byte-by-byte shift loop) to make room for a dot. When the decimal text has
  fewer than three bytes the loop reads `dst[-1]`: **panic** (`none`). With exactly three bytes the
  seconds part is empty (".123").
* `s.ID()` is a `uint64` printed through `int64(...)`: ids ≥ 2^63 print negative.
* `int` fields are printed with `strconv.AppendInt(…, 10)`; the model prints unbounded `Int`s (a
  superset of int64).
* tags are copied verbatim: no escaping of TAB / LF.
-/
namespace Pandora.Go
/-- makes the namespace exist for the header the translator writes into `Gen/Phout.lean` -/
def c06NamespaceMarker : Unit := ()
end Pandora.Go

namespace Pandora.Model.Phout

abbrev Bytes := List UInt8

def TAB : UInt8 := 9
def LF : UInt8 := 10
def DOT : UInt8 := 46
def HASH : UInt8 := 35
def MINUS : UInt8 := 45

/-! ## decimal printing (strconv.AppendInt base 10) -/

def digitByte (d : Nat) : UInt8 := UInt8.ofNat (48 + d)

/-- decimal digits of a natural number, most significant first, no leading zeros ("0" for 0) -/
def natDigits (n : Nat) : Bytes :=
  if n < 10 then [digitByte n] else natDigits (n / 10) ++ [digitByte (n % 10)]
termination_by n
decreasing_by omega

/-- `strconv.AppendInt(nil, i, 10)` -/
def intBytes (i : Int) : Bytes :=
  if i < 0 then MINUS :: natDigits i.natAbs else natDigits i.toNat

/-! ## the sample -/

/-- `fieldsNum` -/
def fieldsNum : Nat := 10

/-- A `netsample.Sample` as phout sees it. `ms` is `timeStamp.UnixNano()/1e6`. The ten integers are
named after the documented phout columns; `fields` lists them in array-index order. -/
structure Sample where
  ms : Int
  tag : Bytes
  id : Nat
  intervalReal : Int     -- fields[keyRTTMicro]
  connect : Int          -- fields[keyConnectMicro]
  send : Int             -- fields[keySendMicro]
  latency : Int          -- fields[keyLatencyMicro]
  receive : Int          -- fields[keyReceiveMicro]
  intervalEvent : Int    -- fields[keyIntervalEventMicro]
  sizeOut : Int          -- fields[keyRequestBytes]
  sizeIn : Int           -- fields[keyResponseBytes]
  netCode : Int          -- fields[keyErrno]
  protoCode : Int        -- fields[keyProtoCode]
  deriving Repr, DecidableEq

/-- `s.fields` in index order 0 … 9 (the order `for _, v := range s.fields` visits) -/
def Sample.fields (s : Sample) : List Int :=
  [s.intervalReal, s.connect, s.send, s.latency, s.receive, s.intervalEvent,
   s.sizeOut, s.sizeIn, s.netCode, s.protoCode]

/-- documented phout column names, in column order (Yandex.Tank phout definition) -/
def documentedOrder : List String :=
  ["interval_real", "connect", "send", "latency", "receive", "interval_event",
   "size_out", "size_in", "net_code", "proto_code"]

/-- which Go array-index constant holds which documented column (hand-written reading of sample.go's
setters: RTT = interval_real, RequestBytes = size_out, ResponseBytes = size_in, Errno = net_code) -/
def keyMeaning : List (String × String) :=
  [("keyRTTMicro", "interval_real"), ("keyConnectMicro", "connect"), ("keySendMicro", "send"),
   ("keyLatencyMicro", "latency"), ("keyReceiveMicro", "receive"),
   ("keyIntervalEventMicro", "interval_event"), ("keyRequestBytes", "size_out"),
   ("keyResponseBytes", "size_in"), ("keyErrno", "net_code"), ("keyProtoCode", "proto_code")]

/-- public setter of `*Sample` ↦ documented column it must end up in -/
def setterMeaning : List (String × String) :=
  [("SetUserDuration", "interval_real"), ("SetConnectTime", "connect"), ("SetSendTime", "send"),
   ("SetLatency", "latency"), ("SetReceiveTime", "receive"), ("SetRequestBytes", "size_out"),
   ("SetResponseBytes", "size_in"), ("SetUserNet", "net_code"), ("SetUserProto", "proto_code"),
   ("SetErr", "net_code"), ("SetProtoCode", "proto_code")]

/-- column names of `Sample.fields`, position by position (the structure's own field names) -/
def modelOrder : List String :=
  ["interval_real", "connect", "send", "latency", "receive", "interval_event",
   "size_out", "size_in", "net_code", "proto_code"]

/-- `int64(uint64 id)` -/
def idSigned (id : Nat) : Int :=
  if id % 18446744073709551616 < 9223372036854775808 then ((id % 18446744073709551616 : Nat) : Int)
  else ((id % 18446744073709551616 : Nat) : Int) - 18446744073709551616

/-- `ts.UnixNano()/1e6` (Go integer division truncates toward zero) -/
def tsDivisor : Int := 1000000
def msOfNanos (ns : Int) : Int := Int.tdiv ns tsDivisor

/-! ## appendTimestamp -/

/-- number of bytes after the dot -/
def dotFromEnd : Nat := 3

/-- `for i := len(dst)-1; i > dotIndex; i-- { dst[i] = dst[i-1] }`, `k` = iterations left (`i = dot+k`) -/
def shiftLoop (dot : Nat) : Nat → Bytes → Bytes
  | 0, dst => dst
  | k+1, dst => shiftLoop dot k (dst.set (dot + k + 1) (dst.getD (dot + k) 0))

/-- the dot insertion of `appendTimestamp` applied to the decimal text `d` (dst is empty before the
call in both callers). `none` = runtime panic "index out of range [-1]". -/
def insertDot (d : Bytes) : Option Bytes :=
  let dotIndex : Int := (d.length : Int) - (dotFromEnd : Int)
  if dotIndex < 0 then none
  else
    let dot := dotIndex.toNat
    let dst := d ++ [0]
    let dst := shiftLoop dot (dst.length - 1 - dot) dst
    some (dst.set dot DOT)

def appendTimestamp (ms : Int) : Option Bytes := insertDot (intBytes ms)

/-! ## appendPhout / handle -/

def idPart (s : Sample) (withId : Bool) : Bytes :=
  if withId then HASH :: intBytes (idSigned s.id) else []

def fieldsPart (s : Sample) : Bytes :=
  s.fields.flatMap fun v => TAB :: intBytes v

/-- `appendPhout(s, nil, id)` -/
def encodeBody (s : Sample) (withId : Bool) : Option Bytes :=
  (appendTimestamp s.ms).map fun ts => ts ++ TAB :: s.tag ++ idPart s withId ++ fieldsPart s

/-- the bytes `handle` hands to the buffered writer for one sample -/
def encode (s : Sample) (withId : Bool) : Option Bytes :=
  (encodeBody s withId).map (· ++ [LF])

/-- closed form the theorems are stated about -/
def pad3 (k : Nat) : Bytes := [digitByte (k / 100), digitByte (k / 10 % 10), digitByte (k % 10)]

/-! ## statement-by-statement reading of `appendPhout` (target of the regenerated table) -/

inductive Atom
  | timestamp              -- dst = appendTimestamp(s.timeStamp, dst)
  | byte (b : Nat)         -- dst = append(dst, <byte constant>)
  | tags                   -- dst = append(dst, s.tags...)
  | intId (base : Nat)     -- dst = strconv.AppendInt(dst, int64(s.ID()), base)
  | intVar (base : Nat)    -- dst = strconv.AppendInt(dst, int64(v), base)   (v = range variable)
  deriving Repr, DecidableEq

inductive Stmt
  | atom (a : Atom)
  | ifId (body : List Atom)        -- if id { … }
  | forFields (body : List Atom)   -- for _, v := range s.fields { … }
  deriving Repr, DecidableEq

def Atom.run (s : Sample) (v : Int) : Atom → Option Bytes
  | .timestamp => appendTimestamp s.ms
  | .byte b => some [UInt8.ofNat b]
  | .tags => some s.tag
  | .intId base => if base = 10 then some (intBytes (idSigned s.id)) else none
  | .intVar base => if base = 10 then some (intBytes v) else none

def runAtoms (s : Sample) (v : Int) : List Atom → Option Bytes
  | [] => some []
  | a :: rest => do
      let x ← a.run s v
      let y ← runAtoms s v rest
      pure (x ++ y)

def runFor (s : Sample) (body : List Atom) : List Int → Option Bytes
  | [] => some []
  | v :: vs => do
      let x ← runAtoms s v body
      let y ← runFor s body vs
      pure (x ++ y)

def Stmt.run (s : Sample) (withId : Bool) : Stmt → Option Bytes
  | .atom a => a.run s 0
  | .ifId body => if withId then runAtoms s 0 body else some []
  | .forFields body => runFor s body s.fields

def runStmts (s : Sample) (withId : Bool) : List Stmt → Option Bytes
  | [] => some []
  | st :: rest => do
      let x ← st.run s withId
      let y ← runStmts s withId rest
      pure (x ++ y)

/-! ## decoding (the reader's side: what a phout consumer does with a line) -/

def digitVal (b : UInt8) : Option Nat :=
  if 48 ≤ b.toNat ∧ b.toNat ≤ 57 then some (b.toNat - 48) else none

def parseNatAcc : Nat → Bytes → Option Nat
  | acc, [] => some acc
  | acc, b :: r =>
    match digitVal b with
    | some d => parseNatAcc (acc * 10 + d) r
    | none => none

def parseNat (l : Bytes) : Option Nat :=
  match l with
  | [] => none
  | _ :: _ => parseNatAcc 0 l

def parseInt (l : Bytes) : Option Int :=
  match l with
  | [] => none
  | b :: r => if b = MINUS then (parseNat r).map (fun n => - (n : Int)) else (parseNat (b :: r)).map (fun n => (n : Int))

/-- split on a separator byte; always at least one piece -/
def splitOn (sep : UInt8) : Bytes → List Bytes
  | [] => [[]]
  | b :: rest =>
    if b = sep then [] :: splitOn sep rest
    else match splitOn sep rest with
      | [] => [[b]]
      | h :: t => (b :: h) :: t

/-- split at the LAST occurrence of `sep` -/
def splitLast (sep : UInt8) : Bytes → Option (Bytes × Bytes)
  | [] => none
  | b :: rest =>
    match splitLast sep rest with
    | some (x, y) => some (b :: x, y)
    | none => if b = sep then some ([], rest) else none

def parseTimestamp (t : Bytes) : Option Int :=
  match splitOn DOT t with
  | [a, b] =>
    if b.length = 3 then do
      let sec ← parseNat a
      let k ← parseNat b
      pure ((sec : Int) * 1000 + (k : Int))
    else none
  | _ => none

def parseTagId (t : Bytes) (withId : Bool) : Option (Bytes × Nat) :=
  if withId then
    match splitLast HASH t with
    | some (tag, idb) => (parseInt idb).map fun i => (tag, (i % 18446744073709551616).toNat)
    | none => none
  else some (t, 0)

/-- decode one phout line body (without the LF) -/
def decodeBody (body : Bytes) (withId : Bool) : Option Sample :=
  match splitOn TAB body with
  | [ts, tagid, f0, f1, f2, f3, f4, f5, f6, f7, f8, f9] => do
      let ms ← parseTimestamp ts
      let (tag, id) ← parseTagId tagid withId
      let v0 ← parseInt f0
      let v1 ← parseInt f1
      let v2 ← parseInt f2
      let v3 ← parseInt f3
      let v4 ← parseInt f4
      let v5 ← parseInt f5
      let v6 ← parseInt f6
      let v7 ← parseInt f7
      let v8 ← parseInt f8
      let v9 ← parseInt f9
      pure { ms := ms, tag := tag, id := id, intervalReal := v0, connect := v1, send := v2, latency := v3,
             receive := v4, intervalEvent := v5, sizeOut := v6, sizeIn := v7, netCode := v8, protoCode := v9 }
  | _ => none

/-- decode one complete line (must end in LF) -/
def decode (line : Bytes) (withId : Bool) : Option Sample :=
  match line.getLast? with
  | some b => if b = LF then decodeBody line.dropLast withId else none
  | none => none

/-- a result file = concatenation of lines; its lines are the pieces between LFs, the last piece
(after the final LF) must be empty -/
def fileLines (file : Bytes) : Option (List Bytes) :=
  let ps := splitOn LF file
  match ps.getLast? with
  | some [] => some ps.dropLast
  | _ => none

end Pandora.Model.Phout
