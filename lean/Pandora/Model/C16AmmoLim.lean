/-
Model C16, round 6 (NOT yet wired into the driver — see notes/C16.md, open points): the limits that the repairs 4cfc662 /
1eaf10a added to both scenario providers.

    names, size := config.SpreadNames(cfg.Scenarios)
    if err := config.CheckSpread(names, size); err != nil { return nil, err }      -- total and every count in [0, 2^24]
    …
    if cnt > config.MaxScenarioRequests-len(result.Requests) { return nil, … }      -- at most 2^20 steps per scenario

`total` is a Go `int` summed up with wrap-around (`wrap64`); the counts CheckSpread looks at are the values of the
`names` map, i.e. the count of the LAST scenario of each name.  `decodeAmmoLim` is `decodeAmmo` with these refusals;
`Proofs/C16AmmoLim.lean` proves that it only refuses more (`decodeAmmoLim_refines`) and that what it accepts is bounded.
Core Lean only.
-/
import Pandora.Model.C16Ammo

namespace Pandora.Model.C16

def maxSpreadSize : Nat := 16777216
def maxScenarioRequests : Nat := 1048576

/-- `convertScenarioToAmmo` with the `MaxScenarioRequests` test in front of the append loop -/
def convertStepsLim (known : List String) : List String → List (String × Int) → Option (List (String × Int))
  | [], acc => some acc
  | sh :: rest, acc =>
    match parseShootName sh with
    | none => none
    | some (name, cnt, slp) =>
      if name == "sleep" then
        match acc with
        | [] => none
        | (n, s) :: acc' => convertStepsLim known rest ((n, wrap64 (s + msToNs cnt)) :: acc')
      else if !known.contains name then none
      else if cnt > (maxScenarioRequests : Int) - (acc.length : Int) then none
      else convertStepsLim known rest (List.replicate cnt.toNat (name, if slp > 0 then msToNs slp else 0) ++ acc)

/-- `config.CheckSpread` on the result of `SpreadNames` -/
def checkSpread (counts : List (String × Nat)) : Bool :=
  let total := wrap64 (counts.foldl (fun a p => a + (p.2 : Int)) 0)
  decide (0 ≤ total) && decide (total ≤ (maxSpreadSize : Int)) &&
    counts.all fun p => decide (countOf counts p.1 ≤ maxSpreadSize)

def buildAmmoLim (known : List String) (counts : List (String × Nat)) : List ScenarioRow → Option (List AmmoRow)
  | [] => some []
  | s :: rest =>
    match convertStepsLim known s.requests [], buildAmmoLim known counts rest with
    | some steps, some more => some (List.replicate (countOf counts s.name) ⟨s.name, msToNs s.minWait, steps.reverse⟩ ++ more)
    | _, _ => none

/-- `decodeAmmo` of the current source: negative weight, `CheckSpread`, then the scenarios one by one -/
def decodeAmmoLim (stepNames : List String) (scs : List ScenarioRow) : Option (List AmmoRow) :=
  if scs.any (fun s => s.weight < 0) then none
  else if !checkSpread (spreadCounts scs) then none
  else buildAmmoLim stepNames (spreadCounts scs) scs

end Pandora.Model.C16
