/-
C10, round 6 — between the schedule and the gun: the loop of `instance.Run` (core/engine/instance.go).

A request is FIRED by `i.gun.Shoot(ammo)` inside one iteration of that loop; the same iteration may instead hand the
aggregator `netsample.DiscardedShootSample()` (tag `discarded`, net code 777: "this shot was NOT sent") when
`discard_overflow` is on and the instance is too far behind its schedule. "Each fired request produces exactly one
sample" is a statement about what reaches `Aggregator.Report`, so it passes through this loop.

The loop body is NOT modelled a second time here: C03 regenerates it from the source on every run as
`Pandora.Gen.InstLoop.iterBody : List Pandora.Model.C03Loop.Instr` and owns its interpreter `Pandora.Model.C03Loop.exec`.
This file only says which of the interpreter's acts put a sample in front of the aggregator, and composes that with the
guns of `Pandora.Model.C10` (core Lean only: the model driver links it).
-/
import Pandora.Model.C10
import Pandora.Model.C03Loop

namespace Pandora.Model.C10
open Pandora.Model.C03Loop (Instr Act Oracle Outcome exec)

/-! ## the discarded-shot sample -/

/-- `netsample.DiscardedShootTag` -/
def discardedTag : String := "discarded"
/-- `netsample.DiscardedShootCodeError` -/
def discardedNet : Nat := 777

/-- `netsample.DiscardedShootSample()`: `&Sample{timeStamp: now, tags: DiscardedShootTag}` + `SetUserNet(777)`:
no id, no protocol code -/
def discardedSample : Sample := { tags := discardedTag, id := 0, proto := 0, net := discardedNet }

/-! ## which acts of an iteration reach the aggregator -/

/-- `gun`: the samples `i.gun.Shoot(ammo)` reports for the ammo of this iteration (any gun of `Model.C10`) -/
def actReports (gun : List Sample) : Act → List Sample
  | .shoot => gun
  | .discard => [discardedSample]
  | _ => []

/-- the samples one iteration of the loop body `body` hands to the aggregator under the environment's answers `o` -/
def iterReports (body : List Instr) (o : Oracle) (gun : List Sample) : List Sample :=
  (exec body o .run none []).1.flatMap (actReports gun)

/-- how often the iteration calls `gun.Shoot` -/
def iterShots (body : List Instr) (o : Oracle) : Nat :=
  ((exec body o .run none []).1.filter (· == Act.shoot)).length

/-! ## the decision to fire -/

/-- `(*Waiter).IsSlowDown`: `overdueDuration >= MaxOverdueDuration` (nanoseconds; 2 s) unless the context is done -/
def maxOverdueNanos : Nat := 2000000000

def isSlowDown (ctxDone : Bool) (overdueNanos : Nat) : Bool :=
  if ctxDone then false else decide (overdueNanos ≥ maxOverdueNanos)

/-- the condition `.ifFire` stands for: `!i.discardOverflow || !waiter.IsSlowDown(ctx)` -/
def fireDecision (discardOverflow slowDown : Bool) : Bool := !discardOverflow || !slowDown

/-- what the environment answers in one iteration of one instance, and what the gun would report -/
structure Iter where
  /-- `provider.Acquire` returned an ammo -/
  acqOk : Bool := true
  /-- `waiter.Wait` returned true: a token was drawn and its time has come -/
  waitOk : Bool := true
  /-- the pool's `discard_overflow` -/
  discardOverflow : Bool := false
  ctxDone : Bool := false
  /-- how far behind its schedule the instance is when the token is handed out -/
  overdueNanos : Nat := 0
  /-- what `gun.Shoot(ammo)` reports for the ammo acquired in this iteration -/
  gun : List Sample := []
  deriving Repr, Inhabited

def Iter.fire (it : Iter) : Bool := fireDecision it.discardOverflow (isSlowDown it.ctxDone it.overdueNanos)

def Iter.oracle (it : Iter) : Oracle := { acqOk := it.acqOk, waitOk := it.waitOk, fire := it.fire }

/-- `instance.Run`'s loop over the iterations the environment allows: it goes on while the iteration function returns nil
and is left when it returns `outOfAmmoErr`. (`IsFinished` only decides how many iterations there are: the list.) -/
def runInstance (body : List Instr) : List Iter → List Sample
  | [] => []
  | it :: rest =>
    let r := exec body it.oracle .run none []
    r.1.flatMap (actReports it.gun) ++ (if r.2 == Outcome.retNil then runInstance body rest else [])

/-- what the property says one iteration must hand to the aggregator: the gun's samples for a request that is fired, ONE
discarded-shot sample for a shot that is not fired although its time had come, nothing when there was no ammo or no token -/
def iterSpec (it : Iter) : List Sample :=
  if it.acqOk && it.waitOk then (if it.fire then it.gun else [discardedSample]) else []

/-- the iterations the loop runs: up to and including the first whose `Acquire` fails -/
def ranIters : List Iter → List Iter
  | [] => []
  | it :: rest => if it.acqOk then it :: ranIters rest else [it]

/-! ## a whole pool run with discarded shots -/

/-- what becomes of an acquired ammo -/
inductive Fate where
  /-- `gun.Shoot(ammo)` -/
  | fired
  /-- not sent, accounted for by a discarded-shot sample -/
  | discarded
  /-- not sent, no sample (no token: schedule over or run cancelled while waiting) -/
  | dropped
  deriving Repr, DecidableEq, Inhabited

def fateOf (o : Oracle) : Fate :=
  if o.waitOk then (if o.fire then .fired else .discarded) else .dropped

/-- The samples of one pool run of a plain http gun, ordered by ACQUISITION (every acquired ammo takes the next id of the
provider's counter, whatever becomes of it). -/
def runPoolD {ι : Type} (cfg : AutoTagCfg) : Nat → List (ι × ShotPlan × Fate) → List Sample
  | _, [] => []
  | c, (_, p, f) :: rest =>
    (match f with
      | .fired => (shootHttp cfg (p.toShot (nextID c).2)).reports
      | .discarded => [discardedSample]
      | .dropped => []) ++ runPoolD cfg (nextID c).1 rest

/-- The same run, every iteration executed by the loop body `body` (instances interleaved in any way: the list is in
acquisition order; an iteration whose `Acquire` fails takes no id and reports nothing). -/
def runPoolLoop {ι : Type} (body : List Instr) (cfg : AutoTagCfg) : Nat → List (ι × ShotPlan × Oracle) → List Sample
  | _, [] => []
  | c, (_, p, o) :: rest =>
    if o.acqOk then
      iterReports body o (shootHttp cfg (p.toShot (nextID c).2)).reports ++ runPoolLoop body cfg (nextID c).1 rest
    else iterReports body o [] ++ runPoolLoop body cfg c rest

/-- the gun samples of a `runPoolD` run: the run with the discarded shots taken for dropped ones -/
def firedOnly {ι : Type} (plans : List (ι × ShotPlan × Fate)) : List (ι × ShotPlan) :=
  plans.map fun x => (x.1, { x.2.1 with fired := x.2.2 == .fired })

def countFate {ι : Type} (f : Fate) (plans : List (ι × ShotPlan × Fate)) : Nat :=
  (plans.filter fun x => x.2.2 == f).length

/-! ## option defaults: the `auto-tag` section of a gun's config

Every registered http-family gun decodes its config OVER the value its defaults function returns (`register.Gun(name,
constructor, defaults)`): a key the user does not write keeps the default. -/

/-- `Default{HTTP,HTTP2,Connect}GunConfig().AutoTag` (regenerated: `Gen.GrpcStatus.autoTagDefaults`, `gunDefaultConfig`) -/
def defaultAutoTag : AutoTagCfg := { enabled := false, uriElements := 2, noTagOnly := true }

/-- the section as written (`none`: key absent), decoded over the defaults -/
def decodeAutoTag (enabled : Option Bool) (el : Option Nat) (nto : Option Bool) : AutoTagCfg :=
  { enabled := enabled.getD defaultAutoTag.enabled, uriElements := el.getD defaultAutoTag.uriElements,
    noTagOnly := nto.getD defaultAutoTag.noTagOnly }

end Pandora.Model.C10
