/-
C15 — model of scenario decoding and execution (core Lean only, executable).

What is mirrored, function by function:
  lib/str.ParseStringFunc, config.ParseShootName          → `parseStringFunc`, `atoi`, `parseShootName`
  scenario/http/decode.go convertScenarioToAmmo           → `expandItems` / `expand`   (request-list expansion)
  lib/math.GCD / GCDM                                     → `gcdLoop`, `GCD`, `GCDM`   (fuel = a+b+1, see `C15_gcd`)
  config.SpreadNames + http/decode.go decodeAmmo          → `spreadNames`, `decodeAmmo` (the ammo ring)
  scenario.Provider.Run (delivery order)                  → `deliver`
  lib/mp.NextIterator.Next                                → `Iter.next`
  lib/mp.GetMapValue / extractFromSlice / calcIndex       → `getMapValue`
  http/preprocessor.Preprocessor.Process                  → `runPre`
  guns/http_scenario ScenarioGun.shoot / shootStep        → `shootStep`, `shootLoop`, `shoot`
  lib/mp.NextIterator.Next as small steps of N threads    → `NSys` (`step`, `run`), `gsRead`, `gsWrite`, `rowOf`

Partial Go operations are explicit outcomes: `make` with a negative capacity and a zero divisor in `SpreadNames`
are panics of `spreadNames` (unreachable from `decodeAmmo`, which refuses negative weights first); `sleep()` with no step before it and indexing into an empty data source are
errors (since the repairs 4ebec35 and d4ccb1f; they were an index −1 and a `% 0` panic before).

Templating (text/template over the variable tree), the target and the postprocessor libraries are
parameters (`World`): the theorems quantify over all of them.
-/
namespace Pandora.Model.C15

/-! ## outcomes -/

inductive Outcome (α : Type) where
  | ok (a : α)
  | err (e : String)       -- an `error` value is returned
  | panic (p : String)     -- the Go code panics
deriving Repr, DecidableEq

namespace Outcome
def bind {α β} (o : Outcome α) (f : α → Outcome β) : Outcome β :=
  match o with
  | .ok a => f a
  | .err e => .err e
  | .panic p => .panic p
instance : Monad Outcome where
  pure := .ok
  bind := Outcome.bind
end Outcome

/-! ## 1. str.ParseStringFunc, strconv.Atoi, config.ParseShootName (on `List Char`) -/

/-- `unicode.IsSpace` -/
def isSpaceC (c : Char) : Bool :=
  let n := c.toNat
  n == 0x20 || (0x09 ≤ n && n ≤ 0x0d) || n == 0x85 || n == 0xA0 || n == 0x1680 ||
  (0x2000 ≤ n && n ≤ 0x200a) || n == 0x2028 || n == 0x2029 || n == 0x202f || n == 0x205f || n == 0x3000

def trimLeft (s : List Char) : List Char := s.dropWhile isSpaceC
/-- `strings.TrimSpace` -/
def trimSpace (s : List Char) : List Char := (trimLeft (trimLeft s).reverse).reverse

/-- `strings.Split(s, sep)` for a one-character separator (never returns the empty list) -/
def splitOnC (sep : Char) : List Char → List (List Char)
  | [] => [[]]
  | c :: cs =>
    if c == sep then [] :: splitOnC sep cs
    else match splitOnC sep cs with
      | [] => [[c]]
      | h :: t => (c :: h) :: t

/-- `str.ParseStringFunc`: `none` args = Go `nil` (no brackets at all) -/
def parseStringFunc (s : List Char) : Except String (List Char × Option (List (List Char))) :=
  if !s.contains '(' then
    if s.contains ')' then .error "invalid close bracket position" else .ok (s, none)
  else
    let name := trimSpace (s.takeWhile (· != '('))
    let arg := trimSpace ((s.dropWhile (· != '(')).drop 1)
    -- the first ')' must be the last character
    let pre := arg.takeWhile (· != ')')
    if arg.length == 0 || pre.length + 1 != arg.length then .error "invalid close bracket position"
    else
      let args := (splitOnC ',' (trimSpace pre)).map trimSpace
      .ok (name, some args)

def digitVal (c : Char) : Option Nat :=
  if '0' ≤ c ∧ c ≤ '9' then some (c.toNat - '0'.toNat) else none

def parseDigits : List Char → Nat → Option Nat
  | [], acc => some acc
  | c :: cs, acc => match digitVal c with
    | some d => parseDigits cs (acc * 10 + d)
    | none => none

/-- `strconv.Atoi` on a 64-bit platform: optional sign, at least one decimal digit, range of int64 -/
def atoi (s : List Char) : Option Int :=
  let (neg, ds) := match s with
    | '-' :: r => (true, r)
    | '+' :: r => (false, r)
    | r => (false, r)
  if ds.isEmpty then none else
  match parseDigits ds 0 with
  | none => none
  | some n =>
    if neg then (if n ≤ 9223372036854775808 then some (-(n : Int)) else none)
    else (if n ≤ 9223372036854775807 then some (n : Int) else none)

/-- one entry of a scenario's `requests` list after `ParseShootName` -/
structure Item where
  name : List Char
  cnt : Int
  sleep : Int
deriving Repr, DecidableEq

def parseShootName (s : List Char) : Except String Item := do
  let (name, args) ← parseStringFunc s
  let a := args.getD []
  let cnt ← match a with
    | x :: _ => if x.isEmpty then pure 1 else
        match atoi x with | some v => pure v | none => .error "failed to parse count"
    | [] => pure 1
  let sleep ← match a with
    | _ :: y :: _ => if y.isEmpty then pure 0 else
        match atoi y with | some v => pure v | none => .error "failed to parse count"
    | _ => pure 0
  pure { name, cnt, sleep }

/-! ## 2. request-list expansion: `convertScenarioToAmmo` -/

/-- an expanded step: request name, payload (the request config) and the pause after it in ms -/
structure Step (ρ : Type) where
  name : List Char
  req : ρ
  sleep : Int
deriving Repr, DecidableEq

def sleepName : List Char := "sleep".toList

/-- `result.Requests[len-1].Sleep += ms` -/
def bumpLast {ρ} (acc : List (Step ρ)) (ms : Int) : Option (List (Step ρ)) :=
  match acc.getLast? with
  | none => none
  | some l => some (acc.dropLast ++ [{ l with sleep := l.sleep + ms }])

/-- `config.MaxScenarioRequests` (= `1 << 20`): the number of requests one scenario may expand to (repair 1eaf10a: a larger
repeat count is a config error instead of an append loop that exhausts the memory); regenerated as
`Gen.C15Flow.maxScenarioRequests` -/
def maxScenarioRequests : Int := 1048576

/-- the loop body of `convertScenarioToAmmo` for one parsed item -/
def expandItem {ρ} (reqs : List Char → Option ρ) (acc : List (Step ρ)) (it : Item) : Outcome (List (Step ρ)) :=
  if it.name == sleepName then
    -- `if len(result.Requests) == 0 { return nil, fmt.Errorf("%s must follow a request", sh) }`
    match bumpLast acc it.cnt with
    | none => .err "sleepfirst"
    | some acc' => .ok acc'
  else match reqs it.name with
    | none => .err "notfound"
    | some r =>
      let s : Step ρ := { name := it.name, req := r, sleep := if it.sleep > 0 then it.sleep else 0 }
      -- `if cnt > config.MaxScenarioRequests-len(result.Requests) { return nil, fmt.Errorf("… at most %d requests") }` (1eaf10a)
      if it.cnt > maxScenarioRequests - (acc.length : Int) then .err "toomany" else
      .ok (acc ++ List.replicate it.cnt.toNat s)

def expandItems {ρ} (reqs : List Char → Option ρ) : List Item → List (Step ρ) → Outcome (List (Step ρ))
  | [], acc => .ok acc
  | it :: rest, acc =>
    match expandItem reqs acc it with
    | .ok acc' => expandItems reqs rest acc'
    | .err e => .err e
    | .panic p => .panic p

/-- parse and expand interleaved exactly as the Go loop does (a later malformed item is only reached if the
earlier ones did not fail) -/
def expand {ρ} (reqs : List Char → Option ρ) : List (List Char) → List (Step ρ) → Outcome (List (Step ρ))
  | [], acc => .ok acc
  | sh :: rest, acc =>
    match parseShootName sh with
    | .error _ => .err "parse"
    | .ok it =>
      match expandItem reqs acc it with
      | .ok acc' => expand reqs rest acc'
      | .err e => .err e
      | .panic p => .panic p

/-! ## 3. lib/math GCD, GCDM -/

/-- the `for a > 0 && b > 0` loop with fuel; `none` = fuel exhausted (never happens with fuel a+b+1: `C15_gcd`) -/
def gcdLoop : Nat → Int → Int → Option (Int × Int)
  | 0, _, _ => none
  | f + 1, a, b =>
    if a > 0 ∧ b > 0 then
      if a ≥ b then gcdLoop f (Int.tmod a b) b else gcdLoop f a (Int.tmod b a)
    else some (a, b)

def GCD (a b : Int) : Option Int :=
  (gcdLoop (a.toNat + b.toNat + 1) a b).map fun (x, y) => if x > y then x else y

/-- `GCDM` on the REVERSED weight list (Go recurses on the prefix `weights[:l-1]`) -/
def gcdmRev : List Int → Option Int
  | [] => some 0
  | x :: t =>
    match t with
    | [] => some 0
    | y :: rest =>
      match GCD y x with
      | none => none
      | some res =>
        if rest.isEmpty then some res
        else match gcdmRev t with
          | none => none
          | some g => GCD g res

def GCDM (ws : List Int) : Option Int := gcdmRev ws.reverse

/-! ## 4. SpreadNames, decodeAmmo, provider delivery -/

structure ScenarioCfg where
  name : List Char
  weight : Int           -- 0 when the key is absent
  minWaitingTime : Int   -- ms
  requests : List (List Char)
deriving Repr, DecidableEq

/-- Go map semantics of `names[sc.Name] = cnt`: the last write wins -/
def lookupLast {β} (k : List Char) : List (List Char × β) → Option β
  | [] => none
  | (k', v) :: rest => match lookupLast k rest with
    | some v' => some v'
    | none => if k' == k then some v else none

/-- `SpreadNames`: per-scenario copy counts (as a name-keyed map, last wins) and the ring capacity -/
def spreadNames (scs : List ScenarioCfg) : Outcome (List (List Char × Int) × Int) :=
  match scs with
  | [] => .ok ([], 0)
  | [s] => .ok ([(s.name, 1)], 1)
  | _ =>
    let ws := scs.map fun s => if s.weight == 0 then 1 else s.weight
    match GCDM ws with
    | none => .panic "gcd-fuel"
    | some div =>
      if div == 0 then .panic "div0" else
      let cnts := ws.map fun w => Int.tdiv w div
      .ok ((scs.map (·.name)).zip cnts, cnts.foldl (· + ·) 0)

/-- a decoded scenario (what the gun receives) -/
structure Scenario (ρ : Type) where
  name : List Char
  minWaitingTime : Int
  steps : List (Step ρ)
deriving Repr, DecidableEq

def decodeLoop {ρ} (reqs : List Char → Option ρ) (names : List (List Char × Int)) :
    List ScenarioCfg → List (Scenario ρ) → Outcome (List (Scenario ρ))
  | [], acc => .ok acc
  | sc :: rest, acc =>
    match expand reqs sc.requests [] with
    | .err e => .err e
    | .panic p => .panic p
    | .ok steps =>
      match lookupLast sc.name names with
      | none => .err "scenario-not-found"
      | some ns =>
        let a : Scenario ρ := { name := sc.name, minWaitingTime := sc.minWaitingTime, steps }
        decodeLoop reqs names rest (acc ++ List.replicate ns.toNat a)

/-- `config.MaxSpreadSize` (= `1 << 24`) -/
def maxSpreadSize : Int := 16777216

/-- `config.CheckSpread(names, total)` (repair 4cfc662): `true` = the result of `SpreadNames` is refused — the total or a
count is negative (the Go sum overflowed; impossible over unbounded integers) or above `MaxSpreadSize` -/
def spreadRefused (names : List (List Char × Int)) (total : Int) : Bool :=
  decide (total < 0 ∨ total > maxSpreadSize) || names.any fun nc => decide (nc.2 < 0 ∨ nc.2 > maxSpreadSize)

/-- `decodeAmmo`: the ammo ring (one pass of the provider) -/
def decodeAmmo {ρ} (reqs : List Char → Option ρ) (scs : List ScenarioCfg) : Outcome (List (Scenario ρ)) :=
  -- `if sc.Weight < 0 { return nil, fmt.Errorf("scenario %s: weight should not be negative, …") }`
  if scs.any (fun sc => sc.weight < 0) then .err "negweight" else
  match spreadNames scs with
  | .err e => .err e
  | .panic p => .panic p
  | .ok (names, size) =>
    -- `if err := config.CheckSpread(names, size); err != nil { return nil, err }`
    if spreadRefused names size then .err "toolarge" else
    if size < 0 then .panic "makeslice" else decodeLoop reqs names scs []

/-- `Provider.Run`: the k-th delivered ammo is `ammos[k % len]` -/
def deliver {α} (ring : List α) (k : Nat) : Option α :=
  if ring.length == 0 then none else ring[k % ring.length]?

/-- the loop of `Provider.Run` with its two stop conditions (`passes`, `limit`; 0 = unlimited), `fuel` = how many ammo
the consumer takes at most, `ammoNum` = the loop counter -/
def feedLoop {α} (ring : List α) (passes limit : Nat) : Nat → Nat → List α
  | 0, _ => []
  | fuel + 1, ammoNum =>
    let i := ammoNum % ring.length
    let passNum := ammoNum / ring.length
    if passes != 0 && passNum ≥ passes then []
    else if limit != 0 && ammoNum ≥ limit then []
    else match ring[i]? with
      | some a => a :: feedLoop ring passes limit fuel (ammoNum + 1)
      | none => []

/-- what a consumer taking at most `n` ammo receives from `Provider.Run` (an empty ring is `ErrNoAmmo`) -/
def feed {α} (ring : List α) (passes limit n : Nat) : List α :=
  if ring.length == 0 then [] else feedLoop ring passes limit n 0

/-! ## 5. variable trees, `NextIterator`, `GetMapValue` -/

inductive Val where
  | nil
  | str (s : String)
  | num (i : Int)
  | map (kvs : List (String × Val))
  | list (xs : List Val)
deriving Repr, Inhabited

/-- Go map write `m[k] = v` on an association list (first binding is the live one) -/
def setKey {β} (k : String) (v : β) : List (String × β) → List (String × β)
  | [] => [(k, v)]
  | (k', v') :: rest => if k' == k then (k, v) :: rest else (k', v') :: setKey k v rest

def getKey {β} (k : String) (m : List (String × β)) : Option β := (m.find? (·.1 == k)).map (·.2)

/-- state of the `NextIterator`s: counter per (iterator id, segment); plus the stream feeding `Rand`.
`feed = some vs` is the view of ONE instance of an open system: the counter is shared with other instances, so
the values this instance receives are decided by the interleaving and are supplied from outside (`vs`);
`feed = none` is the closed system (all calls go through this state). `trace` (ghost) lists every value handed
out together with its counter. -/
structure Iter where
  gs : List ((Nat × String) × Nat)
  rands : List Nat
  feed : Option (List Nat) := none
  trace : List ((Nat × String) × Nat) := []
deriving Repr

def Iter.empty : Iter := { gs := [], rands := [] }

/-- the counter part of `NextIterator.Next(segment)` under its mutex: first call 0, then 1, 2, … -/
def Iter.bump (gs : List ((Nat × String) × Nat)) (key : Nat × String) : Nat × List ((Nat × String) × Nat) :=
  match gs.find? (·.1 == key) with
  | none => (0, gs ++ [(key, 0)])
  | some (_, c) => (c + 1, gs.map fun e => if e.1 == key then (e.1, c + 1) else e)

def Iter.next (it : Iter) (id : Nat) (seg : String) : Nat × Iter :=
  match it.feed with
  | some (v :: vs) => (v, { it with feed := some vs, trace := it.trace ++ [((id, seg), v)] })
  | some [] => (0, { it with trace := it.trace ++ [((id, seg), 0)] })
  | none =>
    let (v, gs') := Iter.bump it.gs (id, seg)
    (v, { it with gs := gs', trace := it.trace ++ [((id, seg), v)] })

def Iter.rand (it : Iter) (len : Nat) : Nat × Iter :=
  match it.rands with
  | [] => (0, it)
  | r :: rs => (r % len, { it with rands := rs })

def trimS (s : String) : String := String.ofList (trimSpace s.toList)

/-- `strings.ToLower` on ASCII text, character by character (reduces in the kernel, unlike `String.toLower`) -/
@[irreducible] def lowerS (s : String) : String := String.ofList (s.toList.map Char.toLower)

/-- `calcIndex`: a non-numeric index other than next/rand/last is an error, then an empty segment is an error -/
def calcIndex (indexStr : String) (seg : String) (len : Nat) (id : Nat) (it : Iter) : Outcome (Nat × Iter) :=
  let kw := indexStr == "last" || indexStr == "rand" || indexStr == "next"
  let num := atoi indexStr.toList
  if num.isNone && !kw then .err "bad-index"
  else if len == 0 then .err "empty"
  else if indexStr == "last" then .ok (len - 1, it)
  else if indexStr == "rand" then let (r, it') := it.rand len; .ok (r, it')
  else if indexStr == "next" then
    let (i, it') := it.next id seg
    if i ≥ len then .ok (i % len, it') else .ok (i, it')
  else match num with
    | none => .err "bad-index"
    | some i =>
      if 0 ≤ i ∧ i < len then .ok (i.toNat, it)
      else
        let r := Int.tmod i len
        .ok ((if r < 0 then r + len else r).toNat, it)

/-- `s[lo:hi]` of Go on a string (bytes = characters): `none` = slice bounds out of range (the Go code panics) -/
def goSlice (s : List Char) (lo hi : Int) : Option (List Char) :=
  if 0 ≤ lo ∧ lo ≤ hi ∧ hi ≤ s.length then some ((s.drop lo.toNat).take (hi.toNat - lo.toNat)) else none

/-- `strings.Index(s, string(c))` for a one-character needle; -1 when absent -/
def indexOfC (c : Char) (s : List Char) : Int :=
  if s.contains c then ((s.takeWhile (· != c)).length : Int) else -1

/-- the loop of `GetMapValue` over the remaining segments; `cur` is the current map, `pfx` the `curSegment` builder
(the key of the `[next]` counter is the whole path up to and including the indexed segment AS WRITTEN, after trimming).
The two slice expressions `segment[openBraceIdx+1 : len(segment)-1]` and `segment[:openBraceIdx]` are Go slices with
their bounds checks (`.panic "slice"`; never reached under the guard: `Proofs/C15Walk.lean`). -/
def walk (id : Nat) : List String → List (String × Val) → String → Iter → Outcome (Val × Iter)
  | [], cur, _, it => .ok (.map cur, it)
  | seg0 :: rest, cur, pfx, it =>
    let seg := trimS seg0
    let pfx := pfx ++ "." ++ seg
    let segL := seg.toList
    if segL.contains '[' && segL.getLast? == some ']' then
      let openIdx := indexOfC '[' segL
      match goSlice segL (openIdx + 1) ((segL.length : Int) - 1), goSlice segL 0 openIdx with
      | some inner, some nameL =>
        let indexStr := lowerS (trimS (String.ofList inner))
        let name := String.ofList nameL
        match getKey name cur with
        | none => .err "segment-not-found"
        | some (.list xs) =>
          match calcIndex indexStr pfx xs.length id it with
          | .err e => .err e
          | .panic p => .panic p
          | .ok (i, it') =>
            match xs[i]? with
            | none => .panic "index"
            | some (.map m) => walk id rest m pfx it'
            | some v => if rest.isEmpty then .ok (v, it') else .err "not-last-segment"
        | some _ => .err "invalid-type"
      | _, _ => .panic "slice"
    else
      match getKey seg cur with
      | none => .err "segment-not-found"
      | some (.map m) => walk id rest m pfx it
      | some v => if rest.isEmpty then .ok (v, it) else .err "not-last-segment"

def dropDotPrefix (s : String) : String :=
  match s.toList with
  | '.' :: r => String.ofList r
  | _ => s

/-- `mp.GetMapValue(current, path, iter)` (for a non-nil `current`) -/
def getMapValue (vars : List (String × Val)) (path : String) (id : Nat) (it : Iter) : Outcome (Val × Iter) :=
  walk id ((splitOnC '.' (dropDotPrefix path).toList).map String.ofList) vars "" it

/-! ### template functions in preprocessor mappings (`templater.ParseFunc`, `ExecTemplateFuncWithVariables`) -/

/-- the characters and choices of `templater.parseStr` (regenerated: `Gen.C15Walk.strFnFacts`) -/
structure StrFnFacts where
  openC : Char          -- `strings.Split(v, "(")`: the name ends at the first one
  closeC : Char         -- `strings.TrimSuffix(…, ")")`: ONE trailing one is removed
  sepC : Char           -- `strings.Split(v, ",")`
  trimArgs : Bool       -- `args[i] = strings.TrimSpace(args[i])`
  emptyNoArgs : Bool    -- `if len(args) == 1 && args[0] == "" { return name, nil }`
deriving Repr, DecidableEq

def parseStrBy (f : StrFnFacts) (v : List Char) : List Char × List (List Char) :=
  if !v.contains f.openC then (v, []) else
  let name := v.takeWhile (· != f.openC)
  let rest := (v.dropWhile (· != f.openC)).drop 1
  let rest := if rest.getLast? == some f.closeC then rest.dropLast else rest
  let args := splitOnC f.sepC rest
  if f.emptyNoArgs && args.length == 1 && args.head? == some [] then (name, [])
  else (name, if f.trimArgs then args.map trimSpace else args)

/-- `parseStr` as it is in the repository -/
def strFnFacts : StrFnFacts := { openC := '(', closeC := ')', sepC := ',', trimArgs := true, emptyNoArgs := true }

/-- `templater.parseStr`: `name(arg, …)` → name (NOT trimmed) and trimmed arguments; no `(` or an empty argument
text → no arguments; only ONE trailing `)` is removed -/
def parseStrF (v : List Char) : List Char × List (List Char) := parseStrBy strFnFacts v

/-- the keys of `templater.GetFuncs()` (regenerated: `Gen.C15Walk.funcNames`) -/
def funcNames : List String := ["randInt", "randString", "uuid"]

/-- what an argument of a template function becomes -/
inductive ArgRule where
  | value      -- the value found in the template variables
  | literal    -- the argument text itself
  | nilValue   -- Go `nil`
deriving Repr, DecidableEq

/-- how `Preprocessor.Process` resolves one mapping entry and `ExecTemplateFuncWithVariables` its arguments
(regenerated: `Gen.C15Walk.entryCode`) -/
structure EntryCode where
  funcFirst : Bool        -- `fun, args := templater.ParseFunc(v); if fun != nil { exec } else { path }`
  argOk : ArgRule         -- `if err == nil { a[i] = v }`
  argErr : ArgRule        -- `else { a[i] = args[i] }`
deriving Repr, DecidableEq

def argVal (r : ArgRule) (a : String) (v : Val) : Val :=
  match r with
  | .value => v
  | .literal => .str a
  | .nilValue => .nil

/-- `ExecTemplateFuncWithVariables`: every argument is looked up as a path in the template variables (with the
iterator: a `[next]` inside an argument draws a row); an argument that does not resolve stays the literal text.
(An argument whose lookup fails AFTER a draw loses that draw in the model: `Outcome.err` carries no iterator.) -/
def resolveArgsBy (c : EntryCode) (vars : List (String × Val)) (id : Nat) : List String → Iter → List Val × Iter
  | [], it => ([], it)
  | a :: rest, it =>
    match getMapValue vars a id it with
    | .ok (v, it') => let r := resolveArgsBy c vars id rest it'; (argVal c.argOk a v :: r.1, r.2)
    | _ => let r := resolveArgsBy c vars id rest it; (argVal c.argErr a .nil :: r.1, r.2)

/-- one mapping entry of `Preprocessor.Process`: a template function when the text before the first `(` names one,
a path otherwise. `fn` is the function library (random: part of the `World`); `none` = the function returns an error. -/
def resolveEntryBy (c : EntryCode) (fn : String → List Val → Option String) (vars : List (String × Val)) (v : String)
    (id : Nat) (it : Iter) : Outcome (Val × Iter) :=
  let p := parseStrF v.toList
  let name := String.ofList p.1
  if c.funcFirst && funcNames.contains name then
    let r := resolveArgsBy c vars id (p.2.map String.ofList) it
    match fn name r.1 with
    | some s => .ok (.str s, r.2)
    | none => .err "template-func"
  else getMapValue vars v id it

/-- the entry resolution as it is in the repository -/
def entryCode : EntryCode := { funcFirst := true, argOk := .value, argErr := .literal }

def resolveArgs (vars : List (String × Val)) (id : Nat) : List String → Iter → List Val × Iter :=
  resolveArgsBy entryCode vars id

def resolveEntry (fn : String → List Val → Option String) (vars : List (String × Val)) (v : String) (id : Nat)
    (it : Iter) : Outcome (Val × Iter) :=
  resolveEntryBy entryCode fn vars v id it

/-- `Preprocessor.Process`: every mapping entry is resolved against the template variables.
Go iterates the mapping in map order; the model uses the given (sorted) order — the result map is the same
whenever no entry fails (entries with `[next]` draw from counters keyed by their own path). -/
def runPre (fn : String → List Val → Option String) (vars : List (String × Val)) (id : Nat) :
    List (String × String) → List (String × Val) → Iter → Outcome (List (String × Val) × Iter)
  | [], acc, it => .ok (acc, it)
  | (k, path) :: rest, acc, it =>
    match resolveEntry fn vars path id it with
    | .err e => .err e
    | .panic p => .panic p
    | .ok (v, it') => runPre fn vars id rest (setKey k v acc) it'

/-! ## 6. the gun: `ScenarioGun.shoot` / `shootStep` -/

/-- what the gun needs to know about a request config; rendering and postprocessing go through `World` -/
structure ReqDef where
  name : String
  pre : Option (List (String × String))   -- preprocessor mapping (var ↦ path)
  iter : Nat                              -- which `NextIterator` the (shared) preprocessor object holds
  posts : List Nat                        -- ids of the postprocessors, in order
deriving Repr

/-- the environment: templating, target and postprocessor libraries, all arbitrary -/
structure World (Req Resp : Type) where
  render : ReqDef → List (String × Val) → Option Req          -- `none`: template / prepareRequest error
  target : List Req → Option Resp                              -- history incl. the current request; `none`: transport error
  post : Nat → Resp → Option (List (String × Val))             -- `none`: extractor or assertion failure
  code : Resp → Int
  /-- template functions usable in a preprocessor mapping (`randInt`, `randString`, `uuid`: random, hence arbitrary);
  `none`: the function returns an error -/
  fn : String → List Val → Option String := fun _ _ => none

inductive Ev (Req : Type) where
  | request (r : Req)                                  -- reached the target
  | sample (tag : String) (code : Int) (failed : Bool)
  | pause (ms : Int)
deriving Repr, DecidableEq

/-- what one executed step contributed to the variable tree: its name, its preprocessor variables and — once it
has succeeded — its postprocessor variables -/
structure StepRec where
  name : String
  pre : List (String × Val)
  post : Option (List (String × Val))

structure GState (Req : Type) where
  iter : Iter
  hist : List Req       -- requests this instance has sent so far (what the target has seen)
  log : List (Ev Req)
  seen : List (List (String × Val)) := []   -- ghost: the variable tree handed to the templater, per templated step
  recs : List StepRec := []                 -- ghost: one record per step whose preprocessor succeeded

def emptyTag : String := "__EMPTY__"

def failTag (tag : String) : String := tag ++ "|" ++ emptyTag

/-- run the postprocessors in order, later variables overwrite earlier ones -/
def runPosts {Req Resp} (w : World Req Resp) (resp : Resp) :
    List Nat → List (String × Val) → Option (List (String × Val))
  | [], acc => some acc
  | p :: ps, acc =>
    match w.post p resp with
    | none => none
    | some vs => runPosts w resp ps (vs.foldl (fun a kv => setKey kv.1 kv.2 a) acc)

/-- the variable tree handed to preprocessor and templater: `{"source": …, "request": requestVars}` -/
def tree (source : Val) (requestVars : List (String × Val)) : List (String × Val) :=
  [("source", source), ("request", .map requestVars)]

/-- `shootStep`. Returns `(succeeded, requestVars', state')`; a Go panic inside is `none`. -/
def shootStep {Req Resp} (w : World Req Resp) (source : Val) (scName : String) (st : Step ReqDef)
    (rv : List (String × Val)) (g : GState Req) : Option (Bool × List (String × Val) × GState Req) :=
  let d := st.req
  let tag := scName ++ "." ++ d.name
  let fail (rv : List (String × Val)) (g : GState Req) : Option (Bool × List (String × Val) × GState Req) :=
    some (false, rv, { g with log := g.log ++ [.sample (failTag tag) 0 true] })
  -- stepVars := {} ; requestVars[step.Name] = stepVars
  let rv0 := setKey d.name (.map []) rv
  -- Preprocessor (the interface field always holds a typed pointer: a missing preprocessor yields a nil map)
  let preRes : Outcome (List (String × Val) × Iter) :=
    match d.pre with
    | none => .ok ([], g.iter)
    | some m => runPre w.fn (tree source rv0) d.iter m [] g.iter
  match preRes with
  | .panic _ => none
  | .err _ => fail rv0 g
  | .ok (pv, it') =>
    let rv1 := setKey d.name (.map [("preprocessor", .map pv)]) rv0
    let g := { g with iter := it', seen := g.seen ++ [tree source rv1],
                      recs := g.recs ++ [{ name := d.name, pre := pv, post := none }] }
    match w.render d (tree source rv1) with
    | none => fail rv1 g
    | some req =>
      let g := { g with hist := g.hist ++ [req], log := g.log ++ [.request req] }
      match w.target g.hist with
      | none => fail rv1 g
      | some resp =>
        match runPosts w resp d.posts [] with
        | none => fail rv1 g
        | some postv =>
          let rv2 := setKey d.name (.map [("preprocessor", .map pv), ("postprocessor", .map postv)]) rv1
          let log := g.log ++ [.sample tag (w.code resp) false] ++ (if st.sleep > 0 then [.pause st.sleep] else [])
          some (true, rv2, { g with log, recs := g.recs.dropLast ++ [{ name := d.name, pre := pv, post := some postv }] })

/-- the `for _, req := range ammo.Requests` loop: the first failing step ends the shot -/
def shootLoop {Req Resp} (w : World Req Resp) (source : Val) (scName : String) :
    List (Step ReqDef) → List (String × Val) → GState Req → Option (Bool × GState Req)
  | [], _, g => some (true, g)
  | st :: rest, rv, g =>
    match shootStep w source scName st rv g with
    | none => none
    | some (false, _, g') => some (false, g')
    | some (true, rv', g') => shootLoop w source scName rest rv' g'

/-- `ScenarioGun.Shoot` of one scenario ammo -/
def shoot {Req Resp} (w : World Req Resp) (source : Val) (sc : Scenario ReqDef) (g : GState Req) :
    Option (Bool × GState Req) :=
  shootLoop w source (String.ofList sc.name) sc.steps [] g

/-! ## 7. `NextIterator.Next` under concurrency

All instances of a pool share the `NextIterator` of a scenario (`convertScenarioToAmmo` creates one per scenario,
`InitIterator` stores it in the shared preprocessor object). `Next` is `mx.Lock(); a, ok := gs[segment];
insert 0 / a.Add(1); mx.Unlock()`. The system below takes these four actions as separate small steps of any
number of threads under an arbitrary scheduler; a thread that finds the mutex taken does not move. -/

abbrev CKey := Nat × String

inductive NPc where
  | idle
  | locked (key : CKey)                      -- holds the mutex, before `n.gs[segment]`
  | read (key : CKey) (cur : Option Nat)     -- after `a, ok := n.gs[segment]`
  | wrote (key : CKey) (v : Nat)             -- after the insert / `a.Add(1)`, before the deferred `Unlock`
deriving Repr, DecidableEq

def upd {α} (f : Nat → α) (t : Nat) (a : α) : Nat → α := fun i => if i = t then a else f i

/-- `a, ok := n.gs[segment]` -/
def gsRead (gs : List (CKey × Nat)) (key : CKey) : Option Nat := (gs.find? (·.1 == key)).map (·.2)

/-- `n.gs[segment] = &atomic.Uint64{}; return 0` resp. `return int(a.Add(1))` -/
def gsWrite (gs : List (CKey × Nat)) (key : CKey) (cur : Option Nat) : Nat × List (CKey × Nat) :=
  match cur with
  | none => (0, gs ++ [(key, 0)])
  | some c => (c + 1, gs.map fun e => if e.1 == key then (e.1, c + 1) else e)

structure NSys where
  holder : Option Nat                 -- the mutex
  gs : List (CKey × Nat)              -- the counter map
  pcs : Nat → NPc
  got : Nat → List Nat                -- values returned to each thread so far
  log : List (CKey × Nat × Nat)       -- ghost: (counter, thread, value) in the order the calls return

def NSys.init : NSys := { holder := none, gs := [], pcs := fun _ => .idle, got := fun _ => [], log := [] }

/-- which counter a thread asks next, given the values it has received so far (`none`: it makes no further call) -/
abbrev NProg := Nat → List Nat → Option CKey

/-- one small step of thread `t` -/
def NSys.step (prog : NProg) (s : NSys) (t : Nat) : NSys :=
  match s.pcs t with
  | .idle =>
    match prog t (s.got t), s.holder with
    | some key, none => { s with holder := some t, pcs := upd s.pcs t (.locked key) }
    | _, _ => s                         -- nothing to do, or blocked in `Lock()`
  | .locked key => { s with pcs := upd s.pcs t (.read key (gsRead s.gs key)) }
  | .read key cur =>
    let (v, gs') := gsWrite s.gs key cur
    { s with gs := gs', pcs := upd s.pcs t (.wrote key v) }
  | .wrote key v =>
    { s with holder := none, pcs := upd s.pcs t .idle, got := upd s.got t (s.got t ++ [v]),
             log := s.log ++ [(key, t, v)] }

/-- a schedule is the list of thread ids in the order they move -/
def NSys.run (prog : NProg) (s : NSys) (sched : List Nat) : NSys := sched.foldl (NSys.step prog) s

/-- the values one counter has handed out, in the order the calls returned -/
def logVals (log : List (CKey × Nat × Nat)) (key : CKey) : List Nat := (log.filter (·.1 == key)).map (·.2.2)

/-- the values thread `t` has received according to the log -/
def logValsOf (log : List (CKey × Nat × Nat)) (t : Nat) : List Nat := (log.filter (·.2.1 == t)).map (·.2.2)

def NSys.vals (s : NSys) (key : CKey) : List Nat := logVals s.log key
def NSys.valsOf (s : NSys) (t : Nat) : List Nat := logValsOf s.log t

/-- the row `calcIndex` selects for a `[next]` value over a source of `len` rows -/
def rowOf (len i : Nat) : Nat := if i ≥ len then i % len else i

end Pandora.Model.C15
