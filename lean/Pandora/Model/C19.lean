/-
C19 — model of the response-dependent code (core Lean only, executable), with EXPLICIT panic outcomes.

Mirrors
* components/providers/scenario/http/postprocessor/var_header.go   modifiers `lower`, `upper`, `replace`, `substr`
  (REPAIRED behaviour, fixes/C19-substr-clamp.diff; the code as found is kept as `substrUnclamped`)
* …/postprocessor/assert_response.go (http) and scenario/grpc/postprocessor/assert_response.go
* …/postprocessor/var_jsonpath.go, var_xpath.go glue (REPAIRED: fixes/C19-xpath-nodeset.diff; as found: `xpathUnchecked`)
* the Shoot decision trees of Pandora.Model.C10 driven by what the TARGET does
* core/engine/instance.go `instance.Run`: recover ⇒ "shoot panic" ⇒ the pool fails

Everything the peer controls (status, header values, body bytes, whether JSON parses, whether a path matches) is a
free parameter: `Resp` holds arbitrary functions, strings are unbounded lists, indices are unbounded integers.
-/
import Pandora.Model.C10

namespace Pandora.Model.C19
open Pandora.Model.C10

/-- a Go computation that may panic -/
inductive Checked (α : Type) where
  | ok (a : α)
  | panic (why : String)
  deriving Repr, DecidableEq, Inhabited

def Checked.bind {α β : Type} : Checked α → (α → Checked β) → Checked β
  | .ok a, f => f a
  | .panic w, _ => .panic w

def Checked.isOk {α : Type} : Checked α → Bool
  | .ok _ => true
  | .panic _ => false

/-! ## `in[start:end]` -/

/-- Go slice expression on a string of length `s.length`: panics unless `0 ≤ lo ≤ hi ≤ len` -/
def goSlice {α : Type} (s : List α) (lo hi : Int) : Checked (List α) :=
  if 0 ≤ lo ∧ lo ≤ hi ∧ hi ≤ (s.length : Int) then .ok ((s.drop lo.toNat).take (hi - lo).toNat)
  else .panic "slice bounds out of range"

/-- `if start < 0 { start = l + start }` -/
def adjStart (start l : Int) : Int := if start < 0 then l + start else start

/-- `if end <= 0 { end = l + end }` (a missing second argument is `end = 0`: "to the end of the value") -/
def adjEnd (end_ l : Int) : Int := if end_ ≤ 0 then l + end_ else end_

/-- `if x < 0 { x = 0 }; if x > l { x = l }` -/
def clamp (x l : Int) : Int :=
  let x := if x < 0 then 0 else x
  if x > l then l else x

/-- `if start > end { start, end = end, start }` -/
def order (st en : Int) : Int × Int := (if st > en then en else st, if st > en then st else en)

/-- indices the REPAIRED `substr` closure slices with (`start`, `end` are the parsed modifier arguments, `l = len(in)`) -/
def substrBounds (start end_ l : Int) : Int × Int :=
  order (clamp (adjStart start l) l) (clamp (adjEnd end_ l) l)

/-- `substr(start, end)` after fixes/C19-substr-clamp.diff -/
def substr {α : Type} (start end_ : Int) (s : List α) : Checked (List α) :=
  let b := substrBounds start end_ s.length
  goSlice s b.1 b.2

/-- indices of the closure AS FOUND in the tree: only `end > l` is clamped -/
def substrBoundsUnclamped (start end_ l : Int) : Int × Int :=
  order (adjStart start l) (if adjEnd end_ l > l then l else adjEnd end_ l)

def substrUnclamped {α : Type} (start end_ : Int) (s : List α) : Checked (List α) :=
  let b := substrBoundsUnclamped start end_ s.length
  goSlice s b.1 b.2

/-! ## the other modifiers (total library functions; ASCII model, exact on ASCII input) -/

def lower (s : List Char) : List Char := s.map Char.toLower
def upper (s : List Char) : List Char := s.map Char.toUpper

/-- `strings.ReplaceAll(s, old, new)` on runes -/
def replaceAllFuel : Nat → List Char → List Char → List Char → List Char
  | 0, s, _, _ => s
  | _, [], _, _ => []
  | fuel + 1, c :: cs, old, new =>
    if old.isPrefixOf (c :: cs) then new ++ replaceAllFuel fuel ((c :: cs).drop old.length) old new
    else c :: replaceAllFuel fuel cs old new

def replaceAll (s old new : List Char) : List Char :=
  if old = [] then new ++ s.flatMap (fun c => c :: new)
  else replaceAllFuel (s.length + 1) s old new

inductive Modifier where
  | lower
  | upper
  | replace (old new : List Char)
  /-- `substr(a)` is `substr a 0` -/
  | substr (start end_ : Int)
  deriving Repr, DecidableEq, Inhabited

def applyMod : Modifier → List Char → Checked (List Char)
  | .lower, s => .ok (lower s)
  | .upper, s => .ok (upper s)
  | .replace o n, s => .ok (replaceAll s o n)
  | .substr a b, s => substr a b s

/-- `parseValue`: modifiers are applied left to right -/
def applyChain : List Modifier → List Char → Checked (List Char)
  | [], s => .ok s
  | m :: ms, s => (applyMod m s).bind (applyChain ms)

/-- the same chain with the `substr` closure as found -/
def applyModUnclamped : Modifier → List Char → Checked (List Char)
  | .substr a b, s => substrUnclamped a b s
  | m, s => applyMod m s

def applyChainUnclamped : List Modifier → List Char → Checked (List Char)
  | [], s => .ok s
  | m :: ms, s => (applyModUnclamped m s).bind (applyChainUnclamped ms)

/-! ## what the target sent -/

/-- A received response as the postprocessors see it. All fields are chosen by the peer. -/
structure Resp where
  status : Nat
  /-- `resp.Header.Get(name)` -/
  header : String → List Char
  /-- `len(body)` -/
  bodyLen : Nat
  /-- `bytes.Contains(body, pattern)` -/
  bodyHas : String → Bool
  /-- `json.NewDecoder(body).Decode(&data)` succeeded -/
  jsonOk : Bool
  /-- `jsonpath.Get(path, data)` succeeded -/
  jsonGet : String → Bool

/-! ## postprocessors -/

/-- one `var/header` mapping: header name and its modifier chain; `none` = the modifier text does not parse
(config error reported on every shot) -/
structure HeaderMapping where
  header : String
  mods : Option (List Modifier)
  deriving Repr, Inhabited

inductive SizeOp where
  | eq | lt | gt | unknown
  deriving Repr, DecidableEq, Inhabited

/-- the spellings `switch a.Size.Op` accepts (`Validate` admits exactly these; anything else is the default arm) -/
def sizeOpOfString (s : String) : SizeOp :=
  if s = "eq" ∨ s = "=" then .eq else if s = "lt" ∨ s = "<" then .lt else if s = "gt" ∨ s = ">" then .gt else .unknown

/-- does the `size` assertion fail? `none` = the default arm ("unknown op" error) -/
def sizeFails : SizeOp → Nat → Nat → Option Bool
  | .eq, val, len => some (decide (val ≠ len))
  | .lt, val, len => some (decide (val < len))
  | .gt, val, len => some (decide (val > len))
  | .unknown, _, _ => none

structure AssertCfg where
  headers : List (String × List Char) := []
  body : List String := []
  statusCode : Nat := 0
  size : Option (Nat × SizeOp) := none
  deriving Repr, Inhabited

/-- static type of an xpath expression -/
inductive XKind where
  | nodeSet
  /-- number / string / boolean valued, e.g. `count(//a)` -/
  | scalar
  /-- does not compile -/
  | invalid
  deriving Repr, DecidableEq, Inhabited

inductive PP where
  | varHeader (ms : List HeaderMapping)
  | assertResponse (a : AssertCfg)
  | varJsonpath (paths : List String)
  | varXpath (exprs : List XKind)
  deriving Repr, Inhabited

def isInfix (pat s : List Char) : Bool :=
  (List.range (s.length + 1)).any fun i => pat.isPrefixOf (s.drop i)

/-- `VarHeaderPostprocessor.Process` (with a modifier-chain evaluator as parameter) -/
def varHeaderWith (chain : List Modifier → List Char → Checked (List Char)) (r : Resp) : List HeaderMapping → PostRes
  | [] => .ok
  | m :: ms =>
    match m.mods with
    | none => .err                              -- "failed to parse value"
    | some mods =>
      let v := r.header m.header
      if v = [] then varHeaderWith chain r ms    -- `if val == "" { continue }`
      else match chain mods v with
        | .ok _ => varHeaderWith chain r ms
        | .panic _ => .panic

/-- `AssertResponse.Process` (http). The body is only read when body patterns are configured, so a `size`
assertion without patterns compares against 0 (as in the code). -/
def assertHttp (a : AssertCfg) (r : Resp) : PostRes :=
  let len := if a.body = [] then 0 else r.bodyLen
  if !(a.body.all r.bodyHas) then .err
  else if !(a.headers.all fun (k, v) => isInfix v (r.header k)) then .err
  else if a.statusCode ≠ 0 ∧ a.statusCode ≠ r.status then .err
  else match a.size with
    | none => .ok
    | some (val, op) =>
      match sizeFails op val len with
      | some false => .ok
      | _ => .err                                -- assertion failed, or "unknown op"

/-- `VarJsonpathPostprocessor.Process` -/
def varJsonpath (paths : List String) (r : Resp) : PostRes :=
  if paths = [] then .ok
  else if !r.jsonOk then .err
  else if paths.all r.jsonGet then .ok else .err

/-- `VarXpathPostprocessor.Process` after fixes/C19-xpath-nodeset.diff. `html.Parse` accepts every byte string;
`len(values) == 1` unwrapping cannot fail. -/
def varXpath : List XKind → PostRes
  | [] => .ok
  | .nodeSet :: ks => varXpath ks
  | .scalar :: _ => .err
  | .invalid :: _ => .err

/-- the glue as found: `expr.Evaluate(…).(*xpath.NodeIterator)` panics for a scalar expression -/
def xpathUnchecked : List XKind → PostRes
  | [] => .ok
  | .nodeSet :: ks => xpathUnchecked ks
  | .scalar :: _ => .panic
  | .invalid :: _ => .err

def runPP (r : Resp) : PP → PostRes
  | .varHeader ms => varHeaderWith applyChain r ms
  | .assertResponse a => assertHttp a r
  | .varJsonpath ps => varJsonpath ps r
  | .varXpath ks => varXpath ks

/-- the postprocessor loop of `shootStep`: the first error (or panic) ends it -/
def runPPs (r : Resp) : List PP → PostRes
  | [] => .ok
  | p :: ps =>
    match runPP r p with
    | .ok => runPPs r ps
    | other => other

/-- the same loop over the code as found (unclamped `substr`, unchecked xpath assertion) -/
def runPPAsFound (r : Resp) : PP → PostRes
  | .varHeader ms => varHeaderWith applyChainUnclamped r ms
  | .varXpath ks => xpathUnchecked ks
  | p => runPP r p

def runPPsAsFound (r : Resp) : List PP → PostRes
  | [] => .ok
  | p :: ps =>
    match runPPAsFound r p with
    | .ok => runPPsAsFound r ps
    | other => other

/-! ## from the target's behaviour to the guns' decision trees -/

/-- what the target does with one HTTP request -/
inductive Reply where
  /-- refused, reset, closed early, silent until the timeout, garbage, malformed head -/
  | noResponse (e : Err)
  /-- head received, body truncated / reset -/
  | brokenBody (status : Nat) (e : Err)
  | full (r : Resp)

def Reply.httpOutcome : Reply → HttpOutcome
  | .noResponse e => .doErr e
  | .brokenBody st e => .response st (some e)
  | .full r => .response r.status none

structure StepCfg where
  name : String
  /-- preprocessor / templater / `http.NewRequest` fails (config- and variable-dependent, not response-dependent) -/
  prepFails : Bool := false
  pps : List PP := []
  deriving Inhabited

def stepOutcome (c : StepCfg) : Reply → StepOutcome
  | reply =>
    if c.prepFails then .prepErr
    else match reply with
      | .noResponse e => .doErr e
      | .brokenBody st e => .bodyErr st e
      | .full r => .received r.status (runPPs r c.pps)

/-- `AssertResponse.Process` of the gRPC scenario: `code` is the converted status, `outNil` whether the call returned
no message, `payloadHas` = `strings.Contains(out.String(), v)` -/
structure GrpcAssert where
  payload : List String := []
  statusCode : Nat := 0
  deriving Repr, Inhabited

def assertGrpc (a : GrpcAssert) (code : Nat) (outNil : Bool) (payloadHas : String → Bool) : PostRes :=
  if a.statusCode ≠ 0 ∧ a.statusCode ≠ code then .err
  else if a.payload = [] then .ok
  else if outNil then .err
  else if a.payload.all payloadHas then .ok else .err

def runGrpcAsserts (code : Nat) (outNil : Bool) (payloadHas : String → Bool) : List GrpcAssert → PostRes
  | [] => .ok
  | a :: as =>
    match assertGrpc a code outNil payloadHas with
    | .ok => runGrpcAsserts code outNil payloadHas as
    | other => other

/-- what the target does with one gRPC call: a status code and (for OK) a message -/
structure GrpcReply where
  code : Nat
  payloadHas : String → Bool

inductive GrpcCallKind where
  | prepFails | unknownMethod | badPayload | callable
  deriving Repr, DecidableEq, Inhabited

structure GrpcCallCfg where
  tag : String
  kind : GrpcCallKind := .callable
  asserts : List GrpcAssert := []
  deriving Inhabited

def grpcStepOutcome (c : GrpcCallCfg) (r : GrpcReply) : GrpcStepOutcome :=
  match c.kind with
  | .prepFails => .prepErr
  | .unknownMethod => .unknownMethod
  | .badPayload => .badPayload
  | .callable => .invoked r.code (runGrpcAsserts (grpcToHttp r.code) (r.code != 0) r.payloadHas c.asserts)

/-! ## `panicOnHTTP1Client` (the client of the http2 gun) -/

/-- `http2.NextProtoTLS` -/
def nextProtoTLS : String := "h2"

/-- `notHTTP2PanicMsg` -/
def notHTTP2PanicMsg : String := "Non HTTP/2 connection established. Seems that target doesn't support HTTP/2."

/-- What `panicOnHTTP1Client.Do` inspects besides the exchange itself. Both fields are decided by the peer. -/
structure H2Facts where
  /-- the wrapped `Do` failed with a `*net.OpError{Op: "remote error"}` whose text contains "no application protocol"
  (the peer's TLS alert 120: it offers no `h2`) -/
  alpnAlert : Bool := false
  /-- `res.TLS` of a received response: `none` = not a TLS connection, else (`NegotiatedProtocol`,
  `NegotiatedProtocolIsMutual`) -/
  tls : Option (String × Bool) := some ("h2", true)
  deriving Repr, DecidableEq, Inhabited

/-- `checkHTTP2(state) == nil` -/
def checkHTTP2 : Option (String × Bool) → Bool
  | none => false
  | some (p, isMutual) => if p ≠ nextProtoTLS then false else isMutual

/-- `panicOnHTTP1Client.Do` panics: on an error only for the ALPN alert, on a response iff `checkHTTP2` fails -/
def h2Panics (f : H2Facts) : Reply → Bool
  | .noResponse _ => f.alpnAlert
  | _ => !checkHTTP2 f.tls

/-- a step of the http2/scenario gun: `Client.Do` panics inside `shootStep` before anything is reported (in the
vocabulary of `Model.C10.StepOutcome`: a step that panics without a sample); requests that are never built
(`prepFails`) never reach the client -/
def stepOutcomeH2 (h2 : Bool) (f : H2Facts) (c : StepCfg) (r : Reply) : StepOutcome :=
  if !c.prepFails && (h2 && h2Panics f r) then .received 0 .panic else stepOutcome c r

/-- the http2/scenario gun SENDS a request to a peer that does not negotiate HTTP/2 (steps after a failed step are
never sent) -/
def scenarioFatal (h2 : Bool) (f : H2Facts) : List (StepCfg × Reply) → Bool
  | [] => false
  | (c, r) :: rest =>
    if !c.prepFails && (h2 && h2Panics f r) then true
    else match stepOutcome c r with
      | .received _ .ok => scenarioFatal h2 f rest
      | _ => false

/-- one shot of any gun kind against a target -/
inductive GunShot where
  /-- http / connect gun (`h2 = false`) or http2 gun (`h2 = true`, its client is `panicOnHTTP1Client`) -/
  | http (h2 : Bool) (facts : H2Facts) (cfg : AutoTagCfg) (ammoTag : String) (id : Nat) (path : String) (reply : Reply)
  /-- http/scenario gun (`h2 = false`) or http2/scenario gun (`h2 = true`: the same `panicOnHTTP1Client`) -/
  | scenario (h2 : Bool) (facts : H2Facts) (scn : String) (steps : List (StepCfg × Reply))
  | grpc (ammoTag : String) (callable : GrpcOutcome)
  | grpcScenario (scn : String) (calls : List (GrpcCallCfg × GrpcReply))

/-- the only condition documented as fatal: an http2 gun (`http2`, `http2/scenario`) meets a target without HTTP/2
(`panicOnHTTP1Client`: "Will panic and cancel shooting whet target doesn't support HTTP/2"): the peer answered the
ALPN offer `h2` with the alert "no application protocol", or a response arrived over a connection that is not TLS
with mutually negotiated `h2` -/
def GunShot.documentedFatal : GunShot → Bool
  | .http h2 facts _ _ _ _ reply => h2 && h2Panics facts reply
  | .scenario h2 facts _ steps => scenarioFatal h2 facts steps
  | _ => false

def GunShot.run : GunShot → ShotResult
  | .http h2 facts cfg tag id path reply =>
    let outcome : HttpOutcome := if h2 && h2Panics facts reply then .doPanic else reply.httpOutcome
    shootHttp cfg { ammoTag := tag, id := id, path := path, outcome := outcome }
  | .scenario h2 facts scn steps =>
    shootScenario scn (steps.map fun (c, r) => { name := c.name, outcome := stepOutcomeH2 h2 facts c r })
  | .grpc tag o => shootGrpc tag o
  | .grpcScenario scn calls =>
    shootGrpcScenario scn (calls.map fun (c, r) => { tag := c.tag, outcome := grpcStepOutcome c r })

/-! ## `instance.Run` -/

inductive RunResult where
  /-- all ammo taken, `Run` returns nil / ctx error -/
  | finished
  /-- `recover()` caught a panic: "shoot panic: …", the pool fails -/
  | poolFailed
  deriving Repr, DecidableEq, Inhabited

structure InstanceRun where
  samples : List Sample
  /-- ammo taken from the provider and shot -/
  shotsTaken : Nat
  result : RunResult
  deriving Repr, Inhabited

/-- the shooting loop over the ammo an instance acquires: a panic inside `Shoot` ends it -/
def instanceRun : List ShotResult → InstanceRun
  | [] => { samples := [], shotsTaken := 0, result := .finished }
  | s :: rest =>
    if s.panicked then { samples := s.reports, shotsTaken := 1, result := .poolFailed }
    else
      let r := instanceRun rest
      { samples := s.reports ++ r.samples, shotsTaken := r.shotsTaken + 1, result := r.result }

/-! ## the pool: any number of instances share the ammo -/

/-- `instancePool` / `Engine.Run`: the pool fails as soon as one instance returns an error; it finishes when all
instances finished -/
def poolResult (insts : List (List ShotResult)) : RunResult :=
  if insts.any (fun shots => (instanceRun shots).result == .poolFailed) then .poolFailed else .finished

/-- all samples the aggregator received from a pool whose instances ran to the end (instance by instance; the real
arrival order is an interleaving of these lists) -/
def poolSamples (insts : List (List ShotResult)) : List Sample :=
  (insts.map fun shots => (instanceRun shots).samples).flatten

/-- ammo taken by all instances -/
def poolShots (insts : List (List ShotResult)) : Nat :=
  (insts.map fun shots => (instanceRun shots).shotsTaken).sum

/-! ## what the sample of a step must carry -/

/-- the sample the http scenario gun reports for a step that the loop entered -/
def sampleOfStep (scn : String) (c : StepCfg) (r : Reply) : Sample :=
  match stepOutcome c r with
  | .received st .ok => okSample scn c.name st
  | _ => errSample scn c.name

/-- the step ran to its end: a complete response arrived and every postprocessor / assertion accepted it -/
def stepCompleted (c : StepCfg) : Reply → Bool
  | .full r => !c.prepFails && runPPs r c.pps == .ok
  | _ => false

/-- the sample the gRPC scenario gun reports for a call that the loop entered -/
def sampleOfCall (scn : String) (c : GrpcCallCfg) (r : GrpcReply) : Sample :=
  { tags := stepTag scn c.tag, id := 0, proto := grpcStepProto (grpcStepOutcome c r), net := 0 }

end Pandora.Model.C19
