/-
C19 — model of the response-dependent code (core Lean only, executable), with EXPLICIT panic outcomes.

Mirrors
* components/providers/scenario/http/postprocessor/var_header.go   modifiers `lower`, `upper`, `replace`, `substr`
  (REPAIRED behaviour, fixes/C19-substr-clamp.diff; the code as found is kept as `substrUnclamped`)
* …/postprocessor/assert_response.go (http) and scenario/grpc/postprocessor/assert_response.go
* …/postprocessor/var_jsonpath.go, var_xpath.go glue (REPAIRED: fixes/C19-xpath-nodeset.diff; as found: `xpathUnchecked`)
* the Shoot decision trees of Pandora.Model.C10 driven by what the TARGET does
* core/engine/instance.go `instance.Run`: recover ⇒ "shoot panic" ⇒ the pool fails

Everything the peer controls (status, header values, body bytes, whether JSON parses, whether a path matches) is a
free parameter: `Resp` holds arbitrary functions, strings are unbounded lists, indices are unbounded integers.
-/
import Pandora.Model.C10

namespace Pandora.Model.C19
open Pandora.Model.C10

/-- a Go computation that may panic -/
inductive Checked (α : Type) where
  | ok (a : α)
  | panic (why : String)
  deriving Repr, DecidableEq, Inhabited

def Checked.bind {α β : Type} : Checked α → (α → Checked β) → Checked β
  | .ok a, f => f a
  | .panic w, _ => .panic w

def Checked.isOk {α : Type} : Checked α → Bool
  | .ok _ => true
  | .panic _ => false

/-! ## `in[start:end]` -/

/-- Go slice expression on a string of length `s.length`: panics unless `0 ≤ lo ≤ hi ≤ len` -/
def goSlice {α : Type} (s : List α) (lo hi : Int) : Checked (List α) :=
  if 0 ≤ lo ∧ lo ≤ hi ∧ hi ≤ (s.length : Int) then .ok ((s.drop lo.toNat).take (hi - lo).toNat)
  else .panic "slice bounds out of range"

/-- `if start < 0 { start = l + start }` -/
def adjStart (start l : Int) : Int := if start < 0 then l + start else start

/-- `if end <= 0 { end = l + end }` (a missing second argument is `end = 0`: "to the end of the value") -/
def adjEnd (end_ l : Int) : Int := if end_ ≤ 0 then l + end_ else end_

/-- `if x < 0 { x = 0 }; if x > l { x = l }` -/
def clamp (x l : Int) : Int :=
  let x := if x < 0 then 0 else x
  if x > l then l else x

/-- `if start > end { start, end = end, start }` -/
def order (st en : Int) : Int × Int := (if st > en then en else st, if st > en then st else en)

/-- indices the REPAIRED `substr` closure slices with (`start`, `end` are the parsed modifier arguments, `l = len(in)`) -/
def substrBounds (start end_ l : Int) : Int × Int :=
  order (clamp (adjStart start l) l) (clamp (adjEnd end_ l) l)

/-- `substr(start, end)` after fixes/C19-substr-clamp.diff -/
def substr {α : Type} (start end_ : Int) (s : List α) : Checked (List α) :=
  let b := substrBounds start end_ s.length
  goSlice s b.1 b.2

/-- indices of the closure AS FOUND in the tree: only `end > l` is clamped -/
def substrBoundsUnclamped (start end_ l : Int) : Int × Int :=
  order (adjStart start l) (if adjEnd end_ l > l then l else adjEnd end_ l)

def substrUnclamped {α : Type} (start end_ : Int) (s : List α) : Checked (List α) :=
  let b := substrBoundsUnclamped start end_ s.length
  goSlice s b.1 b.2

/-! ## the other modifiers (total library functions; ASCII model, exact on ASCII input) -/

def lower (s : List Char) : List Char := s.map Char.toLower
def upper (s : List Char) : List Char := s.map Char.toUpper

/-- `strings.ReplaceAll(s, old, new)` on runes -/
def replaceAllFuel : Nat → List Char → List Char → List Char → List Char
  | 0, s, _, _ => s
  | _, [], _, _ => []
  | fuel + 1, c :: cs, old, new =>
    if old.isPrefixOf (c :: cs) then new ++ replaceAllFuel fuel ((c :: cs).drop old.length) old new
    else c :: replaceAllFuel fuel cs old new

def replaceAll (s old new : List Char) : List Char :=
  if old = [] then new ++ s.flatMap (fun c => c :: new)
  else replaceAllFuel (s.length + 1) s old new

inductive Modifier where
  | lower
  | upper
  | replace (old new : List Char)
  /-- `substr(a)` is `substr a 0` -/
  | substr (start end_ : Int)
  deriving Repr, DecidableEq, Inhabited

def applyMod : Modifier → List Char → Checked (List Char)
  | .lower, s => .ok (lower s)
  | .upper, s => .ok (upper s)
  | .replace o n, s => .ok (replaceAll s o n)
  | .substr a b, s => substr a b s

/-- `parseValue`: modifiers are applied left to right -/
def applyChain : List Modifier → List Char → Checked (List Char)
  | [], s => .ok s
  | m :: ms, s => (applyMod m s).bind (applyChain ms)

/-- the same chain with the `substr` closure as found -/
def applyModUnclamped : Modifier → List Char → Checked (List Char)
  | .substr a b, s => substrUnclamped a b s
  | m, s => applyMod m s

def applyChainUnclamped : List Modifier → List Char → Checked (List Char)
  | [], s => .ok s
  | m :: ms, s => (applyModUnclamped m s).bind (applyChainUnclamped ms)

/-! ## what the target sent -/

/-- A received response as the postprocessors see it. All fields are chosen by the peer. -/
structure Resp where
  status : Nat
  /-- `resp.Header.Get(name)` -/
  header : String → List Char
  /-- `len(body)` -/
  bodyLen : Nat
  /-- `bytes.Contains(body, pattern)` -/
  bodyHas : String → Bool
  /-- `json.NewDecoder(body).Decode(&data)` succeeded -/
  jsonOk : Bool
  /-- `jsonpath.Get(path, data)` succeeded -/
  jsonGet : String → Bool

/-! ## postprocessors -/

/-- one `var/header` mapping: header name and its modifier chain; `none` = the modifier text does not parse
(config error reported on every shot) -/
structure HeaderMapping where
  header : String
  mods : Option (List Modifier)
  deriving Repr, Inhabited

inductive SizeOp where
  | eq | lt | gt | unknown
  deriving Repr, DecidableEq, Inhabited

/-- the spellings `switch a.Size.Op` accepts (`Validate` admits exactly these; anything else is the default arm) -/
def sizeOpOfString (s : String) : SizeOp :=
  if s = "eq" ∨ s = "=" then .eq else if s = "lt" ∨ s = "<" then .lt else if s = "gt" ∨ s = ">" then .gt else .unknown

/-- does the `size` assertion fail? `none` = the default arm ("unknown op" error) -/
def sizeFails : SizeOp → Nat → Nat → Option Bool
  | .eq, val, len => some (decide (val ≠ len))
  | .lt, val, len => some (decide (val < len))
  | .gt, val, len => some (decide (val > len))
  | .unknown, _, _ => none

structure AssertCfg where
  headers : List (String × List Char) := []
  body : List String := []
  statusCode : Nat := 0
  size : Option (Nat × SizeOp) := none
  deriving Repr, Inhabited

/-- static type of an xpath expression -/
inductive XKind where
  | nodeSet
  /-- number / string / boolean valued, e.g. `count(//a)` -/
  | scalar
  /-- does not compile -/
  | invalid
  deriving Repr, DecidableEq, Inhabited

inductive PP where
  | varHeader (ms : List HeaderMapping)
  | assertResponse (a : AssertCfg)
  | varJsonpath (paths : List String)
  | varXpath (exprs : List XKind)
  deriving Repr, Inhabited

def isInfix (pat s : List Char) : Bool :=
  (List.range (s.length + 1)).any fun i => pat.isPrefixOf (s.drop i)

/-- `VarHeaderPostprocessor.Process` (with a modifier-chain evaluator as parameter) -/
def varHeaderWith (chain : List Modifier → List Char → Checked (List Char)) (r : Resp) : List HeaderMapping → PostRes
  | [] => .ok
  | m :: ms =>
    match m.mods with
    | none => .err                              -- "failed to parse value"
    | some mods =>
      let v := r.header m.header
      if v = [] then varHeaderWith chain r ms    -- `if val == "" { continue }`
      else match chain mods v with
        | .ok _ => varHeaderWith chain r ms
        | .panic _ => .panic

/-- is the response body read into `b`? The condition of the `if` around `io.ReadAll(body)` as a function of its
three atoms: body patterns OR a `size` block configured, and a body reader present (repair e0ff541; before it the
size assertion without patterns compared against `len(nil) = 0`). Tied to the source by `Bridge.C19.httpBodyReadCond_eq`. -/
def bodyReadCond (hasPatterns hasSize bodyPresent : Bool) : Bool := (hasPatterns || hasSize) && bodyPresent

/-- … for a configuration; the guns always hand a reader over (`respBody` of `shootStep` is never nil) -/
def AssertCfg.readsBody (a : AssertCfg) : Bool := bodyReadCond (!a.body.isEmpty) a.size.isSome true

/-- `AssertResponse.Process` (http). The body is read when body patterns or a `size` block are configured: the size
assertion is evaluated on the real body length (otherwise `b` stays nil and nothing looks at it). -/
def assertHttp (a : AssertCfg) (r : Resp) : PostRes :=
  let len := if a.readsBody then r.bodyLen else 0
  if !(a.body.all r.bodyHas) then .err
  else if !(a.headers.all fun (k, v) => isInfix v (r.header k)) then .err
  else if a.statusCode ≠ 0 ∧ a.statusCode ≠ r.status then .err
  else match a.size with
    | none => .ok
    | some (val, op) =>
      match sizeFails op val len with
      | some false => .ok
      | _ => .err                                -- assertion failed, or "unknown op"

/-- `VarJsonpathPostprocessor.Process` -/
def varJsonpath (paths : List String) (r : Resp) : PostRes :=
  if paths = [] then .ok
  else if !r.jsonOk then .err
  else if paths.all r.jsonGet then .ok else .err

/-- `VarXpathPostprocessor.Process` after fixes/C19-xpath-nodeset.diff. `html.Parse` accepts every byte string;
`len(values) == 1` unwrapping cannot fail. -/
def varXpath : List XKind → PostRes
  | [] => .ok
  | .nodeSet :: ks => varXpath ks
  | .scalar :: _ => .err
  | .invalid :: _ => .err

/-- the glue as found: `expr.Evaluate(…).(*xpath.NodeIterator)` panics for a scalar expression -/
def xpathUnchecked : List XKind → PostRes
  | [] => .ok
  | .nodeSet :: ks => xpathUnchecked ks
  | .scalar :: _ => .panic
  | .invalid :: _ => .err

def runPP (r : Resp) : PP → PostRes
  | .varHeader ms => varHeaderWith applyChain r ms
  | .assertResponse a => assertHttp a r
  | .varJsonpath ps => varJsonpath ps r
  | .varXpath ks => varXpath ks

/-- the postprocessor loop of `shootStep`: the first error (or panic) ends it -/
def runPPs (r : Resp) : List PP → PostRes
  | [] => .ok
  | p :: ps =>
    match runPP r p with
    | .ok => runPPs r ps
    | other => other

/-- the same loop over the code as found (unclamped `substr`, unchecked xpath assertion) -/
def runPPAsFound (r : Resp) : PP → PostRes
  | .varHeader ms => varHeaderWith applyChainUnclamped r ms
  | .varXpath ks => xpathUnchecked ks
  | p => runPP r p

def runPPsAsFound (r : Resp) : List PP → PostRes
  | [] => .ok
  | p :: ps =>
    match runPPAsFound r p with
    | .ok => runPPsAsFound r ps
    | other => other

/-! ## from the target's behaviour to the guns' decision trees -/

/-- what the target does with one HTTP request -/
inductive Reply where
  /-- refused, reset, closed early, silent until the timeout, garbage, malformed head -/
  | noResponse (e : Err)
  /-- head received, body truncated / reset -/
  | brokenBody (status : Nat) (e : Err)
  | full (r : Resp)

def Reply.httpOutcome : Reply → HttpOutcome
  | .noResponse e => .doErr e
  | .brokenBody st e => .response st (some e)
  | .full r => .response r.status none

structure StepCfg where
  name : String
  /-- preprocessor / templater / `http.NewRequest` fails (config- and variable-dependent, not response-dependent) -/
  prepFails : Bool := false
  pps : List PP := []
  deriving Inhabited

def stepOutcome (c : StepCfg) : Reply → StepOutcome
  | reply =>
    if c.prepFails then .prepErr
    else match reply with
      | .noResponse e => .doErr e
      | .brokenBody st e => .bodyErr st e
      | .full r => .received r.status (runPPs r c.pps)

/-- `AssertResponse.Process` of the gRPC scenario: `code` is the converted status, `outNil` whether the call returned
no message, `payloadHas` = `strings.Contains(out.String(), v)` -/
structure GrpcAssert where
  payload : List String := []
  statusCode : Nat := 0
  deriving Repr, Inhabited

def assertGrpc (a : GrpcAssert) (code : Nat) (outNil : Bool) (payloadHas : String → Bool) : PostRes :=
  if a.statusCode ≠ 0 ∧ a.statusCode ≠ code then .err
  else if a.payload = [] then .ok
  else if outNil then .err
  else if a.payload.all payloadHas then .ok else .err

def runGrpcAsserts (code : Nat) (outNil : Bool) (payloadHas : String → Bool) : List GrpcAssert → PostRes
  | [] => .ok
  | a :: as =>
    match assertGrpc a code outNil payloadHas with
    | .ok => runGrpcAsserts code outNil payloadHas as
    | other => other

/-- what the target does with one gRPC call: a status code and (for OK) a message -/
structure GrpcReply where
  code : Nat
  payloadHas : String → Bool

inductive GrpcCallKind where
  | prepFails | unknownMethod | badPayload | callable
  deriving Repr, DecidableEq, Inhabited

structure GrpcCallCfg where
  tag : String
  kind : GrpcCallKind := .callable
  asserts : List GrpcAssert := []
  deriving Inhabited

def grpcStepOutcome (c : GrpcCallCfg) (r : GrpcReply) : GrpcStepOutcome :=
  match c.kind with
  | .prepFails => .prepErr
  | .unknownMethod => .unknownMethod
  | .badPayload => .badPayload
  | .callable => .invoked r.code (runGrpcAsserts (grpcToHttp r.code) (r.code != 0) r.payloadHas c.asserts)

/-! ## `panicOnHTTP1Client` (the client of the http2 gun) -/

/-- `http2.NextProtoTLS` -/
def nextProtoTLS : String := "h2"

/-- `notHTTP2PanicMsg` -/
def notHTTP2PanicMsg : String := "Non HTTP/2 connection established. Seems that target doesn't support HTTP/2."

/-- What `panicOnHTTP1Client.Do` looks at in the ERROR of a failed exchange (the three conjuncts of its condition).
All three are decided by the peer and by what crypto/tls makes of the peer's bytes. -/
structure DoErrFacts where
  /-- `errors.As(err, &opError)`: a `*net.OpError` is in the chain (dial / read / write failures and TLS alerts) -/
  isOpError : Bool := false
  /-- `opError.Op == "remote error"`: crypto/tls reports an ALERT RECEIVED from the peer -/
  opRemoteError : Bool := false
  /-- `strings.Contains(err.Error(), "no application protocol")`: the text of alert 120 -/
  textNoAppProto : Bool := false
  deriving Repr, DecidableEq, Inhabited

/-- the condition under which `panicOnHTTP1Client.Do` panics on an error: the peer answered the ALPN offer `h2` with
the alert "no application protocol" (regenerated from the source as `Gen.RespGuard.doErrPanics`) -/
def DoErrFacts.panics (e : DoErrFacts) : Bool := e.isOpError && e.opRemoteError && e.textNoAppProto

/-- How crypto/tls (client side, before a protocol version is negotiated) reports ONE alert record `level, code`
received in answer to the ClientHello — library behaviour, observed by the harness on raw alert records of every
level / description: `close_notify` (0) is `io.EOF`; a fatal alert (level 2) is
`&net.OpError{Op: "remote error", Err: alert(code)}` whose text is the description's name; a warning (level 1) is
dropped (the connection then ends in EOF); any other level is a local "unexpected message" error. -/
def alertErr (level code : Nat) : DoErrFacts :=
  if code = 0 then {}
  else if level = 2 then { isOpError := true, opRemoteError := true, textNoAppProto := decide (code = 120) }
  else if level = 1 then {}
  else { isOpError := true }          -- local error: `&net.OpError{Op: "local error", …}`

/-- What `panicOnHTTP1Client.Do` inspects besides the exchange itself. Both fields are decided by the peer. -/
structure H2Facts where
  /-- the error of a failed exchange as the condition of `Do` sees it -/
  err : DoErrFacts := {}
  /-- `res.TLS` of a received response: `none` = not a TLS connection, else (`NegotiatedProtocol`,
  `NegotiatedProtocolIsMutual`) -/
  tls : Option (String × Bool) := some ("h2", true)
  deriving Repr, DecidableEq, Inhabited

/-- the wrapped `Do` failed with a `*net.OpError{Op: "remote error"}` whose text contains "no application protocol"
(the peer's TLS alert 120: it offers no `h2`) -/
def H2Facts.alpnAlert (f : H2Facts) : Bool := f.err.panics

/-- the facts of an exchange that failed with the ALPN alert / with an error that is not it -/
def H2Facts.ofAlpnAlert (b : Bool) (tls : Option (String × Bool) := some ("h2", true)) : H2Facts :=
  { err := { isOpError := b, opRemoteError := b, textNoAppProto := b }, tls := tls }

/-- `checkHTTP2(state) == nil` -/
def checkHTTP2 : Option (String × Bool) → Bool
  | none => false
  | some (p, isMutual) => if p ≠ nextProtoTLS then false else isMutual

/-- `panicOnHTTP1Client.Do` panics: on an error only for the ALPN alert, on a response iff `checkHTTP2` fails -/
def h2Panics (f : H2Facts) : Reply → Bool
  | .noResponse _ => f.alpnAlert
  | _ => !checkHTTP2 f.tls

/-- a step of the http2/scenario gun: `Client.Do` panics inside `shootStep` before anything is reported (in the
vocabulary of `Model.C10.StepOutcome`: a step that panics without a sample); requests that are never built
(`prepFails`) never reach the client -/
def stepOutcomeH2 (h2 : Bool) (f : H2Facts) (c : StepCfg) (r : Reply) : StepOutcome :=
  if !c.prepFails && (h2 && h2Panics f r) then .received 0 .panic else stepOutcome c r

/-- the http2/scenario gun SENDS a request to a peer that does not negotiate HTTP/2 (steps after a failed step are
never sent) -/
def scenarioFatal (h2 : Bool) : List (StepCfg × H2Facts × Reply) → Bool
  | [] => false
  | (c, f, r) :: rest =>
    if !c.prepFails && (h2 && h2Panics f r) then true
    else match stepOutcome c r with
      | .received _ .ok => scenarioFatal h2 rest
      | _ => false

/-! ## the connections an http2 client meets -/

/-- what ONE connection attempt of the http2 client meets (decided by the peer) -/
inductive ConnFate where
  /-- the TLS handshake completes with `h2` negotiated mutually: requests are exchanged over it -/
  | h2
  /-- the handshake completes WITHOUT `h2` (no ALPN, another protocol): `res.TLS` of a response over it is `tls` -/
  | noH2 (tls : Option (String × Bool))
  /-- no connection: the handshake ends in an alert of the peer, EOF, reset, garbage, a local error, a timeout … -/
  | fails (e : DoErrFacts)
  deriving Repr, DecidableEq, Inhabited

/-- a connection whose use can be the documented fatal condition -/
def ConnFate.fatal : ConnFate → Bool
  | .h2 => false
  | .noH2 t => !checkHTTP2 t
  | .fails e => e.panics

/-- ONE request of a client over the connections the peer grants: `plan` is what the next connection attempts meet
(`dflt` after the end of the list), `isOpen` whether the client holds an established `h2` connection. An `h2`
connection is kept for the following requests unless keep-alives are disabled (`dka`: every request dials); a failed
attempt costs the request that dialled; a connection without `h2` carries one exchange (the gun panics on the
response, or the exchange fails and the connection is dropped). Result: the facts `panicOnHTTP1Client.Do` sees and
what the target did with the request (`r` when it got it), and the state for the next request. -/
def connNext (dka : Bool) (dflt : ConnFate) (isOpen : Bool) (plan : List ConnFate) (r : Reply) :
    (H2Facts × Reply) × Bool × List ConnFate :=
  if isOpen then (({}, r), true, plan)
  else match plan.headD dflt with
    | .h2 => (({}, r), !dka, plan.tail)
    | .noH2 t => (({ tls := t }, r), false, plan.tail)
    | .fails e => (({ err := e }, .noResponse .other), false, plan.tail)

/-- the requests of ONE client (one instance, sequential shots): `replies` is what the target answers to the 1st,
2nd, … request when it gets one -/
def connShots (dka : Bool) (dflt : ConnFate) : Bool → List ConnFate → List Reply → List (H2Facts × Reply)
  | _, _, [] => []
  | isOpen, plan, r :: rs =>
    (connNext dka dflt isOpen plan r).1 ::
      connShots dka dflt (connNext dka dflt isOpen plan r).2.1 (connNext dka dflt isOpen plan r).2.2 rs

/-- a scenario shot of a client over such connections: every step that SENDS a request takes the next connection
state; steps after a failed one are never sent (their facts do not matter). Result: the steps with the facts of
their connections, and the connection state after the shot. -/
def scenarioOverConns (dka : Bool) (dflt : ConnFate) (h2 : Bool) :
    Bool → List ConnFate → List (StepCfg × Reply) → List (StepCfg × H2Facts × Reply) × Bool × List ConnFate
  | isOpen, plan, [] => ([], isOpen, plan)
  | isOpen, plan, (c, r) :: rest =>
    if c.prepFails then ((c, {}, r) :: rest.map (fun (c, r) => (c, {}, r)), isOpen, plan)
    else
      let n := connNext dka dflt isOpen plan r
      match stepOutcomeH2 h2 n.1.1 c n.1.2 with
      | .received _ .ok =>
        let t := scenarioOverConns dka dflt h2 n.2.1 n.2.2 rest
        ((c, n.1.1, n.1.2) :: t.1, t.2)
      | _ => ((c, n.1.1, n.1.2) :: rest.map (fun (c, r) => (c, {}, r)), n.2.1, n.2.2)

/-- one shot of any gun kind against a target -/
inductive GunShot where
  /-- http / connect gun (`h2 = false`) or http2 gun (`h2 = true`, its client is `panicOnHTTP1Client`) -/
  | http (h2 : Bool) (facts : H2Facts) (cfg : AutoTagCfg) (ammoTag : String) (id : Nat) (path : String) (reply : Reply)
  /-- http/scenario gun (`h2 = false`) or http2/scenario gun (`h2 = true`: the same `panicOnHTTP1Client`); every step
  comes with the facts of the connection ITS request travels on (a scenario may meet several connections) -/
  | scenario (h2 : Bool) (scn : String) (steps : List (StepCfg × H2Facts × Reply))
  | grpc (ammoTag : String) (callable : GrpcOutcome)
  | grpcScenario (scn : String) (calls : List (GrpcCallCfg × GrpcReply))

/-- the only condition documented as fatal: an http2 gun (`http2`, `http2/scenario`) meets a target without HTTP/2
(`panicOnHTTP1Client`: "Will panic and cancel shooting whet target doesn't support HTTP/2"): the peer answered the
ALPN offer `h2` with the alert "no application protocol", or a response arrived over a connection that is not TLS
with mutually negotiated `h2` -/
def GunShot.documentedFatal : GunShot → Bool
  | .http h2 facts _ _ _ _ reply => h2 && h2Panics facts reply
  | .scenario h2 _ steps => scenarioFatal h2 steps
  | _ => false

def GunShot.run : GunShot → ShotResult
  | .http h2 facts cfg tag id path reply =>
    let outcome : HttpOutcome := if h2 && h2Panics facts reply then .doPanic else reply.httpOutcome
    shootHttp cfg { ammoTag := tag, id := id, path := path, outcome := outcome }
  | .scenario h2 scn steps =>
    shootScenario scn (steps.map fun (c, f, r) => { name := c.name, outcome := stepOutcomeH2 h2 f c r })
  | .grpc tag o => shootGrpc tag o
  | .grpcScenario scn calls =>
    shootGrpcScenario scn (calls.map fun (c, r) => { tag := c.tag, outcome := grpcStepOutcome c r })

/-- all `n` scenario shots of ONE client (one instance) over the connections the peer grants: the connection state is
carried from shot to shot -/
def scenarioShotsOverConns (dka : Bool) (dflt : ConnFate) (h2 : Bool) (scn : String) (steps : List (StepCfg × Reply)) :
    Nat → Bool → List ConnFate → List GunShot
  | 0, _, _ => []
  | n + 1, isOpen, plan =>
    GunShot.scenario h2 scn (scenarioOverConns dka dflt h2 isOpen plan steps).1 ::
      scenarioShotsOverConns dka dflt h2 scn steps n (scenarioOverConns dka dflt h2 isOpen plan steps).2.1
        (scenarioOverConns dka dflt h2 isOpen plan steps).2.2

/-! ## `instance.Run` -/

inductive RunResult where
  /-- all ammo taken, `Run` returns nil / ctx error -/
  | finished
  /-- `recover()` caught a panic: "shoot panic: …", the pool fails -/
  | poolFailed
  deriving Repr, DecidableEq, Inhabited

structure InstanceRun where
  samples : List Sample
  /-- ammo taken from the provider and shot -/
  shotsTaken : Nat
  result : RunResult
  deriving Repr, Inhabited

/-- the shooting loop over the ammo an instance acquires: a panic inside `Shoot` ends it -/
def instanceRun : List ShotResult → InstanceRun
  | [] => { samples := [], shotsTaken := 0, result := .finished }
  | s :: rest =>
    if s.panicked then { samples := s.reports, shotsTaken := 1, result := .poolFailed }
    else
      let r := instanceRun rest
      { samples := s.reports ++ r.samples, shotsTaken := r.shotsTaken + 1, result := r.result }

/-! ## the pool: any number of instances share the ammo -/

/-- `instancePool` / `Engine.Run`: the pool fails as soon as one instance returns an error; it finishes when all
instances finished -/
def poolResult (insts : List (List ShotResult)) : RunResult :=
  if insts.any (fun shots => (instanceRun shots).result == .poolFailed) then .poolFailed else .finished

/-- all samples the aggregator received from a pool whose instances ran to the end (instance by instance; the real
arrival order is an interleaving of these lists) -/
def poolSamples (insts : List (List ShotResult)) : List Sample :=
  (insts.map fun shots => (instanceRun shots).samples).flatten

/-- ammo taken by all instances -/
def poolShots (insts : List (List ShotResult)) : Nat :=
  (insts.map fun shots => (instanceRun shots).shotsTaken).sum

/-! ## what the sample of a step must carry -/

/-- the sample the http scenario gun reports for a step that the loop entered -/
def sampleOfStep (scn : String) (c : StepCfg) (r : Reply) : Sample :=
  match stepOutcome c r with
  | .received st .ok => okSample scn c.name st
  | _ => errSample scn c.name

/-- the step ran to its end: a complete response arrived and every postprocessor / assertion accepted it -/
def stepCompleted (c : StepCfg) : Reply → Bool
  | .full r => !c.prepFails && runPPs r c.pps == .ok
  | _ => false

/-- the sample the gRPC scenario gun reports for a call that the loop entered -/
def sampleOfCall (scn : String) (c : GrpcCallCfg) (r : GrpcReply) : Sample :=
  { tags := stepTag scn c.tag, id := 0, proto := grpcStepProto (grpcStepOutcome c r), net := 0 }

end Pandora.Model.C19
