/-
C11 — objects that change hands (core Lean only).

Samples and ammo are not shared in the sense of `C11Sharing`: at any time exactly one goroutine works on them, but WHICH
one changes. A sample is taken from the package-level `sync.Pool` by an instance (`netsample.Acquire`), filled in by
its gun, handed to the aggregator (`Report`: a channel send), read by the aggregator goroutine and put back into the
pool (`releaseSample`), from where ANY instance may take it next. Ammo travels provider goroutine → channel → instance
→ `Release` → pool → provider goroutine.

In the event vocabulary of `C11Sharing` an object that changes hands is an object of class `sharedSync ℓ` whose lock
`ℓ` is an ownership token: taking the object out of a pool / receiving it from a channel acquires the token, handing
it on (channel send, `Pool.Put`) releases it. The happens-before edge `rel ℓ → acq ℓ` is the Go memory model's edge
`send → receive` resp. `Put(x) → Get returning x` (assumed). What differs from a mutex-guarded object is the SHAPE of
the code: not `lock; access; unlock` around every access, but `take … any number of bare accesses … give`.

`OOp` is the program vocabulary with both shapes, `progOk` the discipline a single thread's program can be checked
against on its own (every bare access to a hand-over object lies between the thread's `take` and its `give` of that
object's token; nothing is given that is not held), and `initCfgO`/`exec` run any number of such threads under every
schedule (a `take` of a token somebody holds blocks, like `Lock`).
-/
import Pandora.Model.C11Sharing

namespace Pandora.Model.C11

inductive OOp where
  /-- an access as in `C11Sharing`: bare for `loc`/`sharedRO` objects, `lock; access; unlock` for `sharedSync` ones -/
  | acc (op : Op)
  /-- a bare access to a hand-over object, relying on holding its token -/
  | own (op : Op)
  /-- receive the object whose token is `l`: `Pool.Get` / channel receive -/
  | take (l : Nat)
  /-- hand it on: channel send (`Report`, provider sink) / `Pool.Put` (`Release`, `releaseSample`) -/
  | give (l : Nat)
  deriving Repr, DecidableEq

def expandO (cls : Nat → Class) (t : Nat) : OOp → List Ev
  | .acc op => expand cls t op
  | .own op => [.acc t op.obj op.write op.val]
  | .take l => [.acq t l]
  | .give l => [.rel t l]

/-- the discipline of ONE thread's program, `owned` = the tokens it holds at this point -/
def progOk (cls : Nat → Class) (t : Nat) : List Nat → List OOp → Prop
  | _, [] => True
  | owned, .acc op :: rest => opOk cls t op ∧ progOk cls t owned rest
  | owned, .own op :: rest => (∃ l, cls op.obj = .sharedSync l ∧ l ∈ owned) ∧ progOk cls t owned rest
  | owned, .take l :: rest => progOk cls t (l :: owned) rest
  | owned, .give l :: rest => l ∈ owned ∧ progOk cls t (owned.filter (· != l)) rest

/-- executable version of `progOk` (used by the driver and by `decide` on concrete programs) -/
def progOkB (cls : Nat → Class) (t : Nat) : List Nat → List OOp → Bool
  | _, [] => true
  | owned, .acc op :: rest =>
    (match cls op.obj with
     | .loc i => t == i
     | .sharedRO => !op.write
     | .sharedSync _ => true) && progOkB cls t owned rest
  | owned, .own op :: rest =>
    (match cls op.obj with
     | .sharedSync l => owned.contains l
     | _ => false) && progOkB cls t owned rest
  | owned, .take l :: rest => progOkB cls t (l :: owned) rest
  | owned, .give l :: rest => owned.contains l && progOkB cls t (owned.filter (· != l)) rest

def initCfgO (cls : Nat → Class) (progs : List (List OOp)) : Cfg :=
  { held := noLocks, todo := progs.zipIdx.map fun (ops, t) => ops.flatMap (expandO cls t) }

end Pandora.Model.C11
