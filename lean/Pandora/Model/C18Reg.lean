/-
C18 — the supported ways of registering a constructor, declaratively, over the abstract Go types of Model/C18Ty
(what `Registry.Register` must accept; Bridge/Plugin proves that the expectations regenerated from core/plugin accept
exactly these), and the Go types of the shapes harness/cmd/c18 registers.  Core Lean, executable: the driver predicts
`accepted` / `regpanic` for the `via=reg` cases from `supported`.
-/
import Pandora.Model.C18
import Pandora.Model.C18Ty

namespace Pandora.Model.C18Reg
open Pandora.Model.C18Ty Pandora.Model.C18

/-! ### the supported forms, declaratively -/

/-- a config argument: a struct or a pointer to a struct -/
def cfgOk (c : Ty) : Bool := c.kind == .struct || (c.kind == .ptr && c.elem.kind == .struct)

/-- no argument, or one config argument -/
def insOk : Tys → Bool
  | .nil => true
  | .cons c .nil => cfgOk c
  | _ => false

/-- results: `(x)` or `(x, error)`; gives `x` -/
def outsOk : Tys → Option Ty
  | .cons x .nil => some x
  | .cons x (.cons e .nil) => if e == Ty.error then some x else none
  | _ => none

/-- the results are `(x)` or `(x, error)` and `x` implements the plugin interface -/
def outImplements (p : Ty) (outs : Tys) : Bool :=
  match outsOk outs with
  | some q => q.implements p
  | none => false

/-- `func() (Impl [, error])` -/
def factoryOk (p f : Ty) : Bool :=
  match f with
  | .func .nil outs => outImplements p outs
  | _ => false

/-- `func([Conf | *Conf]) (Impl | func() (Impl [, error]) [, error])` with `Impl` implementing the plugin interface -/
def supportedCtor (p t : Ty) : Bool :=
  match t with
  | .func ins outs =>
    insOk ins &&
    (match outsOk outs with
     | some x => if x.kind == .func then factoryOk p x else x.implements p
     | none => false)
  | _ => false

/-- no default-config function, or `func() <the constructor's config type>` (so: only for a constructor with a config) -/
def supportedDflt (t : Ty) (d : Option Ty) : Bool :=
  match d with
  | none => true
  | some f => t.numIn == 1 && f == Ty.funcOf0 (t.inp 0)

def supported (p t : Ty) (d : Option Ty) : Bool := supportedCtor p t && supportedDflt t d

/-- `Register`'s own expectations: the plugin type is an interface, the name is not empty and not taken -/
def regSelfOk (pt : Ty) (nameEmpty dup : Bool) : Bool := pt.kind == .iface && !nameEmpty && !dup

/-! ### the Go types of the shapes the driver registers -/

/-- the plugin interface (`Iface` of harness/cmd/c18; `core.Gun` on the engine path) -/
def plugT : Ty := .base .iface 1 []
/-- `Conf` -/
def confT : Ty := .base .struct 2 []
def pconfT : Ty := .ptr confT []
/-- `*comp`, which implements the plugin interface -/
def implT : Ty := .ptr (.base .struct 3 []) [1]

def prodT (sh : Shape) : Ty := if sh.iface then plugT else implT

def outsT (t : Ty) (err : Bool) : Tys := .cons t (if err then .cons Ty.error .nil else .nil)

/-- the registered constructor of a shape, as harness/cmd/c18 builds it with reflect.FuncOf -/
def ctorTy (sh : Shape) : Ty :=
  let ins := match sh.cfg with
    | .none => Tys.nil
    | .struct => .cons confT .nil
    | .ptr => .cons pconfT .nil
  if sh.factory then .func ins (outsT (.func .nil (outsT (prodT sh) sh.factErr)) sh.ctorErr)
  else .func ins (outsT (prodT sh) sh.ctorErr)

/-- the default-config function of a shape (harness: `func() Conf` for a struct config, `func() *Conf` otherwise) -/
def dfltTy (sh : Shape) : Option Ty :=
  match sh.dflt with
  | .absent => none
  | .fresh => some (Ty.funcOf0 (if sh.cfg = .struct then confT else pconfT))
  | .nilPtr | .shared => some (Ty.funcOf0 pconfT)

/-- the requested factory types `func() Plugin` and `func() (Plugin, error)` are factory types -/
def formTy (numOut : Nat) : Ty := .func .nil (outsT plugT (numOut == 2))

/-! ### requested forms (round 6): which types `NewFactory` / `LookupFactory` / `FactoryPluginType` take as a factory type -/

/-- declaratively: `func() (X [, error])` with `X` an interface type -/
def requestedOk (t : Ty) : Bool :=
  match t with
  | .func .nil (.cons x .nil) => x.kind == .iface
  | .func .nil (.cons x (.cons e .nil)) => x.kind == .iface && e == Ty.error
  | _ => false

/-- the plugin interface a requested factory type asks for -/
def requestedPlugin (t : Ty) : Ty := t.out 0

end Pandora.Model.C18Reg
