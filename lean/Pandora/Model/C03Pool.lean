/-
C03 — "the pool ends normally": `(*instancePool).Run` (core/engine/engine.go) and the goroutine of `awaitRunAsync`.

    func (p *instancePool) Run(ctx) error {
        ctx, cancel := context.WithCancel(ctx); defer func() { cancel() }()
        if err := p.warmUpGun(ctx); err != nil { p.onWaitDone(); return err }
        rh, err := p.runAsync(ctx)
        if err != nil { if p.onWaitDone != nil { p.onWaitDone() }; return err }
        awaitErr := p.awaitRunAsync(rh)
        select {
        case <-ctx.Done():            return ctx.Err()
        case err, ok := <-awaitErr:   if ok { return err }; return nil
        }
    }
    awaitRunAsync:  go func() { defer func() { close(ah.awaitErr); if p.onWaitDone != nil { p.onWaitDone() } }(); ah.awaitRun() }()
    onErrAwaited:   select { case ah.awaitErr <- err: ; case <-ah.poolCtx.Done(): }

`Pandora.Model.C03Await` is the loop of `awaitRun` (a consumer of results in any order; `errs` counts its calls of
`onErrAwaited`).  Here is what is around it: `Run` as a short statement list `PInstr` (REGENERATED:
`Gen.InstLoop.poolRun`, with the decision of the `awaitErr` case as a regenerated function `Gen.InstLoop.poolRunOnAwait`),
the await goroutine as the list of things it does in its body and in its deferred function (`GInstr`, regenerated:
`poolAwaitGoBody` / `poolAwaitGoDeferred`), and the channel `awaitErr` between the two: what the goroutine does on it is a
trace `List ChEv` (one `send` per `onErrAwaited` — `Run` has one receive only and a receive takes sent values, buffered or
not, before it sees a `close`, so the FIRST operation on the channel decides what `Run` returns — and the `close`, which is only reached when `awaitRun` has returned,
i.e. when its loop is over).

`outcome`: what `Run` returns for given answers of the environment (warm-up fails / `runAsync` fails / the caller's context
is cancelled before the channel is ready) and a given sequence of results the bookkeeping receives; `none` = `Run` does
not return (the bookkeeping blocks: a result is missing).
-/
import Pandora.Model.C03Await

namespace Pandora.Model.C03Pool
open Pandora.Model.C03Await

/-- what `Run` returns -/
inductive PRet where
  | nil | warmErr | asyncErr | ctxErr | awaitErr
deriving DecidableEq, Repr

inductive PInstr where
  | deriveCtx                        -- `ctx, cancel := context.WithCancel(ctx)`
  | deferCancel                      -- `defer func() { cancel() }()` / `defer cancel()`
  | warmUpOrReturn (waitDone : Bool) -- `if err := p.warmUpGun(ctx); err != nil { [p.onWaitDone()]; return err }`
  | runAsyncOrReturn (waitDone : Bool) -- `rh, err := p.runAsync(ctx); if err != nil { [p.onWaitDone()]; return err }`
  | awaitAsync                       -- `awaitErr := p.awaitRunAsync(rh)`
  | selectCtxOrAwait                 -- `select { case <-ctx.Done(): return ctx.Err(); case err, ok := <-awaitErr: … }`
  | other (src : String)
deriving DecidableEq, Repr

/-- what the await goroutine does (body, then its deferred function) -/
inductive GInstr where
  | awaitRun        -- `ah.awaitRun()`
  | closeAwaitErr   -- `close(ah.awaitErr)`
  | waitDone        -- `if p.onWaitDone != nil { p.onWaitDone() }`
  | other (src : String)
deriving DecidableEq, Repr

/-- an operation of the await goroutine on the channel `awaitErr` -/
inductive ChEv where
  | send | close
deriving DecidableEq, Repr

/-- the goroutine's operations on `awaitErr` for the results `rs`: `awaitRun` sends once per `onErrAwaited` and returns
only when its loop is over (otherwise it waits for a result for ever: nothing after it happens) -/
def goTrace (rs : List Res) : List GInstr → List ChEv
  | [] => []
  | .awaitRun :: r =>
    match arun ainit rs with
    | some s => List.replicate s.errs .send ++ (if s.over then goTrace rs r else [])
    | none => []
  | .closeAwaitErr :: r => .close :: goTrace rs r
  | .waitDone :: r => goTrace rs r
  | .other _ :: _ => []

/-- a Go function: the body, then the deferred function -/
def goroutine (rs : List Res) (body deferred : List GInstr) : List ChEv := goTrace rs (body ++ deferred)

structure PEnv where
  warmErr : Bool := false          -- `warmUpGun` fails
  asyncErr : Bool := false         -- `runAsync` fails
  ctxFirst : Bool := false         -- the caller cancels before `awaitErr` is ready (or `select` picks that case)
deriving DecidableEq, Repr

structure POut where
  ret : Option PRet := none        -- `none`: still running / blocked for ever
  derived : Bool := false
  cancelDeferred : Bool := false
  awaiting : Bool := false         -- the await goroutine was launched
  waitDoneByRun : Nat := 0         -- `onWaitDone()` called by `Run` itself
  bad : Bool := false
deriving DecidableEq, Repr

/-- `Run`, statement by statement; `onAwait ok` = what the `awaitErr` case returns when the receive yields `ok` -/
def exec (onAwait : Bool → PRet) (ctxCase : PRet) (e : PEnv) (ch : List ChEv) : List PInstr → POut → POut
  | [], o => o
  | i :: r, o =>
    if o.ret.isSome ∨ o.bad then o else
    match i with
    | .deriveCtx => exec onAwait ctxCase e ch r { o with derived := true }
    | .deferCancel => exec onAwait ctxCase e ch r { o with cancelDeferred := o.derived, bad := !o.derived }
    | .warmUpOrReturn wd =>
      if e.warmErr then { o with ret := some .warmErr, waitDoneByRun := o.waitDoneByRun + (if wd then 1 else 0) }
      else exec onAwait ctxCase e ch r o
    | .runAsyncOrReturn wd =>
      if e.asyncErr then { o with ret := some .asyncErr, waitDoneByRun := o.waitDoneByRun + (if wd then 1 else 0) }
      else exec onAwait ctxCase e ch r o
    | .awaitAsync => exec onAwait ctxCase e ch r { o with awaiting := true }
    | .selectCtxOrAwait =>
      if !o.awaiting then { o with bad := true }
      else if e.ctxFirst then { o with ret := some ctxCase }
      else match ch with
        | [] => o                                      -- nothing ever happens on the channel: `Run` waits
        | .send :: _ => { o with ret := some (onAwait true) }
        | .close :: _ => { o with ret := some (onAwait false) }
    | .other _ => { o with bad := true }

/-- `Run` as the model has it -/
def poolRun : List PInstr :=
  [.deriveCtx, .deferCancel, .warmUpOrReturn true, .runAsyncOrReturn true, .awaitAsync, .selectCtxOrAwait]

def onAwait (ok : Bool) : PRet := if ok then .awaitErr else .nil

def goBody : List GInstr := [.awaitRun]
def goDeferred : List GInstr := [.closeAwaitErr, .waitDone]

/-- what `Run` returns (and whether its own context is cancelled on the way out) -/
def outcome (e : PEnv) (rs : List Res) : POut := exec onAwait .ctxErr e (goroutine rs goBody goDeferred) poolRun {}

end Pandora.Model.C03Pool
