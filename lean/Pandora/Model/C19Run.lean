/-
C19, round 4 — the code the anchored guns DEPEND on, reached by what the target does (core Lean only):

* `instance.Run` against the clock: the waiter's verdict on every schedule token (`Wait`, `IsSlowDown` — a target that
  answers slowly makes tokens overdue) and `discard_overflow`;
* the shared `NextIterator` of a scenario provider under ANY interleaving of ANY number of instances (its mutex is what
  keeps `[next]` from being a concurrent map write, i.e. a `fatal error` no recover() can catch);
* lib/netutil's DNS-caching dialer (every shot of an http-family gun whose target is a host name dials through it);
* who owns a pooled sample: a gun may touch a sample until it hands it to the aggregator, never afterwards (the phout
  aggregator returns it to the pool, another instance acquires it).
-/
import Pandora.Model.C19

namespace Pandora.Model.C19
open Pandora.Model.C10

/-! ## `instance.Run` against the clock -/

/-- `netsample.DiscardedShootTag` -/
def discardedTag : String := "discarded"
/-- `netsample.DiscardedShootCodeError` -/
def discardedNet : Nat := 777
/-- `netsample.DiscardedShootSample()`: no status, a failure code of its own -/
def discardedSample : Sample := { tags := discardedTag, id := 0, proto := 0, net := discardedNet }

/-- condition of the `if` around `i.gun.Shoot(ammo)`: `!i.discardOverflow || !waiter.IsSlowDown(ctx)` -/
def shootCond (discardOverflow slowDown : Bool) : Bool := !discardOverflow || !slowDown

/-- one token of the schedule as the instance meets it: what the waiter says (the CLOCK decides; the target influences
it by answering slowly) and what the shot does if it is taken -/
structure Token where
  /-- `waiter.Wait(ctx)`: false = the context was cancelled while waiting -/
  waitOk : Bool := true
  /-- `waiter.IsSlowDown(ctx)`: the token is overdue -/
  slowDown : Bool
  shot : ShotResult
  deriving Repr, Inhabited

/-- the loop of `instance.Run`, one iteration per acquired ammo -/
def instanceRunSched (discard : Bool) : List Token → InstanceRun
  | [] => { samples := [], shotsTaken := 0, result := .finished }
  | t :: rest =>
    if !t.waitOk then { samples := [], shotsTaken := 1, result := .finished }
    else if shootCond discard t.slowDown then
      if t.shot.panicked then { samples := t.shot.reports, shotsTaken := 1, result := .poolFailed }
      else
        let r := instanceRunSched discard rest
        { samples := t.shot.reports ++ r.samples, shotsTaken := r.shotsTaken + 1, result := r.result }
    else
      let r := instanceRunSched discard rest
      { samples := discardedSample :: r.samples, shotsTaken := r.shotsTaken + 1, result := r.result }

/-! ### the waiter (core/coreutil): when is a token overdue

All times in nanoseconds since some epoch. `Waiter.Wait` for a token due at `next`: `lastNow` is the cached clock reading
of the previous call, `now` the clock when this call reads it. -/

/-- `coreutil.MaxOverdueDuration` -/
def maxOverdue : Int := 2000000000

/-- the `overdueDuration` that `Wait` stores before it returns true (statement by statement: the cached reading decides
only whether the clock is read once or twice; the overdue is judged against the CURRENT time) -/
def waiterOverdue (next lastNow now : Int) : Int :=
  if next - lastNow ≤ 0 then now - next
  else if next - now ≤ 0 then 0 - (next - now)
  else 0

/-- `Waiter.IsSlowDown` (context alive) -/
def isSlowDown (overdue : Int) : Bool := decide (overdue ≥ maxOverdue)

/-- a token as the clock makes it: due at `due`, the instance asks for it at `asked` (after the previous shot returned —
a slow target makes `asked` late), the cached reading `lastNow` is from before -/
def tokenAt (due lastNow asked : Int) (shot : ShotResult) : Token :=
  { slowDown := isSlowDown (waiterOverdue due lastNow asked), shot := shot }

/-- what one token contributes to the aggregator -/
def tokenSamples (discard : Bool) (t : Token) : List Sample :=
  if shootCond discard t.slowDown then t.shot.reports else [discardedSample]

/-! ## the shared iterator under interleaving

`(*NextIterator).Next`: `Lock; defer Unlock; a, ok := gs[seg]; if !ok { gs[seg] = new; return 0 }; return a.Add(1)`.
A call is four steps of its goroutine — lock, begin of the map access, end of the map access (the value is handed out),
unlock — and the Go runtime kills the PROCESS (`fatal error: concurrent map writes`, not a panic: no recover) when a map
access begins while another goroutine is inside one. -/

structure IterState where
  /-- who holds `n.mx` -/
  lock : Option Nat := none
  /-- program counter of every goroutine: 0 idle / about to lock, 1 locked, 2 inside the map access, 3 about to unlock -/
  pc : Nat → Nat := fun _ => 0
  /-- the counter of the segment (`none`: no entry yet) -/
  counter : Option Nat := none
  /-- values handed out, newest first: (goroutine, value) -/
  handed : List (Nat × Nat) := []
  /-- the runtime detected two goroutines inside the map -/
  fatal : Bool := false

def setPc (pc : Nat → Nat) (t v : Nat) : Nat → Nat := fun u => if u = t then v else pc u

/-- some goroutine other than `t` among `0 … n-1` (the goroutines of the run are numbered below `n`) is inside the map
access -/
def otherInside (pc : Nat → Nat) (t : Nat) : Nat → Bool
  | 0 => false
  | n + 1 => (n != t && pc n == 2) || otherInside pc t n

/-- goroutine `t` (one of `n`) makes its next step; `withMutex = false` is `Next` without `n.mx` -/
def iterStep (withMutex : Bool) (n : Nat) (s : IterState) (t : Nat) : IterState :=
  if s.fatal then s else
  match s.pc t with
  | 0 =>
    if withMutex then
      match s.lock with
      | none => { s with lock := some t, pc := setPc s.pc t 1 }
      | some _ => s                                   -- blocked in Lock()
    else { s with pc := setPc s.pc t 1 }
  | 1 =>
    if otherInside s.pc t n then { s with fatal := true }
    else { s with pc := setPc s.pc t 2 }
  | 2 =>
    let v := match s.counter with
      | none => 0
      | some c => c + 1
    { s with counter := some v, handed := (t, v) :: s.handed, pc := setPc s.pc t 3 }
  | _ =>
    { s with lock := if withMutex then none else s.lock, pc := setPc s.pc t 0 }

/-- any schedule: which goroutine (of `n`) steps next, for as long as one likes; every goroutine calls `Next` again and
again -/
def iterRun (withMutex : Bool) (n : Nat) : IterState → List Nat → IterState
  | s, [] => s
  | s, t :: rest => iterRun withMutex n (iterStep withMutex n s t) rest

/-! ## lib/netutil: the DNS-caching dialer -/

/-- what one `dialer.DialContext` does — the PEER decides (`refused` stands for every failure) -/
inductive DialOutcome where
  | connected
  | refused
  deriving Repr, DecidableEq, Inhabited

structure DialFacts where
  /-- `conn.RemoteAddr()` is a `*net.TCPAddr` (it is for network "tcp": the only one the guns dial) -/
  remoteIsTCP : Bool := true
  /-- `net.SplitHostPort(addr)` succeeds (it does whenever the dial of `addr` succeeded) -/
  addrSplits : Bool := true
  deriving Repr, DecidableEq, Inhabited

/-- `NewDNSCachingDialer(dialer, cache)` for one address: `cached` = the cache has an entry. Result: what the caller
gets (`connected` / an error) and whether the cache has an entry afterwards. -/
def dnsDial (f : DialFacts) (cached : Bool) (o : DialOutcome) : Checked (DialOutcome × Bool) :=
  if cached then .ok (o, true)                         -- dial the resolved address, hand its result through
  else match o with
    | .refused => .ok (.refused, false)                -- `if err != nil { return }`: nothing is remembered
    | .connected =>
      if !f.remoteIsTCP then .panic "interface conversion: net.Addr is not *net.TCPAddr"
      else if !f.addrSplits then .ok (.refused, false) -- conn closed, "invalid address, but successful dial"
      else .ok (.connected, true)

/-- the mutant order: remember first, look at the error afterwards (`conn` is nil when the dial failed) -/
def dnsDialAddFirst (f : DialFacts) (cached : Bool) (o : DialOutcome) : Checked (DialOutcome × Bool) :=
  if cached then .ok (o, true)
  else match o with
    | .refused => .panic "invalid memory address or nil pointer dereference"
    | .connected => dnsDial f cached o

/-- all dials of a run through one cache entry, in order -/
def dnsDials (f : DialFacts) : Bool → List DialOutcome → Checked (List DialOutcome × Bool)
  | cached, [] => .ok ([], cached)
  | cached, o :: rest =>
    match dnsDial f cached o with
    | .panic m => .panic m
    | .ok (r, c) =>
      match dnsDials f c rest with
      | .panic m => .panic m
      | .ok (rs, c') => .ok (r :: rs, c')

/-! ## who owns a pooled sample -/

/-- what a gun does with the sample object of one request / step -/
inductive SampleOp where
  /-- `netsample.Acquire` -/
  | acquire
  /-- any setter: SetProtoCode, SetErr, AddTag, SetID, trace timings -/
  | touch
  /-- `Aggregator.Report(sample)`: the aggregator owns it from here on (phout puts it back into the pool) -/
  | report
  deriving Repr, DecidableEq, Inhabited

/-- a trace is well owned: acquired first, touched only while owned, reported exactly once, nothing afterwards -/
def wellOwned : List SampleOp → Bool
  | .acquire :: rest => go rest
  | _ => false
where
  go : List SampleOp → Bool
    | [.report] => true
    | .touch :: rest => go rest
    | _ => false

/-- number of times the sample reaches the aggregator -/
def reportsIn (ops : List SampleOp) : Nat := (ops.filter (· == .report)).length

/-- the ops of ONE entered step of `ScenarioGun.shoot` / `shootStep` on its sample, by where the step ends:
`shoot`: Acquire → `shootStep` (trace timings are written around Do) → on success `SetProtoCode; Report` INSIDE shootStep
as its last use of the sample; on any error return `reportErr` (AddTag, SetProtoCode(0), SetErr, Report) in `shoot`.
`reportBeforePost` = the seeded order: SetProtoCode / Report moved in front of the postprocessor loop. -/
def stepOps (reportBeforePost : Bool) : StepOutcome → List SampleOp
  | .prepErr => [.acquire, .touch, .touch, .touch, .report]
  | .doErr _ => [.acquire, .touch, .touch, .touch, .touch, .report]
  | .bodyErr _ _ => [.acquire, .touch, .touch, .touch, .touch, .report]
  | .received _ .ok => [.acquire, .touch, .touch, .report]
  | .received _ .err =>
    if reportBeforePost then [.acquire, .touch, .touch, .report, .touch, .touch, .touch, .report]
    else [.acquire, .touch, .touch, .touch, .touch, .report]
  | .received _ .panic => if reportBeforePost then [.acquire, .touch, .touch, .report] else [.acquire, .touch]

/-- the sample traces of one scenario shot: one per ENTERED step (`shootScenario`: the loop stops at the first step that
does not complete) -/
def scenarioOps (reportBeforePost : Bool) : List Step → List (List SampleOp)
  | [] => []
  | s :: rest =>
    match s.outcome with
    | .received _ .ok => stepOps reportBeforePost s.outcome :: scenarioOps reportBeforePost rest
    | o => [stepOps reportBeforePost o]

end Pandora.Model.C19
