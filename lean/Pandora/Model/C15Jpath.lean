/-
C15 round 4 — `var/jsonpath` (components/providers/scenario/http/postprocessor/var_jsonpath.go): pandora's own loop
around the third-party libraries.  `encoding/json` and `PaesslerAG/jsonpath` stay abstract

    decode : β → Option J          (json.NewDecoder(body).Decode(&data))
    get    : String → J → Option V (jsonpath.Get(path, data))

the statements of `Process` (guard for an empty mapping, decode + check, the loop get / on error: collect the error and
continue / store, `return result, err`) are run one by one with Go's `err` variable explicit.  Core Lean only.
-/
namespace Pandora.Model.C15

/-- statements of `VarJsonpathPostprocessor.Process` outside the loop -/
inductive JOp
  | guardEmpty   -- if len(p.Mapping) == 0 { return nil, nil }
  | decode       -- err := json.NewDecoder(body).Decode(&data)
  | chk          -- if err != nil { return nil, err }
  | loop         -- for k, path := range p.Mapping { … }
  | ret          -- return result, err
deriving DecidableEq, Repr

/-- statements of the loop body -/
inductive JLoopOp
  | get          -- val, e := jsonpath.Get(path, data)
  | onErr        -- if e != nil { err = multierr.Append(err, …); continue }
  | store        -- result[k] = val
deriving DecidableEq, Repr

structure JCode where
  body : List JOp
  loop : List JLoopOp
deriving DecidableEq, Repr

/-- the model's reading of the current source (`Gen.C15Tmpl.jsonpathCode` must equal it) -/
def jsonpathCode : JCode := { body := [.guardEmpty, .decode, .chk, .loop, .ret], loop := [.get, .onErr, .store] }

section
variable {β J V : Type}

structure JSt (J V : Type) where
  data : Option J := none
  err : Bool := false
  result : List (String × V) := []

/-- one iteration: `none` = the body fell off its end without `continue` having been needed, the state afterwards -/
def runJLoopOps (get : String → J → Option V) (k path : String) : List JLoopOp → Option V → Bool → JSt J V → JSt J V
  | [], _, _, s => s
  | .get :: r, _, _, s =>
    (match s.data with
     | none => runJLoopOps get k path r none true s        -- Get on undecoded data: an error of the entry
     | some d =>
       match get path d with
       | some v => runJLoopOps get k path r (some v) false s
       | none => runJLoopOps get k path r none true s)
  | .onErr :: r, val, e, s => if e then { s with err := true } else runJLoopOps get k path r val e s
  | .store :: r, val, e, s =>
    (match val with
     | some v => runJLoopOps get k path r val e { s with result := s.result ++ [(k, v)] }
     | none => runJLoopOps get k path r val e s)   -- a nil value stored after an unchecked error: kept as "nothing stored"

def runJLoop (get : String → J → Option V) (code : List JLoopOp) : List (String × String) → JSt J V → JSt J V
  | [], s => s
  | (k, path) :: r, s => runJLoop get code r (runJLoopOps get k path code none false s)

/-- `Process` statement by statement. `none` = the gun sees an error (the step fails), `some vars` = the variables -/
def runJOps (decode : β → Option J) (get : String → J → Option V) (c : JCode) (mapping : List (String × String)) (body : β) :
    List JOp → JSt J V → Option (List (String × V))
  | [], s => if s.err then none else some s.result
  | .guardEmpty :: r, s => if mapping.isEmpty then some [] else runJOps decode get c mapping body r s
  | .decode :: r, s =>
    (match decode body with
     | some d => runJOps decode get c mapping body r { s with data := some d, err := false }
     | none => runJOps decode get c mapping body r { s with data := none, err := true })
  | .chk :: r, s => if s.err then none else runJOps decode get c mapping body r s
  | .loop :: r, s => runJOps decode get c mapping body r (runJLoop get c.loop mapping s)
  | .ret :: _, s => if s.err then none else some s.result

def runJsonpath (decode : β → Option J) (get : String → J → Option V) (c : JCode) (mapping : List (String × String)) (body : β) :
    Option (List (String × V)) :=
  runJOps decode get c mapping body c.body {}

/-- every entry resolved against the decoded body, in the order visited; `none` as soon as one does not resolve -/
def resolveAll (get : String → J → Option V) (d : J) : List (String × String) → Option (List (String × V))
  | [] => some []
  | (k, path) :: r =>
    match get path d with
    | none => none
    | some v => (resolveAll get d r).map ((k, v) :: ·)

/-- **what the extractor is**: nothing for an empty mapping; otherwise the body must decode and EVERY path resolve -/
def varJsonpath (decode : β → Option J) (get : String → J → Option V) (mapping : List (String × String)) (body : β) :
    Option (List (String × V)) :=
  if mapping.isEmpty then some []
  else match decode body with
    | none => none
    | some d => resolveAll get d mapping

end

end Pandora.Model.C15
