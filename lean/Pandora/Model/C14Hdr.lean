/-
C14, round 2 — the REQUEST an ammo carries (Host + headers), not only its position and tag.

"The sequence of ammo delivered with preload is identical to the sequence delivered without it" is about whole ammo:
the same entry must reach the gun with the same headers in both modes and on every pass.  Where a header of a
delivered request comes from depends on the format:

  components/providers/http/decoders/uri.go      readLine   `[Key: val]` lines are Set on the decoder's accumulator
  components/providers/http/decoders/uripost.go  readBlock  (`d.Header` / `d.header`); an entry gets a CLONE of the
                                                            accumulator, completed with the keys of the `headers` option
                                                            it does not have; Scan replaces the accumulator by a fresh
                                                            map when it wraps to the next pass                      `scanLines`
  components/providers/http/decoders/jsonline.go Scan / readArray   clone of the `headers` option, the entry's own
                                                            "headers" Set over it                                    `hdrJson`
  components/providers/http/decoders/raw.go Scan + ammo/raw_ammo.go Setup   clone of the `headers` option as
                                                            commonHeaders; the request has its own header lines      `EntryH.own`
  components/providers/http/util/request.go EnrichRequestWithHeaders, ammo.go / raw_ammo.go BuildRequest             `reqOf`

`scanLines` is the uri / uripost `Scan` at the granularity "header lines before an entry, the entry" with the
accumulator made explicit; `Proofs/C14Hdr` shows that it is a decoder in the sense of `Proofs/C08Src.Src` over
`decodeLines` (so every theorem about the provider loops applies to it), and that what it hands to `a.Setup` for
entry `i` is `(decodeLines …)[i].hdr` in EVERY pass.  `Alias` is the variant in which an entry gets the accumulator
itself instead of a clone (refuted by `C14_alias_counterexample`).
-/
import Pandora.Model.C14

namespace Pandora.Model.C14H
open Pandora.Model.C08 hiding fullScan httpRun runFuel run
open Pandora.Model.C14

/-- what a `Scan` does when it reaches the end of the file (vocabulary of the blocks that `/verif/gen`, area "c14hdr",
regenerates from the four decoders): return a sentinel, or seek to the start and read on; with the new `passNum` -/
inductive EofAct where
  | ret (r : ScanRes) (passNum : Nat)
  | again (passNum : Nat)
  deriving DecidableEq, Repr

/-! ## http.Header as an association list (keys canonical, distinct) -/

abbrev HMap := List (String × List String)

def HMap.get (m : HMap) (k : String) : Option (List String) := (m.find? (·.1 == k)).map (·.2)

def HMap.has (m : HMap) (k : String) : Bool := m.any (·.1 == k)

/-- `h[k] = vs` -/
def HMap.put : HMap → String → List String → HMap
  | [], k, vs => [(k, vs)]
  | (k', vs') :: rest, k, vs => if k' == k then (k, vs) :: rest else (k', vs') :: HMap.put rest k vs

/-- `h.Add`-like: append a value to the values of `k` -/
def HMap.addVal : HMap → String → String → HMap
  | [], k, v => [(k, [v])]
  | (k', vs') :: rest, k, v => if k' == k then (k', vs' ++ [v]) :: rest else (k', vs') :: HMap.addVal rest k v

def HMap.erase (m : HMap) (k : String) : HMap := m.filter (fun p => !(p.1 == k))

def isLower (c : Char) : Bool := 'a' ≤ c && c ≤ 'z'
def isUpper (c : Char) : Bool := 'A' ≤ c && c ≤ 'Z'
def upper (c : Char) : Char := if isLower c then Char.ofNat (c.toNat - 32) else c
def lower (c : Char) : Char := if isUpper c then Char.ofNat (c.toNat + 32) else c

/-- keys the model canonicalises: ASCII letters, digits, `-` (every such key is a valid header field name) -/
def keyOk (k : String) : Bool := !k.isEmpty && k.toList.all fun c => isLower c || isUpper c || c.isDigit || c == '-'

def canonChars : Bool → List Char → List Char
  | _, [] => []
  | up, c :: cs => (if up then upper c else lower c) :: canonChars (c == '-') cs

/-- `http.CanonicalHeaderKey` on a key with `keyOk` -/
def canon (k : String) : String := String.ofList (canonChars true k.toList)

/-- `http.Header.Set(k, v)` -/
def HMap.setH (m : HMap) (kv : String × String) : HMap := m.put (canon kv.1) [kv.2]

/-- the `headers` option: `util.DecodeHTTPConfigHeaders` (`Add` per element) -/
def cfgMap (ch : List (String × String)) : HMap := ch.foldl (fun m kv => m.addVal (canon kv.1) kv.2) []

/-- `for k, vv := range d.decodedConfigHeaders { k = Canonical(k); if _, ok := header[k]; !ok { header[k] = vv } }`:
the source's headers have priority over the `headers` option -/
def mergeMissing (h : HMap) (cfg : HMap) : HMap := cfg.foldl (fun m kv => if m.has kv.1 then m else m ++ [kv]) h

/-! ## the source -/

/-- an ammo source with header declarations: `blocks[i]` = what is declared at position `i` (uri / uripost: the
`[K: v]` lines before entry `i`, `blocks[n]` = the lines after the last entry; http/json, raw: the headers of entry
`i`), `ch` = the `headers` option -/
structure Source where
  tags : List String
  blocks : List (List (String × String))
  ch : List (String × String)
  deriving Repr, Inhabited

def Source.n (s : Source) : Nat := s.tags.length
def Source.block (s : Source) (i : Nat) : List (String × String) := s.blocks.getD i []

/-- a decoded entry: position, tag, the header map the decoder hands to `Setup` (`Ammo.header` /
`RawAmmo.commonHeaders`), and (raw) the headers the request itself has -/
structure EntryH where
  id : Nat
  tag : String
  hdr : HMap
  own : HMap
  deriving DecidableEq, Repr, Inhabited

def EntryH.entry (e : EntryH) : Entry := ⟨e.id, e.tag⟩

def isChosenH (cases : List String) (e : EntryH) : Bool := isChosen cases e.entry

/-- the accumulator (`d.Header`) after the header lines of the blocks `0 … r-1` of the current pass -/
def accAt (s : Source) (r : Nat) : HMap := ((List.range r).flatMap s.block).foldl HMap.setH []

/-- uri / uripost: entry `i` gets a clone of the accumulator after block `i`, completed from the `headers` option -/
def hdrLines (s : Source) (i : Nat) : HMap := mergeMissing (accAt s (i + 1)) (cfgMap s.ch)

/-- http/json: clone of the `headers` option, the entry's own headers Set over it -/
def hdrJson (s : Source) (i : Nat) : HMap := (s.block i).foldl HMap.setH (cfgMap s.ch)

/-- raw: the request's own header lines (each header at most once) -/
def ownRaw (s : Source) (i : Nat) : HMap := (s.block i).foldl HMap.setH []

def entryOf (k : Fmt) (s : Source) (i : Nat) (t : String) : EntryH :=
  match k with
  | .uri | .uripost => ⟨i, t, hdrLines s i, []⟩
  | .jsonLines | .jsonArray => ⟨i, t, hdrJson s i, []⟩
  | .raw => ⟨i, t, cfgMap s.ch, ownRaw s i⟩

/-- the ammo file as the list of decoded entries -/
def decode (k : Fmt) (s : Source) : List EntryH :=
  (List.range s.tags.length).zipWith (entryOf k s) s.tags

abbrev decodeLines (s : Source) : List EntryH := decode .uri s

/-! ## uri / uripost `Scan` with its header accumulator -/

structure LDec where
  pos : Nat          -- index of the next entry of the current pass (`n` = only trailing header lines are left)
  acc : HMap         -- d.Header
  ammoNum : Nat
  passNum : Nat
  last : HMap        -- the header map handed to `a.Setup` by the last readLine / readBlock that produced an ammo
  deriving DecidableEq, Repr, Inhabited

def LDec.init : LDec := ⟨0, [], 0, 0, []⟩

/-- the `for` loop of `Scan` (uri.go; uripost.go has the same shape with an outer loop of two rounds): read the
header lines in front of the next entry into the accumulator, then the entry (`readLine`: clone + `headers` option);
at EOF count the pass, check `passes` and "no ammo", REPLACE the accumulator by an empty map, seek to the start. -/
def scanLinesLoop (s : Source) (passes : Nat) : Nat → LDec → ScanRes × LDec
  | 0, d => (.unexpected, d)
  | fuel + 1, d =>
    let acc := (s.block d.pos).foldl HMap.setH d.acc
    if d.pos < s.n then
      (.ammo d.pos, { d with pos := d.pos + 1, acc := acc, ammoNum := d.ammoNum + 1,
                              last := mergeMissing acc (cfgMap s.ch) })
    else
      let d := { d with acc := acc, passNum := d.passNum + 1 }
      if passes ≠ 0 ∧ passes ≤ d.passNum then (.errPass, d)
      else if d.ammoNum = 0 then (.errNoAmmo, d)
      else scanLinesLoop s passes fuel { d with pos := 0, acc := [] }

def scanLines (s : Source) (b : Bounds) (d : LDec) : ScanRes × LDec :=
  if b.limit ≠ 0 ∧ b.limit ≤ d.ammoNum then (.errLimit, d) else scanLinesLoop s b.passes 2 d

/-- `Provider.Run` over the uri / uripost decoder WITH its accumulator -/
def runLinesFuel (s : Source) (preload : Bool) (chosen : EntryH → Bool) (b : Bounds) (cancelAt : Option Nat)
    (fuel : Nat) : Option (Outcome EntryH) :=
  if loadSeesCancel .uri preload cancelAt then some ⟨[], .canceled, true⟩ else
  httpRun (scanLines s) (·.passNum) LDec.init (decodeLines s) chosen preload b cancelAt fuel

def runLines (s : Source) (preload : Bool) (chosen : EntryH → Bool) (b : Bounds) (cancelAt : Option Nat) :
    Option (Outcome EntryH) :=
  match fuelOf (decodeLines s).length ((decodeLines s).filter chosen).length b cancelAt with
  | none => none
  | some fuel => runLinesFuel s preload chosen b cancelAt fuel

/-- `Provider.Run` of format `k` over a source with header declarations -/
def runH (k : Fmt) (preload : Bool) (s : Source) (cases : List String) (b : Bounds) (cancelAt : Option Nat) :
    Option (Outcome EntryH) :=
  runWith k preload (decode k s) (isChosenH cases) b cancelAt

/-! ## the request: `BuildRequest` + `EnrichRequestWithHeaders` -/

/-- the Host every http/json and raw entry of the harness has -/
def entryHost : String := "h.example"

/-- Host and headers of the request built from an entry.  uri / uripost: `http.NewRequest` on a path (no Host, no
headers); http/json: on `http://host/path`; raw: the parsed request with its own Host and headers.  Then every key of
the ammo's header map that the request does not have is added; `Host` sets `req.Host` only if that is still empty. -/
def reqOf (k : Fmt) (e : EntryH) : String × HMap :=
  let host0 := match k with
    | .uri | .uripost => ""
    | _ => entryHost
  e.hdr.foldl (fun (acc : String × HMap) kv =>
      if acc.2.has kv.1 then acc
      else if kv.1 == "Host" then (if acc.1 == "" then (kv.2.headD "", acc.2) else acc)
      else (acc.1, acc.2 ++ [kv]))
    (host0, e.own)

def insertKey (p : String × List String) : HMap → HMap
  | [] => [p]
  | q :: rest => if p.1 < q.1 then p :: q :: rest else q :: insertKey p rest

def sortKeys (m : HMap) : HMap := m.foldl (fun acc p => insertKey p acc) []

/-- `<Host>^K=v1+v2&K2=v` with the keys sorted — the harness' canonical text of a request's Host and headers -/
def render (r : String × HMap) : String :=
  r.1 ++ "^" ++ String.intercalate "&" ((sortKeys r.2).map fun p => p.1 ++ "=" ++ String.intercalate "+" p.2)

/-- what the harness reads off a delivered ammo of entry `i` -/
def reqText (k : Fmt) (s : Source) (i : Nat) : String := render (reqOf k (entryOf k s i (s.tags.getD i "")))

/-! ## the variant without the clone (refuted) -/

namespace Alias

/-- `readLine` handing the accumulator ITSELF to `a.Setup` when there is no `headers` option: every ammo of a pass
then refers to the one map, and a consumer that looks at a preloaded ammo (all entries are decoded before the first
is delivered) finds the accumulator as it is after the LAST line of the file. -/
def decodePreloaded (s : Source) : List EntryH :=
  (List.range s.tags.length).zipWith (fun i t => (⟨i, t, accAt s (s.n + 1), []⟩ : EntryH)) s.tags

end Alias

end Pandora.Model.C14H
