/-
C06 (xii, round 6) — the buffered writer (`bufio.Writer`) at the level of the steps of its `Flush`, used by the
aggregator's loop (`handle` → `Write`) and by whoever flushes it.

`Flush` is not atomic: it hands `buf[0:n]` to the destination (a slow write), and only afterwards compares what was
written with `b.n`:   n, err := wr.Write(buf[0:b.n]); if n < b.n && err == nil { err = io.ErrShortWrite };
                      if err != nil { …; b.n -= n; b.err = err; return err }; b.n = 0
In phout's `Run` every use of the writer (`handle`, the ticker flush, the `time.After` flush, the deferred flush) is in
ONE goroutine (regenerated: no `go` statement in `Run`/`handle`, nobody else touches the field): a `Write` never falls
between the two halves of a `Flush`. With a flusher goroutine of its own it can: the `Write` appends and advances
`b.n`, `Flush` then sees `n < b.n` and sets the sticky `io.ErrShortWrite` — every later line is refused and `Run` ends
with "short write". Units are lines; a trace is a list of events, an event that is not enabled changes nothing.
-/
namespace Pandora.Model.C06BufRace

inductive Ev
  | write (x : Nat)   -- the loop's `writer.Write(line)`
  | flushBegin        -- Flush: `wr.Write(buf[0:b.n])` starts (n lines)
  | flushEnd          -- that write returned; the comparison with `b.n` and the reset
  deriving DecidableEq, Repr

structure St where
  buf : List Nat := []
  /-- a flush is in progress: the number of lines it handed to the destination -/
  flushing : Option Nat := none
  out : List Nat := []
  /-- the writer's sticky error -/
  err : Bool := false
  /-- lines refused because of the sticky error -/
  refused : List Nat := []
  written : List Nat := []   -- ghost: every line given to Write
  deriving Repr

def step (st : St) : Ev → St
  | .write x =>
      if st.err then { st with refused := st.refused ++ [x], written := st.written ++ [x] }
      else { st with buf := st.buf ++ [x], written := st.written ++ [x] }
  | .flushBegin =>
      if st.err || st.flushing.isSome || st.buf.isEmpty then st
      else { st with flushing := some st.buf.length, out := st.out ++ st.buf }
  | .flushEnd =>
      match st.flushing with
      | none => st
      | some n =>
        if n < st.buf.length then { st with flushing := none, buf := st.buf.drop n, err := true }   -- io.ErrShortWrite
        else { st with flushing := none, buf := [] }

def run (st : St) : List Ev → St
  | [] => st
  | e :: es => run (step st e) es

/-- one goroutine: every `flushBegin` is followed at once by its `flushEnd` -/
def Sequential : List Ev → Prop
  | [] => True
  | .flushBegin :: .flushEnd :: rest => Sequential rest
  | .flushBegin :: _ => False
  | _ :: rest => Sequential rest

end Pandora.Model.C06BufRace
