/-
C14, round 3 — how `Provider.Run` ENDS: the deferred function of Run (components/providers/http/provider/provider.go)

    defer func() {
        close(p.Sink)
        if p.Close == nil { return }
        closeErr := p.Close()
        if closeErr != nil {
            if err != nil { err = xerrors.Errorf("Multiple errors faced: %w, %w", err, closeErr) } else { err = closeErr }
        }
    }()

runs after the streaming path and after the preloaded path alike: it closes the sink, closes the ammo source exactly
once, and makes ONE error out of the result of the path and the error of `Close`.  "The run ends the same way" (C14)
is about the error `Run` really returns and about what has happened to the source, so the epilogue is part of the
model: `epilogue` below is the hand-written definition, `Gen.ChosenCases.httpRunDefer` the one regenerated from the
deferred function statement by statement, `Bridge.C14.epilogue_source` proves them equal.

An error VALUE is abstracted to what `errors.Is` finds in it (`EV`): one of the provider's own classes (`RunRes`;
`.nil` = the nil error, `.errOther` = a non-nil error of no known class) and whether the error of `Close` is found.
`xerrors.Errorf` with two `%w` wraps NOTHING (golang.org/x/xerrors fmt.go: "It is invalid to include more than one %w
verb"; the result is a `noWrapError`), so in the combined error of the current source errors.Is finds neither part.

`Late` is the variant in which the sentinel mapping of the preloaded path (ErrAmmoLimit / ErrPassLimit ↦ nil) is done
in the deferred function AFTER the two errors were combined (refuted by `C14_equiv_latemap_counterexample`: with a
failing Close a preloaded run that ends at its pass limit no longer ends like the streaming run).
-/
import Pandora.Model.C14

namespace Pandora.Model.C14
open Pandora.Model.C08 hiding fullScan httpRun runFuel run

/-- an error value as `errors.Is` sees it -/
structure EV where
  run : RunRes        -- the provider's own class found in it (`.nil` = the nil error; `.errOther` = none, but not nil)
  close : Bool        -- the error returned by `Close` is found in it
  deriving DecidableEq, Repr, Inhabited

/-- the result of runFullScan / runPreloaded (after the sentinel mapping) as an error value -/
def EV.ofRun (r : RunRes) : EV := ⟨r, false⟩

/-- what `p.Close()` returns -/
def EV.ofClose (fails : Bool) : EV := if fails then ⟨.errOther, true⟩ else ⟨.nil, false⟩

def EV.isNil (e : EV) : Bool := e.run == .nil && !e.close

/-- ONE error made of two (`keepA` / `keepB` = errors.Is still finds the first / second in it): fmt.Errorf with one `%w`
per kept operand, errors.Join (both), xerrors.Errorf with two `%w` (neither) -/
def EV.join (a b : EV) (keepA keepB : Bool) : EV :=
  ⟨if keepA && a.run != .nil && a.run != .errOther then a.run
   else if keepB && b.run != .nil && b.run != .errOther then b.run else .errOther,
   (keepA && a.close) || (keepB && b.close)⟩

/-- what the deferred function of `Run` leaves behind -/
structure Epilogue where
  sinkClosed : Bool
  closeCalls : Nat     -- how often the source was closed
  err : EV             -- what `Run` returns
  deriving DecidableEq, Repr, Inhabited

/-- the deferred function of `Provider.Run` (`hasClose` = p.Close is set — NewProvider always sets it; `closeFails` =
closing the source returns an error; `e` = what the path returned) -/
def epilogue (hasClose closeFails : Bool) (e : EV) : Epilogue :=
  if !hasClose then ⟨true, 0, e⟩
  else if closeFails then
    (if e.isNil then ⟨true, 1, EV.ofClose true⟩ else ⟨true, 1, EV.join e (EV.ofClose true) false false⟩)
  else ⟨true, 1, e⟩

/-- a whole run of the provider: what consumers acquired, and how it ended -/
structure Final (α : Type) where
  delivered : List α
  fin : Epilogue
  deriving Repr

def finish {α : Type} (hasClose closeFails : Bool) (o : Outcome α) : Final α :=
  ⟨o.delivered, epilogue hasClose closeFails (EV.ofRun o.run)⟩

/-- `Provider.Run` of format `k` with its epilogue -/
def runFinal {α : Type} (k : Fmt) (preload : Bool) (file : List α) (chosen : α → Bool) (b : Bounds)
    (cancelAt : Option Nat) (hasClose closeFails : Bool) : Option (Final α) :=
  (runWith k preload file chosen b cancelAt).map (finish hasClose closeFails)

/-- the token the harness prints for the error `Run` returned (`classifyErr`) -/
def runName : RunRes → String
  | .nil => "nil" | .canceled => "canceled" | .errLimit => "limit" | .errPasses => "passes"
  | .errNoAmmo => "noammo" | .errOther => "other"

def EV.token (e : EV) : String :=
  if e.close then (if e.run == .errOther || e.run == .nil then "closeerr" else runName e.run ++ "+closeerr")
  else runName e.run

/-! ## NewProvider's source switch (components/providers/http/provider.go) -/

/-- which configurations `NewProvider` accepts as an ammo source: inline `uris` (`nUris` = len(conf.Uris) > 0) only for
the uri decoder and not together with a file; otherwise a file, which must be named.  Preload is not asked: a source is
accepted or rejected alike in both modes (regenerated guards: `Bridge.C14.source_guards_source`). -/
def sourceAccepted (k : Fmt) (nUris : Nat) (hasFile : Bool) : Bool :=
  if nUris > 0 then k == .uri && !hasFile else hasFile

/-! ## the variant with the sentinel mapping after the combination (refuted) -/

namespace Late

/-- the deferred function with `if errors.Is(err, ErrAmmoLimit) || errors.Is(err, ErrPassLimit) { err = nil }` moved
to its end -/
def epilogue (hasClose closeFails : Bool) (e : EV) : Epilogue :=
  let r := Pandora.Model.C14.epilogue hasClose closeFails e
  if !r.err.close && (r.err.run == .errLimit || r.err.run == .errPasses) then { r with err := ⟨.nil, false⟩ } else r

/-- what the two paths hand to the deferred function in that variant: the preloaded path its sentinel unmapped -/
def pathResult (preload : Bool) (endedBy : RunRes) : EV :=
  if preload then EV.ofRun endedBy else EV.ofRun (mapSentinel endedBy)

end Late

end Pandora.Model.C14
