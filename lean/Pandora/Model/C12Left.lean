/-
C12, round 4: what a composite profile answers to `Left()` — the question the loop of `instance.Run` (`Waiter.IsFinished`)
and the finish callback of the shared RPS schedule ask before every shot (core/schedule/composite.go).  Core-only.

`Left()` of a schedule is its number of tokens still to come, or a NEGATIVE number when that is unknown (an `unlimited`
part, whose length is a time, not a count).  `NewComposite` precomputes for every part the tokens of the parts BEHIND it
(`leftAfter`), walking from the last part to the first with an accumulator and a sticky flag "some part behind is
unknown"; `(*compositeSchedule).Left` combines what the current part says with that figure.
-/
namespace Pandora.Go.C12Left

/-- what `(*compositeSchedule).Left` does after its reader section: answer `v`, or shift to the next part (start it at the
finish time of the current one) and ask again -/
inductive LeftAct
  | ret (v : Int)
  | shift
  deriving DecidableEq, Repr

end Pandora.Go.C12Left

namespace Pandora.Model.C12Left
open Pandora.Go.C12Left

/-- one iteration of the loop of `NewComposite`: (accumulator, "unknown" flag) before the part, the part's `Left()` ↦
(`leftAfter` of the part, accumulator, flag) -/
def stepLeft (acc : Int) (unk : Bool) (c : Int) : Int × Int × Bool :=
  (acc, (if c < 0 then -1 else if unk then acc else acc + c), (unk || decide (c < 0)))

/-- the loop, from the last part to the first, over ANY body (the regenerated one is plugged in here): (`leftAfter` of every
part, accumulator, flag) -/
def loopWith (body : Int → Bool → Int → Int × Int × Bool) (init : Int × Bool) : List Int → List Int × Int × Bool
  | [] => ([], init.1, init.2)
  | c :: rest =>
    let r := loopWith body init rest
    let s := body r.2.1 r.2.2 c
    (s.1 :: r.1, s.2.1, s.2.2)

def loopFrom (cs : List Int) : List Int × Int × Bool := loopWith stepLeft (0, false) cs

/-- `leftAfter` as `NewComposite` stores it -/
def leftAfterOf (cs : List Int) : List Int := (loopFrom cs).1

/-- the MEANING: tokens of a sequence of parts — unknown (−1) as soon as one part is unknown, else the sum -/
def seqLeft : List Int → Int
  | [] => 0
  | c :: rest => if c < 0 ∨ seqLeft rest < 0 then -1 else c + seqLeft rest

/-- the decision of `(*compositeSchedule).Left` -/
def leftDecide (schedsLeft leftAfter left : Int) (started : Bool) : LeftAct :=
  if schedsLeft = 1 then .ret left
  else if left = 0 then
    (if leftAfter ≥ 0 then .ret leftAfter else if !started then .ret (-1) else .shift)
  else if left < 0 ∨ leftAfter < 0 then .ret (-1)
  else .ret (left + leftAfter)

/-- `Left()` of a composite built over parts whose `Left()` at construction was `cs`, standing at its first part which now
says `cur` (executable: the driver predicts the answer of a fresh, never started profile with it); `none` = it shifts -/
def freshLeft (cs : List Int) : Option Int :=
  match cs with
  | [] => some 0                      -- `NewComposite()` = `NewOnce(0)`
  | [c] => some c                     -- `NewComposite(s)` = `s`
  | c :: _ =>
    match leftDecide cs.length ((leftAfterOf cs).headD 0) c false with
    | .ret v => some v
    | .shift => none

/-- `Left()` FOLLOWED THROUGH ITS SHIFTS, over any decision function and any `startNext` (how many parts it drops from `scheds` and
from `leftAfter`): `curs` = what the remaining parts answer when asked (head: the current part; a part behind is asked only
after a shift has made it the current one), `las` = their `leftAfter`; `fuel` bounds the `return s.Left()` recursion -/
def fullLeftWith (dec : Int → Int → Int → Bool → LeftAct) (dS dL : Nat) (started : Bool) :
    Nat → List Int → List Int → Option Int
  | 0, _, _ => none
  | fuel + 1, curs, las =>
    match curs with
    | [] => none
    | c :: _ =>
      match dec curs.length (las.headD 0) c started with
      | .ret v => some v
      | .shift => fullLeftWith dec dS dL started fuel (curs.drop dS) (las.drop dL)

/-- the model's: `leftDecide`, and `startNext` drops one part from both slices -/
def fullLeft (started : Bool) (curs las : List Int) : Option Int :=
  fullLeftWith leftDecide 1 1 started curs.length curs las

end Pandora.Model.C12Left
