/-
C03 — the goroutine that STARTS the instances of a pool: `(*instancePool).startInstances` (core/engine/engine.go).

    deps := instanceDeps{…}
    waiter := coreutil.NewWaiter(p.StartupSchedule)                       mkWaiter
    ok := waiter.Wait(startCtx)
    if !ok { err = startCtx.Err(); return }                                waitOrReturnCtxErr
    firstInstance, err := newInstance(runCtx, p.log, p.ID, 0, deps)
    if err != nil { return }                                               newFirstOrReturn
    started++                                                              incStarted
    go func() { runRes <- instanceRunResult{0, func() error {
        defer firstInstance.Close(); return firstInstance.Run(runCtx) }()} }()        goRunFirst
    for ; waiter.Wait(startCtx); started++ {                               (loop: body ++ post)
        id := started                                                      bindId
        go func() { runRes <- instanceRunResult{id, runNewInstance(runCtx, p.log, p.ID, id, deps)} }()   goRunNew
    }                                                                      incStarted
    err = startCtx.Err()                                                   setErrCtx
    return                                                                 ret

Its result `(started, err)` is the START RESULT the pool's bookkeeping (`Pandora.Model.C03Await`) compares the number of
awaited run results with; every goroutine it launches sends exactly ONE run result, and only after `Run` of its
instance has returned (the value sent is computed by calling `Run`).  So "pool over" (`awaited ≥ started` with the
start result in) means "every instance that was started has left `Run`" exactly if the goroutines launched are one per
id `0 … started-1` — which is what is proved here for EVERY sequence of answers of the startup schedule / start context
(`waiter.Wait(startCtx)` true any number of times, then false), and for a failing creation of the first instance.

As in `Model.C03Await` there is a flat statement language (`SInstr`) with an interpreter: `/verif/gen -area instloop`
re-extracts the three statement lists (before the loop, loop body followed by the post statement, after the loop) from
the current source and `Pandora.Bridge.C03Start` compares them with the lists below.
-/
namespace Pandora.Model.C03Start

inductive SInstr where
  | mkWaiter             -- `waiter := coreutil.NewWaiter(p.StartupSchedule)`
  | waitOrReturnCtxErr   -- `ok := waiter.Wait(startCtx); if !ok { err = startCtx.Err(); return }`
  | newFirstOrReturn     -- `firstInstance, err := newInstance(runCtx, …, 0, deps); if err != nil { return }`
  | incStarted           -- `started++`
  | goRunFirst           -- `go func() { runRes <- instanceRunResult{0, <close after Run>(firstInstance)} }()`
  | bindId               -- `id := started`
  | goRunNew             -- `go func() { runRes <- instanceRunResult{id, runNewInstance(runCtx, …, id, deps)} }()`
  | setErrCtx            -- `err = startCtx.Err()`
  | ret                  -- `return`
  | other (src : String) -- anything else: not a statement of the model
deriving DecidableEq, Repr

inductive SErr where
  | none | ctx | newInstance
deriving DecidableEq, Repr

structure SSt where
  started : Nat := 0             -- the named result `started`
  idVar : Option Nat := none     -- the local `id`
  waiter : Bool := false         -- the waiter on the startup schedule exists
  first : Bool := false          -- `firstInstance` exists
  launched : List Nat := []      -- ids of the goroutines launched so far; each sends exactly one run result
  err : SErr := .none            -- the named result `err`
  returned : Bool := false
  bad : Bool := false            -- a statement outside the language, or one used before what it needs exists
deriving DecidableEq, Repr

/-- the next answer of `waiter.Wait(startCtx)`; an exhausted list = the startup schedule is finished -/
def nextAnswer : List Bool → Bool × List Bool
  | [] => (false, [])
  | a :: as => (a, as)

/-- one statement (not a loop); `firstOk` = `newInstance` succeeds for the first instance -/
def execI (firstOk : Bool) (i : SInstr) (as : List Bool) (s : SSt) : SSt × List Bool :=
  if s.returned then (s, as) else
  match i with
  | .mkWaiter => ({ s with waiter := true, bad := s.bad || s.waiter }, as)
  | .waitOrReturnCtxErr =>
    let (a, as') := nextAnswer as
    if a then ({ s with bad := s.bad || !s.waiter }, as')
    else ({ s with err := .ctx, returned := true, bad := s.bad || !s.waiter }, as')
  | .newFirstOrReturn =>
    if firstOk then ({ s with first := true }, as) else ({ s with err := .newInstance, returned := true }, as)
  | .incStarted => ({ s with started := s.started + 1 }, as)
  | .goRunFirst => ({ s with launched := s.launched ++ [0], bad := s.bad || !s.first }, as)
  | .bindId => ({ s with idVar := some s.started }, as)
  | .goRunNew =>
    match s.idVar with
    | some id => ({ s with launched := s.launched ++ [id] }, as)
    | none => ({ s with bad := true }, as)
  | .setErrCtx => ({ s with err := .ctx }, as)
  | .ret => ({ s with returned := true }, as)
  | .other _ => ({ s with bad := true }, as)

def execL (firstOk : Bool) : List SInstr → List Bool → SSt → SSt × List Bool
  | [], as, s => (s, as)
  | i :: is, as, s => let (s', as') := execI firstOk i as s; execL firstOk is as' s'

/-- `for ; waiter.Wait(startCtx); POST { BODY }` with `body` = BODY ++ POST: one round per `true` answer -/
def execLoop (firstOk : Bool) (body : List SInstr) : List Bool → SSt → SSt × List Bool
  | [], s => ({ s with bad := s.bad || !s.waiter }, [])
  | false :: as, s => ({ s with bad := s.bad || !s.waiter }, as)
  | true :: as, s =>
    -- the body draws no startup token itself (a `waitOrReturnCtxErr` inside would: then the loop is not this one)
    let (s', _) := execL firstOk body [] s
    execLoop firstOk body as { s' with bad := s'.bad || body.contains .waitOrReturnCtxErr }

def execStart (pre loop post : List SInstr) (answers : List Bool) (firstOk : Bool) : SSt :=
  let (s1, as1) := execL firstOk pre answers {}
  if s1.returned then s1 else
  let (s2, as2) := execLoop firstOk loop as1 s1
  (execL firstOk post as2 s2).1

/-! ### the statement lists of the current source, as the model knows them -/

def startPre : List SInstr := [.mkWaiter, .waitOrReturnCtxErr, .newFirstOrReturn, .incStarted, .goRunFirst]
def startLoop : List SInstr := [.bindId, .goRunNew, .incStarted]
def startPost : List SInstr := [.setErrCtx, .ret]

/-- `startInstances` -/
def starter (answers : List Bool) (firstOk : Bool) : SSt := execStart startPre startLoop startPost answers firstOk

/-- how many instances the answers allow: the leading `true`s -/
def allowed (answers : List Bool) : Nat := (answers.takeWhile (· == true)).length

end Pandora.Model.C03Start

namespace Pandora.Model.C03Start

/-! ### statement order that does not matter

Counting an instance (`started++`) and launching its goroutine commute: `goRunFirst` does not read `started`, `goRunNew`
reads the id bound BEFORE (`bindId`).  `norm` moves every `incStarted` behind the launches that directly follow it, so
that `started++; go …` and `go …; started++` (in the loop: as the post statement or inside the body) are the same list.
`Pandora.Proofs.C03Start.norm_exec` proves that executing the normalised list is executing the list. -/

/-- `n` = `incStarted`s met and not yet put back -/
def normAux : Nat → List SInstr → List SInstr
  | n, [] => List.replicate n .incStarted
  | n, .incStarted :: rest => normAux (n + 1) rest
  | n, .goRunNew :: rest => .goRunNew :: normAux n rest
  | n, .goRunFirst :: rest => .goRunFirst :: normAux n rest
  | n, i :: rest => List.replicate n .incStarted ++ i :: normAux 0 rest

def norm (l : List SInstr) : List SInstr := normAux 0 l

end Pandora.Model.C03Start
