/-
C06 (v'') — `instancePool.Run`'s three ways out and `Engine.wait`: when may `Engine.Wait()` return?

    func (p *instancePool) Run(ctx) error {
        if err := p.warmUpGun(ctx); err != nil { p.onWaitDone(); return err }          -- nothing was started
        rh, err := p.runAsync(ctx)
        if err != nil { if p.onWaitDone != nil { p.onWaitDone() }; return err }          -- nothing was started
        awaitErr := p.awaitRunAsync(rh)      -- a goroutine: awaitRun(); close(awaitErr); p.onWaitDone()
        select { case <-ctx.Done(): return ctx.Err()
                 case err, ok := <-awaitErr: … } }

`Engine.Run` does `e.wait.Add(1)` per pool and hands `e.wait.Done` to the pool as `onWaitDone`; `Engine.Wait` is
`e.wait.Wait()`. A caller that cancels and waits (cli.go on a signal or a failure) exits after that — so `Done`
must be called exactly once per pool, and — for a pool whose tasks were started — only after its aggregator
returned. The tasks of a started pool are the free-running system of `Model.C06Pool` (its `.waitDone` event is the
deferred function of `awaitRunAsync`'s goroutine); a pool that failed early never takes a step of it.
`Cfg` describes the variants of the code (the code itself: `Cfg.code`); an event that is not enabled leaves the
state unchanged.
-/
import Pandora.Model.C06Pool

namespace Pandora.Model.C06PoolRun
open Pandora.Model.C06Pool (PSt PEv)

structure Cfg where
  /-- `p.onWaitDone()` before the `return err` after a failed warm-up -/
  doneOnWarmFail : Bool
  /-- `p.onWaitDone()` before the `return err` after a failed `runAsync` -/
  doneOnAsyncFail : Bool
  /-- `onWaitDone` also when `Run` leaves through `case <-ctx.Done()` (the code: no — the await goroutine does it) -/
  doneOnCtxDone : Bool

def Cfg.code : Cfg := { doneOnWarmFail := true, doneOnAsyncFail := true, doneOnCtxDone := false }

inductive Path
  | fresh         -- `Run` has not got past `runAsync` yet
  | failedEarly   -- warm-up or `runAsync` failed: `Run` returned, no task was started
  | started       -- `runAsync` succeeded: provider, aggregator, instance start and the await goroutine are running
  deriving DecidableEq, Repr

structure PoolSt where
  path : Path := .fresh
  /-- the pool's tasks (stepped only once they were started) -/
  p : PSt
  /-- calls of `onWaitDone` = `Engine.wait.Done()` made for this pool -/
  dones : Nat := 0
  /-- `Run` has returned through `case <-ctx.Done()` -/
  ctxReturned : Bool := false

inductive Ev
  | warmFail (j : Nat)        -- `warmUpGun` fails
  | asyncFail (j : Nat)       -- `runAsync` fails (the shared schedule cannot be built)
  | asyncOk (j : Nat)         -- `runAsync` succeeds; `awaitRunAsync` starts the await goroutine
  | pool (j : Nat) (e : PEv)  -- a step of pool j's tasks
  | ctxReturn (j : Nat)       -- `Run`'s final select takes `case <-ctx.Done()`
  deriving Repr

structure St where
  pools : Nat → PoolSt

def init (toWait : Nat) : St := { pools := fun _ => { p := Pandora.Model.C06Pool.init toWait } }

def setPool (f : Nat → PoolSt) (j : Nat) (x : PoolSt) : Nat → PoolSt := fun k => if k = j then x else f k

def done1 (b : Bool) : Nat := if b then 1 else 0

def step (cfg : Cfg) (st : St) : Ev → St
  | .warmFail j =>
    if (st.pools j).path = .fresh then
      { pools := setPool st.pools j { st.pools j with path := .failedEarly, dones := (st.pools j).dones + done1 cfg.doneOnWarmFail } }
    else st
  | .asyncFail j =>
    if (st.pools j).path = .fresh then
      { pools := setPool st.pools j { st.pools j with path := .failedEarly, dones := (st.pools j).dones + done1 cfg.doneOnAsyncFail } }
    else st
  | .asyncOk j =>
    if (st.pools j).path = .fresh then { pools := setPool st.pools j { st.pools j with path := .started } } else st
  | .pool j e =>
    if (st.pools j).path = .started then
      let p' := Pandora.Model.C06Pool.step (st.pools j).p e
      -- the deferred function of the await goroutine runs once: when `waitDone` becomes true
      let fired := !(st.pools j).p.waitDone && p'.waitDone
      { pools := setPool st.pools j { st.pools j with p := p', dones := (st.pools j).dones + done1 fired } }
    else st
  | .ctxReturn j =>
    if (st.pools j).path = .started ∧ (st.pools j).ctxReturned = false then
      { pools := setPool st.pools j { st.pools j with ctxReturned := true, dones := (st.pools j).dones + done1 cfg.doneOnCtxDone } }
    else st

def run (cfg : Cfg) (st : St) : List Ev → St
  | [] => st
  | e :: es => run cfg (step cfg st e) es

/-- `Done` calls made for the pools `0 … n-1` -/
def totalDones (st : St) : Nat → Nat
  | 0 => 0
  | n + 1 => totalDones st n + (st.pools n).dones

/-- `Engine.Wait()` of an engine with `n` pools can return: the counter (`n` `Add(1)`s) is back at zero -/
def waitReturns (st : St) (n : Nat) : Prop := totalDones st n = n

/-- sync.WaitGroup panics ("negative WaitGroup counter") when `Done` is called more often than `Add(1)` -/
def negativeCounter (st : St) (n : Nat) : Prop := n < totalDones st n

instance (st : St) (n : Nat) : Decidable (waitReturns st n) := inferInstanceAs (Decidable (totalDones st n = n))
instance (st : St) (n : Nat) : Decidable (negativeCounter st n) := inferInstanceAs (Decidable (n < totalDones st n))

end Pandora.Model.C06PoolRun
