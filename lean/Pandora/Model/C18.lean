/-
C18 — model of core/plugin/registry.go + constructor.go (core Lean only, executable).

What is mirrored, function by function:
  Registry.Register / newDefaultConfigContainer  → `registerOk`   (type expectations on the default-config function)
  defaultConfigContainer.new                      → `dcNew`
  defaultConfigContainer.Get                      → `dcGet`
  pluginConstructor.NewPlugin                     → `pluginCtor`
  factoryConstructor.callNewFactory               → `factoryCtor`
  factoryConstructor.NewPlugin                    → `newPlugin` (factory branch)
  Registry.New                                    → `regNew`
  Registry.NewFactory + implConstructor.NewFactory→ `regNewFactory` / `ctorNewFactory`, result `Fac`
  the closures built by reflect.MakeFunc          → `callFac`
  convertFactoryOutParams                         → `convertOut`

User code (the registered constructor, the factory it returns, the default-config function and
fillConf) is modelled as the instrumented code of harness/cmd/c18: every invocation is logged as an
`Ev` carrying its own invocation index, fails iff the fault plan says so (and the function has an
error result), a component holding a `*Conf` writes its serial number into `Conf.Mark` (field 0) —
that is what makes shared configuration state observable.

The heap maps a configuration identity (`Nat`, allocation order) to its current content.
-/
namespace Pandora.Model.C18

/-- a configuration value: finite map field ↦ value, first binding wins, absent = zero value -/
abbrev Cfg := List (Nat × Int)

def Cfg.get (c : Cfg) (f : Nat) : Int := (List.lookup f c).getD 0

/-- field 0 is `Mark`, written by a component into the config it holds by pointer -/
def markField : Nat := 0

inductive CfgKind | none | struct | ptr
deriving DecidableEq, Repr

/-- the optional default-config function: not given / returns a fresh value (or fresh pointer) /
returns a nil pointer / returns the same pointer on every call -/
inductive DefKind | absent | fresh | nilPtr | shared
deriving DecidableEq, Repr

inductive Form | component | facNoErr | facErr
deriving DecidableEq, Repr

/-- shape of the registered constructor
`func([Conf | *Conf]) (Impl | Iface | func() (Impl | Iface [, error]) [, error])` -/
structure Shape where
  factory : Bool      -- returns a factory of components
  cfg : CfgKind
  ctorErr : Bool      -- constructor has an error result
  factErr : Bool      -- the factory it returns has an error result (factory shapes only)
  iface : Bool        -- product type is the plugin interface itself (enables the return-as-is shortcuts)
  dflt : DefKind
deriving DecidableEq, Repr

/-- everything that is not the registry: default values, user settings, fault plan -/
structure World where
  dflt : Cfg
  user : Cfg
  hasFill : Bool              -- a fillConf function is passed
  fillFault : Nat → Bool      -- i-th fillConf invocation fails
  ctorFault : Nat → Bool      -- i-th constructor invocation fails (if it has an error result)
  factFault : Nat → Bool      -- i-th invocation of a registered factory fails (if it has an error result)

inductive Err
  | fill (i : Nat) | ctor (i : Nat) | fact (i : Nat)
deriving DecidableEq, Repr

/-- invocations of user code, in time order -/
inductive Ev
  | dflt
  | fill (i : Nat) (addr : Option Nat) (ok : Bool)    -- addr = none: the empty struct (no config)
  | ctor (i : Nat) (conf : Option Nat) (ok : Bool)    -- conf = identity of the *Conf argument (ptr configs only)
  | fact (i : Nat) (ok : Bool)
deriving DecidableEq, Repr

structure Product where
  serial : Nat          -- invocation index of the function that built it
  cell : Option Nat     -- identity of the configuration it holds (ptr configs only)
  seen : Cfg            -- configuration content it was built from
deriving DecidableEq, Repr

inductive Res
  | made                -- NewFactory succeeded
  | ok (p : Product)
  | err (e : Err)       -- error result
  | panic (e : Err)     -- panic carrying the error
deriving DecidableEq, Repr

structure Step where
  evs : List Ev
  res : Res
deriving DecidableEq, Repr

structure St where
  heap : Nat → Cfg
  next : Nat            -- next fresh identity
  fills : Nat
  ctors : Nat
  facts : Nat
  log : List Ev         -- events of the current step, newest first

def upd (h : Nat → Cfg) (c : Nat) (v : Cfg) : Nat → Cfg := fun i => if i = c then v else h i

/-- `Register`: expectations of `newDefaultConfigContainer` on the default-config function -/
def registerOk (sh : Shape) : Bool :=
  match sh.cfg, sh.dflt with
  | .none, .absent => true
  | .none, _ => false                 -- "constructor accept no config, but defaultConfig passed"
  | .struct, .absent => true
  | .struct, .fresh => true
  | .struct, _ => false               -- func() *Conf is not func() Conf
  | .ptr, _ => true

/-- state after registration; a `shared` default-config function owns one config object from the start -/
def initSt (sh : Shape) (w : World) : St :=
  if sh.dflt = .shared then
    { heap := fun i => if i = 0 then w.dflt else [], next := 1, fills := 0, ctors := 0, facts := 0, log := [] }
  else
    { heap := fun _ => [], next := 0, fills := 0, ctors := 0, facts := 0, log := [] }

/-- `defaultConfigContainer.new`: call the default-config function (or the zero-value MakeFunc), make the
result addressable / non-nil; returns the identity of the config that will be filled -/
def dcNew (sh : Shape) (w : World) (st : St) : St × Nat :=
  match sh.dflt with
  | .absent => ({ st with heap := upd st.heap st.next [], next := st.next + 1 }, st.next)
  | .fresh  => ({ st with heap := upd st.heap st.next w.dflt, next := st.next + 1, log := .dflt :: st.log }, st.next)
  | .nilPtr => ({ st with heap := upd st.heap st.next [], next := st.next + 1, log := .dflt :: st.log }, st.next)
  | .shared => ({ st with log := .dflt :: st.log }, 0)

/-- `defaultConfigContainer.Get(fillConf)` -/
def dcGet (sh : Shape) (w : World) (st : St) : St × Except Err (Option Nat) :=
  let r : St × Option Nat :=
    if sh.cfg = .none then (st, none) else ((dcNew sh w st).1, some (dcNew sh w st).2)
  let st := r.1
  let conf := r.2
  if w.hasFill then
    if w.fillFault st.fills then
      ({ st with fills := st.fills + 1, log := .fill st.fills conf false :: st.log }, .error (.fill st.fills))
    else
      let heap := match conf with
        | some c => upd st.heap c (w.user ++ st.heap c)
        | none => st.heap
      ({ st with fills := st.fills + 1, heap := heap, log := .fill st.fills conf true :: st.log }, .ok conf)
  else (st, .ok conf)

/-- a component is built: from the config behind `conf` (ptr: held and marked; struct: copied) or from `copy` -/
def produce (kind : CfgKind) (serial : Nat) (conf : Option Nat) (copy : Cfg) (st : St) : St × Product :=
  match kind, conf with
  | .ptr, some c =>
      ({ st with heap := upd st.heap c ((markField, (serial : Int)) :: st.heap c) }, ⟨serial, some c, st.heap c⟩)
  | .struct, some c => (st, ⟨serial, none, st.heap c⟩)
  | _, _ => (st, ⟨serial, none, copy⟩)

/-- identity of the constructor argument as the instrumented constructor can see it -/
def shownConf (sh : Shape) (conf : Option Nat) : Option Nat := if sh.cfg = .ptr then conf else none

/-- `pluginConstructor.NewPlugin`: call the registered component constructor -/
def pluginCtor (sh : Shape) (w : World) (conf : Option Nat) (st : St) : St × Except Err Product :=
  if sh.ctorErr && w.ctorFault st.ctors then
    ({ st with ctors := st.ctors + 1, log := .ctor st.ctors (shownConf sh conf) false :: st.log }, .error (.ctor st.ctors))
  else
    let r := produce sh.cfg st.ctors conf []
      { st with ctors := st.ctors + 1, log := .ctor st.ctors (shownConf sh conf) true :: st.log }
    (r.1, .ok r.2)

/-- the factory returned by a registered factory constructor: a closure over its config -/
structure RegFac where
  cell : Option Nat     -- captured *Conf
  copy : Cfg            -- captured Conf value
deriving DecidableEq, Repr

/-- `factoryConstructor.callNewFactory` -/
def factoryCtor (sh : Shape) (w : World) (conf : Option Nat) (st : St) : St × Except Err RegFac :=
  if sh.ctorErr && w.ctorFault st.ctors then
    ({ st with ctors := st.ctors + 1, log := .ctor st.ctors (shownConf sh conf) false :: st.log }, .error (.ctor st.ctors))
  else
    let rf : RegFac := match sh.cfg, conf with
      | .ptr, some c => ⟨some c, []⟩
      | .struct, some c => ⟨none, st.heap c⟩
      | _, _ => ⟨none, []⟩
    ({ st with ctors := st.ctors + 1, log := .ctor st.ctors (shownConf sh conf) true :: st.log }, .ok rf)

/-- one call of the factory returned by the registered factory constructor -/
def regFacCall (sh : Shape) (w : World) (rf : RegFac) (st : St) : St × Except Err Product :=
  if sh.factErr && w.factFault st.facts then
    ({ st with facts := st.facts + 1, log := .fact st.facts false :: st.log }, .error (.fact st.facts))
  else
    let r := produce sh.cfg st.facts rf.cell rf.copy
      { st with facts := st.facts + 1, log := .fact st.facts true :: st.log }
    (r.1, .ok r.2)

/-- `implConstructor.NewPlugin` -/
def newPlugin (sh : Shape) (w : World) (conf : Option Nat) (st : St) : St × Except Err Product :=
  if sh.factory then
    match (factoryCtor sh w conf st).2 with
    | .error e => ((factoryCtor sh w conf st).1, .error e)
    | .ok rf => regFacCall sh w rf (factoryCtor sh w conf st).1
  else pluginCtor sh w conf st

def toRes : Except Err Product → Res
  | .ok p => .ok p
  | .error e => .err e

/-- `Registry.New` -/
def regNew (sh : Shape) (w : World) (st : St) : St × Res :=
  match (dcGet sh w st).2 with
  | .error e => ((dcGet sh w st).1, .err e)
  | .ok conf => ((newPlugin sh w conf (dcGet sh w st).1).1, toRes (newPlugin sh w conf (dcGet sh w st).1).2)

/-- what `NewFactory` hands out -/
inductive Fac
  | direct                                  -- the registered constructor itself (its type is the requested type)
  | wrapPlugin (numOut : Nat)               -- MakeFunc closure: getMaybeConf, newPlugin.Call, convert
  | directFactory (rf : RegFac)             -- the registered factory itself
  | wrapFactory (rf : RegFac) (numOut : Nat)-- MakeFunc closure: factory.Call, convert
deriving DecidableEq, Repr

/-- `convertFactoryOutParams`: `numOut` results requested, the callee has `outLen` -/
def convertOut (numOut outLen : Nat) (r : Except Err Product) : Res :=
  match r with
  | .ok p => .ok p                                       -- nil error appended or dropped
  | .error e => if numOut < outLen then .panic e else .err e

def outLen (b : Bool) : Nat := if b then 2 else 1

/-- `implConstructor.NewFactory(factoryType, getMaybeConf)`; `needConf` ⇔ getMaybeConf ≠ nil -/
def ctorNewFactory (sh : Shape) (w : World) (numOut : Nat) (needConf : Bool) (st : St) : St × Except Err Fac :=
  if !sh.factory then
    -- pluginConstructor.NewFactory
    if sh.cfg = .none && sh.iface && (outLen sh.ctorErr == numOut) then (st, .ok .direct)
    else (st, .ok (.wrapPlugin numOut))
  else
    -- factoryConstructor.NewFactory
    let r : St × Except Err (Option Nat) := if needConf then dcGet sh w st else (st, .ok none)
    match r.2 with
    | .error e => (r.1, .error e)
    | .ok conf =>
      match (factoryCtor sh w conf r.1).2 with
      | .error e => ((factoryCtor sh w conf r.1).1, .error e)
      | .ok rf =>
        if sh.iface && (outLen sh.factErr == numOut) then ((factoryCtor sh w conf r.1).1, .ok (.directFactory rf))
        else ((factoryCtor sh w conf r.1).1, .ok (.wrapFactory rf numOut))

/-- `Registry.NewFactory` -/
def regNewFactory (sh : Shape) (w : World) (numOut : Nat) (st : St) : St × Except Err Fac :=
  if sh.cfg = .none then
    -- config not required: fillConf is only checked on an empty struct (exactly `Get` without a config)
    match (dcGet sh w st).2 with
    | .error e => ((dcGet sh w st).1, .error e)
    | .ok _ => ctorNewFactory sh w numOut false (dcGet sh w st).1
  else ctorNewFactory sh w numOut true st

/-- one call of the factory handed out by `NewFactory` -/
def callFac (sh : Shape) (w : World) (fac : Fac) (st : St) : St × Res :=
  match fac with
  | .direct => ((pluginCtor sh w none st).1, toRes (pluginCtor sh w none st).2)
  | .wrapPlugin numOut =>
      if sh.cfg = .none then
        ((pluginCtor sh w none st).1, convertOut numOut (outLen sh.ctorErr) (pluginCtor sh w none st).2)
      else
        match (dcGet sh w st).2 with
        | .error e => ((dcGet sh w st).1, if numOut = 1 then .panic e else .err e)
        | .ok conf =>
          ((pluginCtor sh w conf (dcGet sh w st).1).1,
           convertOut numOut (outLen sh.ctorErr) (pluginCtor sh w conf (dcGet sh w st).1).2)
  | .directFactory rf => ((regFacCall sh w rf st).1, toRes (regFacCall sh w rf st).2)
  | .wrapFactory rf numOut =>
      ((regFacCall sh w rf st).1, convertOut numOut (outLen sh.factErr) (regFacCall sh w rf st).2)

/-- run one operation as a step: its own event log and its result -/
def step (f : St → St × Res) (st : St) : St × Step :=
  let r := f { st with log := [] }
  (r.1, ⟨r.1.log.reverse, r.2⟩)

/-- `k` successive operations -/
def iter (f : St → St × Step) : Nat → St → St × List Step
  | 0, st => (st, [])
  | k + 1, st => ((iter f k (f st).1).1, (f st).2 :: (iter f k (f st).1).2)

structure Input where
  sh : Shape
  form : Form
  w : World
  k : Nat

def Form.numOut : Form → Nat
  | .facErr => 2
  | _ => 1

/-- registration, creation, k calls (`component`: k calls of `New`). `none`: `Register` panics. -/
def runSt (inp : Input) : Option (St × List Step) :=
  if !registerOk inp.sh then none else
  match inp.form with
  | .component => some (iter (step (regNew inp.sh inp.w)) inp.k (initSt inp.sh inp.w))
  | form =>
    let c := regNewFactory inp.sh inp.w form.numOut (initSt inp.sh inp.w)
    match c.2 with
    | .error e => some (c.1, [⟨c.1.log.reverse, .err e⟩])
    | .ok fac =>
      let r := iter (step (callFac inp.sh inp.w fac)) inp.k c.1
      some (r.1, ⟨c.1.log.reverse, .made⟩ :: r.2)

/-- the observation: steps, and at the very end what every pointer-holding product reads in `Conf.Mark` -/
structure Obs where
  steps : List Step
  views : List (Nat × Int)      -- (serial, Mark read through the product's config pointer)
deriving DecidableEq, Repr

def viewsOf (heap : Nat → Cfg) (steps : List Step) : List (Nat × Int) :=
  steps.filterMap fun s =>
    match s.res with
    | .ok ⟨serial, some c, _⟩ => some (serial, (heap c).get markField)
    | _ => none

def run (inp : Input) : Option Obs :=
  (runSt inp).map fun r => ⟨r.2, viewsOf r.1.heap r.2⟩

/-! ### histories: several creations on ONE registration

A registration lives as long as the process; `New` / `NewFactory` are called on it again and again with other user
settings (two pools of one config that use the same gun type).  A *phase* is what `runSt` does — `NewFactory` + k calls,
or k× `New` — but started in the state the previous phases left (configuration objects, invocation counters). -/

/-- one phase started in `st` -/
def phaseSt (inp : Input) (st : St) : St × List Step :=
  match inp.form with
  | .component => iter (step (regNew inp.sh inp.w)) inp.k { st with log := [] }
  | form =>
    let c := regNewFactory inp.sh inp.w form.numOut { st with log := [] }
    match c.2 with
    | .error e => (c.1, [⟨c.1.log.reverse, .err e⟩])
    | .ok fac =>
      let r := iter (step (callFac inp.sh inp.w fac)) inp.k c.1
      (r.1, ⟨c.1.log.reverse, .made⟩ :: r.2)

/-- the observation of one phase: its steps and, at its end, the views of its own products -/
def phaseObs (inp : Input) (st : St) : Obs :=
  ⟨(phaseSt inp st).2, viewsOf (phaseSt inp st).1.heap (phaseSt inp st).2⟩

/-- one creation of a history: requested form, the user's settings of this creation, number of calls -/
structure Phase where
  form : Form
  user : Cfg
  hasFill : Bool
  k : Nat

/-- a history on one registration: the shape, what the default-config function returns, one fault plan over the
(global) invocation indices, the phases -/
structure HInput where
  sh : Shape
  dflt : Cfg
  fillFault : Nat → Bool
  ctorFault : Nat → Bool
  factFault : Nat → Bool
  phases : List Phase

def HInput.input (h : HInput) (p : Phase) : Input :=
  { sh := h.sh, form := p.form, k := p.k,
    w := { dflt := h.dflt, user := p.user, hasFill := p.hasFill,
           fillFault := h.fillFault, ctorFault := h.ctorFault, factFault := h.factFault } }

/-- the phases one after the other: final state, per phase its observation -/
def histSt (h : HInput) : List Phase → St → St × List Obs
  | [], st => (st, [])
  | p :: ps, st =>
    ((histSt h ps (phaseSt (h.input p) st).1).1, phaseObs (h.input p) st :: (histSt h ps (phaseSt (h.input p) st).1).2)

structure HObs where
  phases : List Obs
  views : List (Nat × Int)      -- at the very end: what every pointer-holding product of the whole history reads
deriving DecidableEq, Repr

def histInit (h : HInput) : St :=
  initSt h.sh { dflt := h.dflt, user := [], hasFill := false, fillFault := h.fillFault, ctorFault := h.ctorFault,
                factFault := h.factFault }

def runHist (h : HInput) : Option HObs :=
  if !registerOk h.sh then none else
  let r := histSt h h.phases (histInit h)
  some ⟨r.2, viewsOf r.1.heap (r.2.flatMap (·.steps))⟩

end Pandora.Model.C18
