/-
C03 — a tiny statement language for ONE iteration of the loop of `instance.Run` (core/engine/instance.go), its
sequential interpreter, and the check that a given iteration body only produces paths the transition system
`Pandora.Model.C03.step` accepts.

`/verif/gen -area instloop` re-extracts `Pandora.Gen.InstLoop.iterBody : List Instr` from the current source on every
check; `Pandora.Bridge.InstLoop` proves `bodyAccepted Gen.InstLoop.iterBody = true`, i.e. for every answer of the
environment (Acquire ok?, Wait ok?, fire or discard?) the sequence of provider / schedule / gun / aggregator / metric
operations the SOURCE performs in one iteration is a path of the model, ends where the model says the loop continues
or is left, and releases what it acquired.  Reordering Acquire / Wait / Shoot / Release in the source, dropping the
`defer`, releasing early, counting a metric in the wrong branch … makes that obligation fail.
-/
import Pandora.Model.C03

namespace Pandora.Model.C03Loop
open Pandora.Model.C03

/-- statements of the iteration function `func() error { … }` (flat, `if`/`else`/`end` as markers; no nesting) -/
inductive Instr where
  | acquireOrReturn (v : String)        -- `v, ok := i.provider.Acquire(); if !ok { return outOfAmmoErr }`
  | acquireOrReturnIf (v : String) (tests : List String) (itemIsNil : Bool)
      -- `v, ok := i.provider.Acquire(); if !ok || <test on v> || … { return outOfAmmoErr }`: the iteration is also left when
      -- the VALUE of the item passes one of the tests (`"nil"` = `v == nil`; any other text = a test the model does not know).
      -- `core.Ammo` is `interface{}`: every value, the untyped nil included, is a valid item (`provider.Dummy` hands out nothing
      -- else) — the only thing that says "no more ammo" is `ok == false`.  `itemIsNil`: the run is about an item whose value
      -- is nil (the translator emits `false`; `onNilItem` turns it on: the same body, run on a nil item)
  | deferRelease (v : String)           -- `defer i.provider.Release(v)`
  | release (v : String)                -- `i.provider.Release(v)` as a plain statement
  | waitOrReturn                        -- `if !waiter.Wait(ctx) { return nil }`
  | ifFire                              -- `if !i.discardOverflow || !waiter.IsSlowDown(ctx) {`
  | orElse                              -- `} else {`
  | endIf                               -- `}`
  | metricAdd (name : String) (d : Int) -- `i.metrics.<name>.Add(d)`
  | shoot (v : String)                  -- `i.gun.Shoot(v)`
  | reportDiscard                       -- `i.aggregator.Report(netsample.DiscardedShootSample())`
  | returnNil                           -- `return nil`
  | other (src : String)                -- anything else (never accepted)
deriving DecidableEq, Repr

/-- what one instance does, seen from the shared state -/
inductive Act where
  | acq | empty | tokOk | tokEnd | reqAdd | shoot | respAdd | discard | rel
  | bad (why : String)
deriving DecidableEq, Repr

inductive Outcome where
  | retNil     -- the iteration function returned nil: the loop goes on with the next IsFinished check
  | retErr     -- it returned outOfAmmoErr: `if err != nil { return err }` leaves Run
  | fellOff    -- ran past its last statement (cannot happen in compilable Go)
deriving DecidableEq, Repr

/-- the environment's answers in one iteration -/
structure Oracle where
  acqOk : Bool    -- Acquire returned an item
  waitOk : Bool   -- Wait returned true (a token was drawn)
  fire : Bool     -- `!discardOverflow || !IsSlowDown`
deriving DecidableEq, Repr

inductive Mode where
  | run | skipToElse | skipToEnd
deriving DecidableEq

/-- deferred calls run in LIFO order when the iteration function returns -/
def runDefers : List Instr → List Act
  | [] => []
  | .deferRelease _ :: ds => .rel :: runDefers ds
  | _ :: ds => .bad "defer" :: runDefers ds

def cons (a : Act) (r : List Act × Outcome) : List Act × Outcome := (a :: r.1, r.2)

/-- sequential execution of the iteration body; `var` = the variable bound by Acquire, `ds` = deferred calls (stack) -/
def exec : List Instr → Oracle → Mode → Option String → List Instr → List Act × Outcome
  | [], _, _, _, ds => (runDefers ds, .fellOff)
  | ins :: rest, o, .skipToElse, v, ds =>
    match ins with
    | .orElse => exec rest o .run v ds
    | .endIf => exec rest o .run v ds
    | _ => exec rest o .skipToElse v ds
  | ins :: rest, o, .skipToEnd, v, ds =>
    match ins with
    | .endIf => exec rest o .run v ds
    | _ => exec rest o .skipToEnd v ds
  | ins :: rest, o, .run, v, ds =>
    match ins with
    | .acquireOrReturn x =>
      if o.acqOk then cons .acq (exec rest o .run (some x) ds) else (.empty :: runDefers ds, .retErr)
    | .acquireOrReturnIf x tests itemIsNil =>
      if !o.acqOk then (.empty :: runDefers ds, .retErr)
      else if tests.any (· != "nil") then cons (.bad "unknown test on the value of the item") (exec rest o .run (some x) ds)
      else if tests.contains "nil" && itemIsNil then
        -- an item was handed out (`ok = true`) and the iteration returns the out-of-ammo error all the same: the item is
        -- neither fired nor released (the `defer` comes later) — no path of the model
        cons .acq (runDefers ds, .retErr)
      else cons .acq (exec rest o .run (some x) ds)
    | .deferRelease x =>
      if v = some x then exec rest o .run v (ins :: ds) else cons (.bad "release of something else") (exec rest o .run v ds)
    | .release x =>
      if v = some x then cons .rel (exec rest o .run v ds) else cons (.bad "release of something else") (exec rest o .run v ds)
    | .waitOrReturn =>
      if o.waitOk then cons .tokOk (exec rest o .run v ds) else (.tokEnd :: runDefers ds, .retNil)
    | .ifFire => if o.fire then exec rest o .run v ds else exec rest o .skipToElse v ds
    | .orElse => exec rest o .skipToEnd v ds
    | .endIf => exec rest o .run v ds
    | .metricAdd name d =>
      if name = "Request" ∧ d = 1 then cons .reqAdd (exec rest o .run v ds)
      else if name = "Response" ∧ d = 1 then cons .respAdd (exec rest o .run v ds)
      else cons (.bad "metric") (exec rest o .run v ds)
    | .shoot x =>
      if v = some x then cons .shoot (exec rest o .run v ds) else cons (.bad "shoot of something else") (exec rest o .run v ds)
    | .reportDiscard => cons .discard (exec rest o .run v ds)
    | .returnNil => (runDefers ds, .retNil)
    | .other _ => cons (.bad "unknown statement") (exec rest o .run v ds)

/-- the model event of instance 0 for an act; the only item around is item 0 -/
def Act.toEv : Act → Option Ev
  | .acq => some (.acq 0)
  | .empty => some (.empty 0)
  | .tokOk => some (.tokOk 0)
  | .tokEnd => some (.tokEnd 0)
  | .reqAdd => some (.reqAdd 0)
  | .shoot => some (.shoot 0 0)
  | .respAdd => some (.respAdd 0)
  | .discard => some (.discard 0)
  | .rel => some (.rel 0 0)
  | .bad _ => none

/-- one started instance standing right after a non-zero IsFinished check, in an environment that will answer as `o` -/
def stateFor (perInstance : Bool) (o : Oracle) : Cfg × St :=
  let c : Cfg := { perInstance := perInstance, tokens := 1, ammo := some 1, discardOn := !o.fire, instances := 1 }
  let t := if o.waitOk then 1 else 0
  (c, { pcs := [.acquire], started := 1, shared := t, own := [t], ammoLeft := some (if o.acqOk then 1 else 0),
        unf := [false], cur := [none] })

/-- the path of one iteration under oracle `o` is accepted by the model and ends at the right place:
back at the IsFinished check with nothing held, or out of the loop when Acquire failed -/
def pathAccepted (body : List Instr) (perInstance : Bool) (o : Oracle) : Bool :=
  let (acts, out) := exec body o .run none []
  match acts.mapM Act.toEv with
  | none => false
  | some evs =>
    let (c, s) := stateFor perInstance o
    match run c s evs with
    | none => false
    | some s' =>
      if o.acqOk then
        out == .retNil && s'.pcs == [.check] && s'.acquired == 1 && s'.released == 1 && s'.rels == [1] && !s'.badUse
          && s'.fired + s'.discarded + s'.unfired == 1
          && (s'.fired == 1) == (o.waitOk && o.fire) && (s'.discarded == 1) == (o.waitOk && !o.fire)
          && s'.request == s'.fired && s'.response == s'.fired
      else
        out == .retErr && s'.pcs == [.done] && s'.acquired == 0 && s'.released == 0

def allOracles : List Oracle :=
  [⟨false, false, false⟩, ⟨false, false, true⟩, ⟨false, true, false⟩, ⟨false, true, true⟩,
   ⟨true, false, false⟩, ⟨true, false, true⟩, ⟨true, true, false⟩, ⟨true, true, true⟩]

/-- the same body, run on an item whose VALUE is the untyped nil (a valid ammo: `core.Ammo` is `interface{}`, the built-in
`dummy` provider hands out nothing else): only a statement that tests the value behaves differently -/
def onNilItem : List Instr → List Instr
  | [] => []
  | .acquireOrReturnIf v tests _ :: rest => .acquireOrReturnIf v tests true :: onNilItem rest
  | i :: rest => i :: onNilItem rest

/-- every path of the iteration body, in both schedule modes, for items of every value (nil or not), is a path of the model -/
def bodyAccepted (body : List Instr) : Bool :=
  allOracles.all (fun o => pathAccepted body false o && pathAccepted body true o &&
    pathAccepted (onNilItem body) false o && pathAccepted (onNilItem body) true o)

/-- the iteration body as the model was written for (instance.go at the time of writing); only used for
non-vacuity examples and documentation — the obligation is about the REGENERATED body -/
def referenceBody : List Instr :=
  [.acquireOrReturn "ammo", .deferRelease "ammo", .waitOrReturn, .ifFire, .metricAdd "Request" 1, .shoot "ammo",
   .metricAdd "Response" 1, .orElse, .reportDiscard, .endIf, .returnNil]

/-- where the per-instance schedule comes from (engine.go `buildNewInstanceSchedule`) -/
inductive SchedSource where
  | factoryPerInstance   -- `NewRPSSchedule` itself: every `newInstance` builds a fresh profile
  | sharedObject         -- one schedule built once, handed to every instance
deriving DecidableEq, Repr

end Pandora.Model.C03Loop

/-- (the generated files `open Pandora.Go`) -/
def Pandora.Go.C03.unit : Unit := ()
