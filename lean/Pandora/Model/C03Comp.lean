/-
C03 — the pool over a COMPOSITE profile (core/schedule/composite.go), at the granularity of the composite's LOCK
SECTIONS.

`Pandora.Model.C03Fine` splits `Next()` / `Left()` of a leaf profile into the one atomic access and the return.  A
profile written as a list (`rps: [{…}, {…}, …]`, the usual way) is a `compositeSchedule`: its `Next()` is not one atomic
operation but a succession of critical sections of `rwMu`, with a point in between at which the caller holds no lock
and any other instance may run:

    func (s *compositeSchedule) Next() (tx time.Time, ok bool) {
        s.started.Store(true)
        s.rwMu.RLock()                                   ── reader section (`rsec`)
        tx, ok = s.scheds[0].Next()                         a token of the current part → return it
        if ok { RUnlock; return }
        schedsLeft := len(s.scheds); RUnlock                the last part is drained → return "finished"
        if schedsLeft == 1 { return }
                                                         ── no lock held: the others run (`w[i] = some schedsLeft`)
        s.rwMu.Lock()                                    ── writer section (`wsec`)
        schedsLeftNow := len(s.scheds)
        if schedsLeftNow < schedsLeft {                     somebody has started the next part meanwhile:
            tx, ok = s.scheds[0].Next(); Unlock             take a token there; if it has none and parts remain,
            if ok || schedsLeftNow == 1 { return }          start again (`retry`)
            return s.Next()
        }
        s.startNext(tx)                                     drop the drained part, start the next one
        tx, ok = s.scheds[0].Next(); Unlock
        if !ok && schedsLeftNow > 1 { return s.Next() }     a part without tokens: start again
        return
    }

The composite is its list of parts `List Nat` (tokens left in each part that is still there, head = current part; a
finite leaf part is its token count: `Pandora.Bridge.C03DoAt`).  `rsec` / `wsec` are the two sections as functions on
that list; they are REGENERATED from the source (`Pandora.Gen.InstLoop.compNextReader` / `compNextWriter`, bridge
`Pandora.Bridge.C03Comp`).  Partial operations are explicit: `s.scheds[0]` of an empty slice and `s.scheds[1:]` /
`s.scheds[0]` in `startNext` with nothing left are `SecOut.panic`, never silently totalised.

`CSt` = the fine pool state + the parts of the shared profile / of each instance's own profile + per instance the
`len(s.scheds)` it saw when it is between the two sections.  `cstep`: the sections take the COMPOSITE's answer
(computed from the parts) and hand it to the loop of `instance.Run` — that this answer is always the one the atomic
token counter of `Model.C03` would give (no token lost when a part is dropped, "finished" only when nothing is left)
is the theorem `Pandora.Proofs.C03Comp.comp_refines`, not an assumption of the model.

`Left()` of a composite over finite parts is ONE reader section (it reads `len(s.scheds)`, `leftAfter[0]`,
`s.scheds[0].Left()` under `RLock` and then only computes): `lsec`; its decision is regenerated too
(`Gen.InstLoop.compLeftDecide`), `leftAfter[0]` = the tokens of the parts after the current one.
-/
import Pandora.Model.C03Fine

namespace Pandora.Model.C03Comp
open Pandora.Model.C03 Pandora.Model.C03Fine

/-- how a lock section of `compositeSchedule.Next` ends -/
inductive SecOut where
  | ret (ok : Bool)     -- the call returns `ok`
  | wait (seen : Nat)   -- reader section: on to the writer section, having seen `len(s.scheds) = seen`
  | retry               -- writer section: `return s.Next()` — the call starts again with a reader section
  | panic               -- index out of range (`s.scheds[0]` / `s.scheds[1:]` with nothing there)
deriving Repr, DecidableEq

/-- tokens left in a composite -/
def tot : List Nat → Nat
  | [] => 0
  | n :: r => n + tot r

/-! ### the vocabulary of the regenerated sections -/

/-- `_, ok = s.scheds[0].Next()`: a finite leaf hands out a token iff it has one left -/
def cHeadNext (s : List Nat) (k : List Nat → Bool → List Nat × SecOut) : List Nat × SecOut :=
  match s with
  | [] => (s, .panic)
  | 0 :: r => k (0 :: r) false
  | (n + 1) :: r => k (n :: r) true

/-- `len(s.scheds)` -/
def cLen (s : List Nat) : Int := s.length

/-- `s.startNext(tx)`: `s.scheds = s.scheds[1:]; s.leftAfter = s.leftAfter[1:]; s.scheds[0].Start(tx)` -/
def cStartNext (s : List Nat) (k : List Nat → List Nat × SecOut) : List Nat × SecOut :=
  match s with
  | _ :: b :: r => k (b :: r)
  | _ => (s, .panic)

/-- (regeneration only) a statement the reader of the source does not know, or one that breaks the lock discipline -/
def cUnsupported (s : List Nat) (_what : String) : List Nat × SecOut := (s, .panic)

/-! ### the two sections of `Next` as the model has them -/

/-- reader section -/
def rsec : List Nat → List Nat × SecOut
  | [] => ([], .panic)
  | (n + 1) :: r => (n :: r, .ret true)
  | [0] => ([0], .ret false)
  | 0 :: b :: r => (0 :: b :: r, .wait (r.length + 2))

/-- writer section of a caller that saw `len(s.scheds) = seen` in its reader section -/
def wsec (s : List Nat) (seen : Nat) : List Nat × SecOut :=
  if s.length < seen then
    -- somebody has started the next part: take a token of the current part
    match s with
    | [] => ([], .panic)
    | (n + 1) :: r => (n :: r, .ret true)
    | [0] => ([0], .ret false)
    | 0 :: b :: r => (0 :: b :: r, .retry)
  else
    -- drop the current part, start the next one, take a token there
    match s with
    | _ :: (n + 1) :: r => (n :: r, .ret true)
    | _ :: 0 :: r => (0 :: r, .retry)
    | _ => (s, .panic)

/-- what `Left()` returns, decided after its reader section from `len(s.scheds)`, `leftAfter[0]`, `s.scheds[0].Left()` -/
inductive LeftOut where
  | ret (n : Int)
  | toWriter        -- tokens after the current part unknown (an unlimited part): shift under the write lock, start again
  | unsupported (what : String)   -- (regeneration only) a statement the reader of the source does not know
deriving Repr, DecidableEq

/-- `Left()` of a composite over finite parts: the tokens of the current part plus those of the parts after it -/
def compLeft : List Nat → Nat := tot

/-- `leftAfter` as `NewComposite` fills it for finite parts: entry `k` = the tokens of the parts after `k` -/
def mkLeftAfter : List Nat → List Nat
  | [] => []
  | _ :: r => tot r :: mkLeftAfter r

/-- the loop of `NewComposite` (from the last part to the first) over a loop body `step`: (accumulator, `unknown`, `Left()`
of the part) ↦ (entry of `leftAfter`, `unknown`, accumulator); returns the table, the latch and the accumulator -/
def buildWith (step : Int → Bool → Int → Int × Bool × Int) : List Nat → List Int × Bool × Int
  | [] => ([], false, 0)
  | a :: r =>
    let (la, u, acc) := buildWith step r
    let (st, u', acc') := step acc u (a : Int)
    (st :: la, u', acc')

/-! ### the pool -/

structure CSt where
  f : FSt
  sp : List Nat                 -- the shared profile: tokens left in each part that is still there
  op : List (List Nat)          -- rps-per-instance: the same for each instance's own profile
  w : List (Option Nat)         -- per instance: between reader and writer section of a `Next()`: the `len(s.scheds)` seen
deriving Repr

inductive CEv where
  | rsec (i : Nat)                  -- the reader section of instance `i`'s `Next()`
  | wsec (i : Nat)                  -- its writer section
  | nextRet (i : Nat) (ok : Bool)   -- that `Next()` returns
  | lsec (i : Nat)                  -- the reader section of instance `i`'s `Left()`
  | leftRet (i : Nat) (left : Nat)  -- that `Left()` returns
  | other (e : Ev)                  -- start, acq, empty, reqAdd, shoot, respAdd, discard, rel
deriving Repr, DecidableEq

/-- `parts`: what one full profile consists of (`tot parts = c.tokens`) -/
def cinit (c : Cfg) : CSt :=
  { f := finit c, sp := [], op := List.replicate c.instances [], w := List.replicate c.instances none }

/-- the pool starts with the shared profile built -/
def cinitWith (c : Cfg) (parts : List Nat) : CSt := { cinit c with sp := parts }

/-- the parts of the profile instance `i` draws from -/
def CSt.prof (c : Cfg) (s : CSt) (i : Nat) : List Nat := if c.perInstance then s.op[i]?.getD [] else s.sp

def CSt.setProf (c : Cfg) (s : CSt) (i : Nat) (p : List Nat) : CSt :=
  if c.perInstance then { s with op := s.op.set i p } else { s with sp := p }

/-- a section that ends the call: the composite's answer `ok` goes to the loop; the pool's token counter moves with it -/
def conclude (c : Cfg) (s : CSt) (i : Nat) (p : List Nat) (ok : Bool) : Option CSt :=
  (step c s.f.base (if ok then .tokOk i else .tokEnd i)).map fun b =>
    { (s.setProf c i p) with f := { base := b, pend := s.f.pend.set i (.drew ok) }, w := s.w.set i none }

def cstep (c : Cfg) (parts : List Nat) (s : CSt) : CEv → Option CSt
  | .rsec i =>
      if s.f.pend[i]? = some .idle ∧ s.w[i]? = some none ∧ s.f.base.pcs[i]? = some .wait then
        match rsec (s.prof c i) with
        | (p, .ret ok) => conclude c s i p ok
        | (p, .wait seen) => some { (s.setProf c i p) with w := s.w.set i (some seen) }
        | _ => none
      else none
  | .wsec i =>
      match s.w[i]? with
      | some (some seen) =>
        if s.f.pend[i]? = some .idle then
          match wsec (s.prof c i) seen with
          | (p, .ret ok) => conclude c s i p ok
          | (p, .retry) => some { (s.setProf c i p) with w := s.w.set i none }
          | _ => none
        else none
      | _ => none
  | .nextRet i ok =>
      if s.f.pend[i]? = some (.drew ok) then some { s with f := { s.f with pend := s.f.pend.set i .idle } } else none
  | .lsec i =>
      if s.f.pend[i]? = some .idle ∧ s.w[i]? = some none then
        let l := compLeft (s.prof c i)
        (step c s.f.base (.chk i l)).map fun b => { s with f := { base := b, pend := s.f.pend.set i (.loaded l) } }
      else none
  | .leftRet i l =>
      if s.f.pend[i]? = some (.loaded l) then some { s with f := { s.f with pend := s.f.pend.set i .idle } } else none
  | .other e =>
      match e with
      | .chk _ _ | .tokOk _ | .tokEnd _ => none      -- the profile is only used through its sections
      | .start i =>
        if s.f.pend[i]? = some .idle ∧ s.w[i]? = some none then
          (step c s.f.base (.start i)).map fun b => { s with f := { s.f with base := b }, op := s.op.set i parts }
        else none
      | e =>
        -- an instance inside a schedule call (also between the two sections of a `Next()`) does nothing else
        if s.f.pend[evInst e]? = some .idle ∧ s.w[evInst e]? = some none then
          (step c s.f.base e).map fun b => { s with f := { s.f with base := b } }
        else none

def crun (c : Cfg) (parts : List Nat) : CSt → List CEv → Option CSt
  | s, [] => some s
  | s, e :: es => match cstep c parts s e with
    | some s' => crun c parts s' es
    | none => none

/-- the pool has ended and no schedule call is in progress -/
def CSt.terminal (s : CSt) : Bool := s.f.terminal && s.w.all (· == none)

/-! ### the seeded variant (for the falsifiability examples): the writer section without its retry -/

/-- `wsec` as it would be if "somebody has started the next part" returned the part's answer as it is -/
def wsecNoRetry (s : List Nat) (seen : Nat) : List Nat × SecOut :=
  if s.length < seen then
    match s with
    | [] => ([], .panic)
    | (n + 1) :: r => (n :: r, .ret true)
    | 0 :: r => (0 :: r, .ret false)
  else wsec s seen

end Pandora.Model.C03Comp
